"""C15 — exactly the handlers whose declared criteria hold are invoked; unmatched objects are untouched.

Tie: (T) the boolean skeletons of registries.match/prematch, every `_matches_*`, the registries'
per-handler tests, the `_deduplicated` key and the blind-gate/finalizer decision of
processing.process_resource_causes are re-extracted from the AST on every run and proved equal to
the model's skeletons (Kopf/Tie/C15.lean); (D) real handlers (dataclasses and kopf.on.* decorators
with an explicit registry) x real causes over the criteria alphabet are pushed through the real
registries.match/prematch/get_handlers/_deduplicated and the real process_resource_event, and
compared with the Lean model; the oracle is a separate Python reading of docs/filters.rst.
Sub-registries (`@kopf.subhandler`, `kopf.register`, `kopf.execute(fns=...)`) are built by kopf itself
inside a running parent handler and judged the same way (finding C15-F8, /repo 17e5c42).
The variant of processing.py under test is a value (`Repairs`; the head is /repo ad4ec08: blind again to
the objects it does not match -- 423b86f's purge "by name" is reverted, finding C15-F9); two real operators
on one simulated cluster are its regression. Stacked registrations (one function, one id, several
reasons) are run in a closed loop on the real process_resource_event: calls per cause (/repo f7d6401).
Since the white-box review (review/wb/C15/NOTES.md) every whole cycle is also judged by the ORACLE from its own reading
of the object (body, stored last-handled state, configured finalizer name, documented handler ids): the on.event
handlers invoked, the spawner's input and the change handlers invoked are those whose declared criteria hold; the
harness's filter callbacks insist on the cause's kwargs. 'The field actually changed' follows /repo 8d1358b (JSON
equality: true is not 1). The resource selector among the CLUSTER's resources is finding C15-F11 (`served_cases`).
"""
from __future__ import annotations

import ast
import itertools
import json
import logging
import os
import random
import re
from typing import Any, Callable, Iterable

from .. import leanio, pyextract
from ..core import Ctx, ExtractError, load_corpus

ID = "C15"
LEVEL = "proof"
ENGINES = ["lean-model", "pyextract", "purediff", "kopfsim"]
LEVEL_TEXT = (
    "STRENGTH partial. Lean theorems for all handlers/causes (unbounded label maps, patterns, registries; induction over "
    "lists). FULL (unguarded): matchesMetadata_iff/matchesLabels_iff; dedup_nodup/first_kept/sublist/ids_same, "
    "dedup_function_once ('one FUNCTION under one id once': the key is the function's identity since /repo c47dbbf; "
    "regression theorem bound_method_once_regression) and selected_iff/selected_sound; the cause-kind gate of the changing "
    "registry spelled out, incl. /repo 17e5c42: gate_iff, selected_on_deletion_iff (on a marked object resuming handlers "
    "without deleted=True and FIELD handlers -- reason-less, non-resuming, field_needs_change -- are skipped, every other "
    "handler whose criteria hold is selected), subhandler_gate / subhandler_selected_iff / subhandlers_selected_iff (a "
    "sub-handler -- reason none, not resuming -- with a falsy field_needs_change is selected iff `match`, on every cause) and "
    "subhandler_deletion_regression (finding C15-F8: the gate of /repo 345a874 rejected the sub-handlers of a deletion "
    "handler); subhandler_matching_invoked_fresh; invoked_sound, unmatched_never_invoked, "
    "matching_due_invoked/matching_invoked_fresh (changing registry, both directions of 'exactly' under the all-at-once "
    "lifecycle, composed with C02); THE STEALTH CLAUSE FOR THE CODE AS IT IS (/repo ad4ec08 = `Repairs.head`: 423b86f's "
    "purge of leftover progress records in the blind branch is reverted -- the operator is blind again to the objects it "
    "does not match), every theorem for EVERY variant of the code without the blind purge: stealth_exact_blind / "
    "stealth_exact (NO guard: exactly what a cycle does to an object nothing matches, over the model's Effect enumeration: "
    "the re-sent carried transformation, the removal of the own finalizer, the touch -- nothing else, no purge term), "
    "blind_never_purges (UNGUARDED, any registry/cause/object, matched or not: the cycle itself patches no progress record "
    "away), stealth_records_ignored (UNGUARDED: the progress records lying on the object are not even looked at outside "
    "the handling -- one's own, a sub-handler's, another deployment's: all the same), stealth_exact_at (every variant, "
    "with or without the purge), carried_fulfilled_sends_nothing (unguarded, every variant: a fulfilled carried "
    "transformation is no write to an unmatched object), deadline_writes_nothing (30557a0/02af7ce as far as this property "
    "sees them), purgeIds_iff (what the purge of 423b86f took away: regression material). REGRESSION theorems: "
    "stealth_purge_by_name_witness (finding C15-F9, introduced by 423b86f, FIXED by ad4ec08: in the variants with the purge "
    "an operator that never matched the object patches the record `h` away, whoever wrote it; the code as it is does nothing), "
    "stealth_leftover_regression (C03-F2 seen from here, OPEN AGAIN by decision: before 423b86f nothing, with it the purge of "
    "exactly the records named, now nothing again -- the leftover stays; a leftover own finalizer is still removed), "
    "carried_fulfilled_regression (C03-N2/C06-F9 seen from here: before 608a57d the matching handler was never invoked; "
    "608a57d: invoked at once; 02af7ce and the head: the cycle comes back by a touch). UNDER A NAMED GUARD (= open finding, each with a *_witness replayed from the corpus): "
    "match = documented reading of docs/filters.rst under OldOnlyFree (C15-F1, since /repo bd6cd41 only its residual: a "
    "non-update handler on a changing cause WITH an old state whose old state alone satisfies value=) and TokenFree (per "
    "handler AND cause: only the abuse of the private absent marker as a criterion; the callback gap C15-F2 is repaired by "
    "/repo 07968cf: callback_none_regression) -- match_eq_doc_partial, _update_partial, _nonchanging_partial, "
    "_creation_partial (causes without an old state: OldOnlyFree is void), invoked_doc_partial; the clause 'field/value "
    "criteria (current value; for updates old or new value)' on CREATIONS is FULL: creation_old_state_ignored (no guard: "
    "the non-existent old state is not consulted by on.create/on.resume/on.delete handlers), creation_value_current_only "
    "(value= holds iff it holds on the current value, for every documented criterion), create_absent_regression; "
    "Selector.check = docs/resources.rst except the events.k8s.io exclusion (observation, docs-only) -- "
    "selector_check_iff_partial, resource_criterion_doc_partial; the stealth clause in its STRONGEST form ('left "
    "untouched' = the cycle does NOTHING: no request, no purge, no call): stealth_total_partial under 'own finalizer "
    "absent, no still-effective transformation carried in (C15-F5, by design), no lingering daemon (C15-F6)' -- each guard "
    "necessary: stealth_blocked_witness (the removal of a leftover own finalizer: what the clause wants), "
    "stealth_carried_witness, stealth_touch_witness; stealth_finalizer_only_partial (without the first guard: the only "
    "effect is the removal of the own finalizer that IS on the object), stealth_removals_only_partial (every variant: "
    "removals only), stealth_partial (weaker hypotheses -- on.event handlers and finalizer-free daemons may match: no "
    "framework write at all). The two-operator oracle reads the clause literally (no request at all for an object the "
    "operator never matched; finding C15-F9 is its regression: corpus/C15/F9.json must pass). "
    "THE CLAUSE 'old/new transition criteria together with \"the field actually changed\"' is FULL since /repo 8d1358b "
    "(finding C04-F12 seen from here): field_changed_iff (the code's decision -- identity with the absent marker on a side, "
    "else bool(diffs.diff(old, new)) or old != new -- is exactly 'the two states of the field are not the same JSON value': a "
    "boolean is never a number, another key order is no change; under the law PyLaw 'JSON equality refines Python ==', "
    "proved for parsed JSON: pyEq_of_jsame), field_handler_change_gate, field_changed_of_before (nothing that was a change "
    "stops being one), field_changed_bool_regression (1 -> true, false -> 0, [1] -> [true], {k: 0} -> {k: false} were no "
    "changes for Python's `!=`: the handler of exactly that field was never selected). THE WHOLE CYCLE (model of "
    "process_resource_event, every variant / object state / event type, by handler id): cycle_watch_exact / cycle_watch_iff "
    "(the on.event handlers invoked are exactly those with a matching registration -- also for objects in deletion and "
    "DELETED events), cycle_spawn_exact / cycle_spawn_iff (the daemons/timers handed to the spawner: those that match and "
    "are not stopped for good; none for an object in deletion), cycle_handle_exact / cycle_handle_sound / "
    "cycle_handle_complete (when the cycle handles: exactly cause_handlers; sound unguarded, complete while no resuming "
    "handler has finished in the process). The Python oracle states the same on the REAL cycle, from its own reading of "
    "the object (labels/annotations/fields of the body, the last-handled state it stored itself -- not kopf's cause): "
    "on.event handlers on every event, spawner input, change handlers (soundness always; completeness when nothing is "
    "carried, the cycle is not a finalizer cycle and the handler has no progress record), the values kopf's essence "
    "gives the field criteria (also fields outside spec: get_extra_fields), the finalizer NAME (settings.persistence."
    "finalizer configured in 1/3 of the cycles, kopf's default name then being a foreign finalizer), and the documented "
    "handler ids (function name or id= + the field; one function for two fields is two handlers). "
    "NEW OPEN FINDING C15-F11 (selector_served_gap_witness; corpus/C15/F11.json): the resource criterion of a handler is "
    "Selector.check per resource; the priority of core v1 and the ambiguity rule of docs/resources.rst are applied only "
    "when choosing what to WATCH (Selector.select): a handler declared for 'pods' also runs for pods.metrics.k8s.io objects "
    "as soon as that resource is watched for a category / EVERYTHING / callable selector of another handler. "
    "THE RESOURCE CRITERION OVER A HISTORY OF DISCOVERIES (seed C15g closed as a class): the served resources are re-discovered "
    "at runtime (observation.revise_resources); the same endpoint (group/version/plural = Resource.__eq__) comes back with other "
    "categories / short names / kind / `preferred` flag. Lean: `Selector.route` (one selector instance over the resources of "
    "consecutive events), rediscovery_routes_by_current / rediscovery_forgets_past (FULL: the k-th event is routed by `check` on the "
    "resource as it is at the k-th event, whatever was discovered before), rediscovery_doc_partial / rediscovery_doc_named (= the "
    "documented criterion at every step; the events.k8s.io guard only for EVERYTHING/callables); the memoised variant "
    "`Selector.routeMemo` (outcomes remembered per endpoint) is the code exactly on histories where no endpoint comes back with "
    "another outcome (memoised_route_eq_of_stable: why kopf's own tests pass it) and is refuted by memoised_route_witness "
    "(category left / joined, preferred version moved). Oracle (from docs/resources.rst, per step, on the real "
    "process_resource_event with one registry and one ResourceMemories over the whole history): on.event handlers invoked = those "
    "whose selector selects the resource as it is NOW, on every event; on.create handlers for a new object likewise (through the "
    "finalizer cycle when a mandatory on.delete handler selects it now); the finalizer follows the on.delete handlers that select it "
    "now; no request at all for an object of a resource no state-changing handler selects now; and the resource-level questions "
    "the reactor puts to the same instances (Selector.check, Selector.select over the cluster as it is now, has_handlers, "
    "get_resource_handlers). "
    "ORACLE ONLY (closed loop on the real process_resource_event, no model): 'one function registered twice under the "
    "same id is invoked once' PER CAUSE for stacked decorators (@on.update + @on.delete, @on.create + @on.resume, ... on "
    "one function, one id): exactly one call for every cause the function is registered for, none for the others, never two "
    "in one cycle, also when a deletion supersedes an open handling (/repo f7d6401, C03-N3 seen from here: the namesake's "
    "finished record is not inherited any more; reverting f7d6401 is caught by corpus/C15/s07) -- except OPEN FINDING C15-F10 "
    "(the residual f7d6401 names itself: the resuming registration first, restart in the middle of a handling, then "
    "deletion: the deletion handler is never called). "
    "TIE/ORACLE ONLY: invoked = selected for index handlers (C17's cycle); `when=` and the callbacks are opaque booleans "
    "in the model (the harness's callbacks insist on the cause's kwargs: one called with none, or with another object's, "
    "raises = an oracle failure); Selector notation parsing (oracle from the notation, incl. kubectl's name.version[.group]); "
    "_deduplicated's loop. 'Matched by no handler' is read as the code's prematch "
    "(object-level criteria, ignoring old=/new=/'changed'); docs/filters.rst is inconsistent about a field handler on a "
    "non-existent field (lines 331-336 vs 83-85): the oracle follows 83-85 (value default = PRESENT). The model's boolean "
    "skeletons are regenerated from the AST and re-proved equal on every run; real match/prematch/get_handlers/"
    "_deduplicated/Selector.check/process_resource_event(+apply) are compared with the model on the criteria alphabet "
    "(thorough: the full product).")
TIE = ("T (AST -> Lean for match/prematch/_matches_*/all four registry loops incl. ChangingRegistry's gate chain, "
       "how 'the field actually changed' is decided (the local `changed` of /repo 8d1358b: changed_eq), Selector.check, the blind gate and whether it purges (423b86f: a known shape, reverted by ad4ec08 -- blind_purge_eq wants `false`), the finalizer decision / carried-patch exit and what "
       "it returns (the if-chain of 30557a0 + 02af7ce) / resumed-handlers filter of processing.process_resource_causes, "
       "whether process_resource_event forgets a fulfilled carried patch (608a57d: not any more) and apply's touch "
       "decision, re-proved equal to the model; the recognised variant of processing.py is a value (Extracted.repairs) whose "
       "flags are re-derived from the translated skeletons -- blind_purge_eq / waiting_eq / forget_eq -- and must be the "
       "variant the theorems are named after -- repairs_known: Repairs.head = ad4ec08; a tree with the blind purge again, or "
       "without 30557a0 / 02af7ce, breaks it) "
       "+ D over the criteria alphabet (quick: sampled; thorough: full "
       "product), over the documented selector notations x a resource pool, registries with plain functions and bound "
       "methods, and on real process_resource_event cycles: single events with preset residues (carried patch, resumed "
       "handlers, handlers that ask for a retry; daemon spawning/stopping stubbed) AND sequences of consecutive events on "
       "one ResourceMemories with kopf's real spawn/match/stop of daemons (invoked handlers observed by `param`, touch "
       "patches observed, the progress records taken away by the cycle's patch read back with kopf's own storage reader, "
       "the truthiness of the returned `delays`); leftover progress records are put on the object (annotations and/or "
       "status.kopf.progress; own, sub-handler, orphaned, foreign) or travel from cycle to cycle as kopf wrote them; "
       "SUB-REGISTRIES: parents of every kind are run by kopf's execution.execute_handlers_once in "
       "subhandling_context, declare sub-handlers through @kopf.subhandler / kopf.register / kopf.execute(fns=[..]|{..}), "
       "and the real sub-registry (handler fields, get_handlers result, invoked functions) is compared with the "
       "declarations, the oracle and the model; the same inside whole process_resource_event cycles; RE-DISCOVERY HISTORIES: the answers of every handler's "
       "real Selector instance to the consecutive questions of a history (the same endpoint with changing attributes) vs. the "
       "model's `Selector.route` (driver op C15.route; callables per question); _deduplicated's loop "
       "and Selector.__post_init__ are tied by D only")
STRENGTH = "partial"   # see LEVEL_TEXT: several clauses hold only under named guards (= open findings) or rest on the tie
THEOREMS = [("Kopf.Props.C15", "Kopf.C15." + n) for n in (
    "match_eq_doc_partial", "match_eq_doc_update_partial", "match_eq_doc_nonchanging_partial", "match_eq_doc_creation_partial",
    "creation_old_state_ignored", "creation_value_current_only", "create_absent_regression",
    "field_changed_iff", "field_handler_change_gate", "field_changed_of_before", "field_changed_bool_regression",
    "doc_gap_old_only_witness", "callback_none_regression", "doc_gap_token_literal_witness",
    "matchesMetadata_iff", "matchesLabels_iff", "dedup_nodup", "dedup_first_kept", "dedup_sublist", "dedup_ids_same",
    "dedup_function_once", "bound_method_once_regression",
    "selected_iff", "selected_sound",
    "gate_iff", "selected_on_deletion_iff", "subhandler_gate", "subhandler_selected_iff", "subhandlers_selected_iff",
    "subhandler_deletion_regression",
    "selector_check_iff_partial", "resource_criterion_doc_partial", "selector_gap_events_k8s_witness", "selector_served_gap_witness",
    "rediscovery_routes_by_current", "rediscovery_forgets_past", "rediscovery_doc_partial", "rediscovery_doc_named",
    "memoised_route_eq_of_stable", "memoised_route_witness",
    "stealth_exact_at", "stealth_exact_blind", "stealth_exact", "blind_never_purges", "stealth_records_ignored", "purgeIds_iff",
    "stealth_removals_only_partial", "stealth_finalizer_only_partial", "stealth_total_partial",
    "stealth_partial", "carried_fulfilled_sends_nothing", "deadline_writes_nothing", "stealth_carried_witness",
    "stealth_blocked_witness", "stealth_touch_witness", "stealth_purge_by_name_witness", "carried_fulfilled_regression",
    "stealth_leftover_regression",
    "cycle_watch_exact", "cycle_watch_iff", "cycle_spawn_exact", "cycle_spawn_iff", "cycle_handle_exact",
    "Essence.declared_field_seen", "Essence.seen_independent_of_others", "Essence.under_declared_field_seen",
    "Essence.drop_children_harmless", "Essence.textual_skip_witness",
)] + [("Kopf.Props.C15_Invoked", "Kopf.C15." + n) for n in (
    "invoked_sound", "invoked_doc_partial", "unmatched_never_invoked", "matching_due_invoked", "matching_invoked_fresh",
    "subhandler_matching_invoked_fresh", "cycle_handle_sound", "cycle_handle_complete",
)]
TIE_THEOREMS = [("Kopf.Tie.C15", "Kopf.C15.Tie." + n) for n in (
    "match_eq", "prematch_eq", "resource_eq", "subresource_eq", "subresource_nonwebhook", "when_eq", "labels_eq",
    "annotations_eq", "metadata_step_eq", "field_values_eq", "current_only_eq", "values_eq", "change_eq", "changed_eq", "old_side_eq", "new_side_eq",
    "sides_src_eq", "field_changes_eq", "iter_plain_eq", "requires_finalizer_eq", "dedup_key_eq", "blind_eq", "blind_purge_eq", "repairs_known",
    "finalizer_decision_eq", "release_eq", "early_exit_eq", "waiting_eq", "forget_eq", "iter_changing_eq", "resumed_filter_eq",
    "apply_touch_eq",
    "selector_parts_eq", "selector_version_eq", "selector_any_eq", "selector_fn_eq", "selector_check_eq",
)]
RULE = ("handler declaration = labels x annotations criterion in {none, 'x', 'y', PRESENT, ABSENT, callback(is 'x')} x "
        "[no field | field x value x old x new in the same six x field_needs_change] x when in {none, true-fn, false-fn}; "
        "object state = label x annotation x old field x new field in {absent, 'x', 'y'} (+ old=None) for changing causes, "
        "label x annotation x field for watching causes; plus extended sweeps (null values, callbacks is-None/truthy/not-None, "
        "the private token, empty strings), the complete product value x old x new x field_needs_change over criteria "
        "including the falsy-but-meaningful literals '', 0, False, [], {} against old x new over the same falsy-but-present "
        "values (and '' label/annotation values and criteria, labels={}) -- complete in the thorough tier; quick: every "
        "declaration with at most one of value=/old=/new= + a seeded sample of the rest; old x new over values Python's == "
        "equates and JSON does not (true/1, false/0, alone, inside lists and mappings; the same value in another key order; "
        "1.0/1: oracle only), complete in both tiers; cross-class pairs, "
        "random larger label maps, registries with duplicate registrations through kopf.on.* (20%: one function for two "
        "fields through two decorators, the ids left to kopf), every selector notation of "
        "docs/resources.rst (incl. kubectl's name.version[.group]) x a pool of 10 resources (preferred/non-preferred versions, core and events.k8s.io events, "
        "missing kind/singular), the complete grid handler kind (on.create/update/delete/resume/field through kopf.on.*) x "
        "value= in {none, ABSENT, PRESENT, 'x', callbacks} x every cause shape detect_changing_cause builds over the field "
        "alphabet (creation = no old state; update old != new, also first-seen; deletion with no / equal / differing old "
        "state; resuming) through get_handlers, whole process_resource_event cycles (without / with a carried remaining_patch that "
        "still changes the object / that is fulfilled already; several handlers' fields TOGETHER -- related names of one stanza: "
        "textual prefixes that are not parents (status.s/.ss/.sx, metadata.name/.namespace, spec.f/.ff), parents and children "
        "(status, status.s, status.s.t; metadata.labels[.lk]; spec[.f]), repeats -- as the complete grid of ordered pairs "
        "(creation with PRESENT, then every field changes: update handlers; ABSENT: object untouched) and 2-4-event sequences "
        "under 2-5 handlers of every kind (+ on.event / timer handlers: one essence for all three registries) whose "
        "last-handled state is what kopf itself stored in the sequence's earlier cycles, through the real "
        "settings.persistence.diffbase_storage; preset resumed_handlers, temporarily failing handlers, fields under "
        "spec/metadata/status; 35% with progress records on the object: of 1-3 registered handlers, of their sub-handlers named "
        "in `subrefs` or orphaned, of somebody else, in annotations / status.kopf.progress / both; 20% with a consistency "
        "deadline that is over; 1/3 with a configured settings.persistence.finalizer, kopf's default name then among the "
        "foreign finalizers; 6% with an old/new pair only JSON tells apart) and 3-6-event sequences with real "
        "daemons (obeying / ignoring `stopped`) where the label comes and goes and the finalizer follows kopf's own edits; "
        "the complete grid of the blind branch (4 handler kinds filtered out by label/when/annotation x 5 record sets x own "
        "finalizer x event type incl. DELETED x carried modes, and the same object matching); sequences in which a handler "
        "that needs a label asks to be retried, the label goes and comes back, and kopf's own progress annotations travel "
        "with the object; two deployments of one registry (same handler ids) filtered to their own share by a label / an "
        "annotation, 1-3 objects, a handler that asks to be retried: the requests of each operator per object (whole-operator "
        "simulation); stacked registrations in a closed loop on the real process_resource_event (one function under one id for "
        "2-4 of create/update/delete/resume[deleted=True] in random decorator order, a sibling that asks to be retried 1-9 "
        "times or none, timelines of edit / restart / deletion, each when the operator is quiet or -- `!` -- as soon as a "
        "handler was called for the cause before, first sight by watching or by listing): calls per cause; "
        "sub-registries: the complete grid parent kind (on.create/update/delete/resume[deleted=True]/field) x way of declaring "
        "(@kopf.subhandler, kopf.register, kopf.execute(fns=list), kopf.execute(fns=mapping)) x 22 cause shapes (every reason, "
        "DELETE/FREE/GONE on marked bodies, initial or not, labelled or not) x sub-handlers {no filter, labels=, when=false, "
        "field/value}, plus random parents/sub-handlers (0-4, random label/annotation/when/field filters, the same function "
        "twice under one or two ids, implicit or explicit kopf.execute()), judged when the parent itself runs for the cause; "
        "closed-loop scenarios (an on.delete handler declaring two sub-handlers on a marked object that carries the finalizer: "
        "both invoked, then the finalizer released in the same cycle; one of them asking for a retry: not released; "
        "on.resume(deleted=True) on a marked object; on.create with labels=/when= sub-handlers; on.update/on.field parents) "
        "and random cycles built so that a parent with random sub-handlers runs; "
        "re-discovery histories: one registry of on.event / on.create / mandatory on.delete handlers declared through 29 selector "
        "notations that read discovery attributes (category=, shortcut=, kind=, singular=, bare names matched by short name / kind / "
        "singular / plural, version-less = preferred only, group + name, EVERYTHING with and without a version, callables reading "
        "categories / preferred, and explicit group/version/plural as the control) x 2-5 consecutive events for NEW objects of 1-3 "
        "endpoints whose resource is re-discovered between the events with a category / short name added or removed, kind+singular "
        "renamed, the preferred flag flipped (or unchanged, or rewritten wholesale), the resource-level questions asked before "
        "the event in 30%; systematic part: every notation as on.event AND on.create handler over every ordered pair (base discovery, "
        "one attribute different) + in-out-in, and per notation that tells two discoveries apart a mandatory on.delete / an "
        "on.create handler next to an explicit on.event spy in both directions (the stealth clause); a "
        "case is distinct by (criterion kinds, documented per-part verdicts, real match/prematch) and non-trivial when the "
        "handler has at least one criterion")
TRUSTED = ["pyextract atom vocabularies for registries.match/prematch/_matches_*/registry loops, references.Selector.check and the "
           "finalizer decision / carried-patch exit of processing.process_resource_causes",
           "the harness's reading of a cause (labels, annotations, old/new/body), of a handler declaration and of a parsed "
           "Selector's fields into the model's records; webhook sub-resources are passed in as a boolean (C18's subject)",
           "`when=` and the callbacks are opaque in the MODEL: `when` is a boolean per (handler, cause), callbacks are pure "
           "boolean functions of the value; on the real code the harness's callbacks check that they are given the kwargs "
           "of the cause at hand (body/meta/spec/status/labels/annotations/patch/logger/memo/... of one object) and raise "
           "otherwise (a raise inside match()/get_handlers()/the cycle is an oracle failure); callbacks whose VERDICT "
           "depends on kwargs are outside the model",
           "C02's theorems invoked_selected_awake and due_invoked_all_at_once (Kopf.Props.C02) are used as stated there by "
           "Kopf.Props.C15_Invoked (while C02's files are being edited that one module may fail to build)",
           "Essence.* (which fields a changing handler's criteria can see) model DiffBaseStorage.build at the level of WHICH "
           "PATHS are copied from the object (every copy is a deep copy of the same object at a path); build() itself is not "
           "translated: it is tied by D only -- the cycle oracle compares, per handler with a field, the values kopf's cause "
           "gives the criteria with the object's own (current: the event's object; old: the object kopf stored the state for)",
           "Obj.lingering / Obj.handlerDelays / Obj.carried / Obj.carriedOps / Obj.resumed / Obj.records are inputs of the cycle "
           "model observed on the real run (outputs of match_daemons/stop_daemons, of the handlers, of earlier cycles; the "
           "records on the object are read with kopf's own ProgressStorage.fetch, which also decodes the patch): daemon life "
           "cycles are C09's, the patch content of process_changing_cause (incl. its purges: NOOP/FREE, /repo 40d09eb) is "
           "C02's/C03's; State.purge / ProgressStorage.purge are not translated: `purgeIds` (the purge of the 423b86f variants; the "
           "code as it is has none) is tied to them by D only, on trees that have the purge"]
ASSUMPTIONS = ["values are JSON (strings, integers, booleans, null, lists, objects; no floats in the model: 1.0/1 twins are run "
               "against the oracle only). Python's bool/int coercion under == (True == 1, False == 0) is modelled explicitly on "
               "the Lean side (J.pyEq) and compared with the real code by the tie; for LITERAL criteria (value=/old=/new= "
               "against a value) it is kept out of the judged set: the oracle leaves a case undefined when its documented "
               "verdict (plain or under a named deviation) differs between Python == and JSON equality. 'The field actually "
               "changed' is judged as JSON values always (true is not 1; 1.0 is 1; key order is nothing): /repo 8d1358b",
               "a criterion is 'given' iff it `is not None` (model: VCrit.unset only for None; oracle: `is None` tests): "
               "'', 0, False, [], {} are ordinary literals",
               "the reason/initial/deleted gate of ChangingRegistry.iter_handlers reads C05's records of the handler kind and the "
               "cause kind (Kopf.C05.Handler / Kopf.C05.Cause) and, since /repo 17e5c42, the handler's field_needs_change: it is "
               "C15's own definition (Kopf.C15.gate), tied to the AST by iter_changing_eq / selChanging_eq_core",
               "a sub-handler's cause is its parent's ADJUSTED cause (handlers.adjust_cause: old/new narrowed to the parent's "
               "field): the sub-registry cases read old/new off the cause kopf passed to get_handlers; field filters of "
               "sub-handlers under a parent that has a field itself are tied, not judged (the docs are silent); a sub-registry "
               "is judged only for causes the parent itself runs for by the documented reading, and only for causes "
               "detect_changing_cause can build (a deletion mark only with DELETE/FREE/GONE)",
               "'selected' vs 'invoked': both directions are proved for the changing registry under all_at_once (a due matching "
               "handler is invoked; an invoked handler matches); one-by-one/asap planning, sleeping and finished handlers are "
               "C02's/C03's; statements are id-level (two functions under one id are not told apart); for on.event handlers and the "
               "spawner's input 'invoked = those whose criteria hold' is proved on the cycle model (cycle_watch_iff / "
               "cycle_spawn_iff) and stated by the oracle on every real cycle; for change handlers the cycle oracle states "
               "soundness on every cycle and completeness when nothing is carried, the cycle is not given to a finalizer edit "
               "and the handler has no progress record on the object (started handlers: C02's); index handlers are not in "
               "the cycles (C17's)",
               "stealth is proved over the model's Effect enumeration of process_resource_event/process_resource_causes + "
               "application.apply with consistency pre-proven (consistency_time is None) or a deadline that is over already "
               "(both: consistency_is_achieved before the patch is looked at; a deadline in the FUTURE -- the sleep, the exit "
               "on an accumulated patch -- is C07's/C03's) and an uninterrupted sleep; for an object nothing matches the "
               "changing cause is dropped before consistency is looked at, so the early exit and its new delays (30557a0, "
               "02af7ce) cannot concern it; the replaced patch_and_check answers like the API: a request (and a new "
               "version) iff the merge-patch is non-empty or a transformation function changes the object; the touch is modelled for cycles "
               "without handling only (what process_changing_cause leaves in the patch is C02's); closed-loop server writes are "
               "not observed (patch_and_check is replaced, the next event is given, not derived, except the own finalizer and "
               "kopf's own progress annotations in sequences); 'left untouched' is judged on what is SENT: the requests of the "
               "cycle applied to a copy of the object; whether a leftover record is EVER removed from an object that stays "
               "unmatched and gets no event is nobody's clause here (C03: convergence, finding C03-F2 -- open again since ad4ec08); "
               "the single-cycle oracle keeps the lenient reading (taking one's OWN marks off an unmatched object conforms: the "
               "own finalizer -- and, would a future repair purge only what this process itself stored, such records), the "
               "literal reading (no request at all) is the two-operator oracle's; the two-operator runs (C15-F9) use "
               "the whole-operator simulation (harness/sim) in child processes: 2 deployments of one registry shape, 1-3 "
               "objects, 2-8 virtual seconds",
               "Selector.__post_init__ (positional notation -> fields) is not modelled: the oracle reads the notation, the model "
               "reads the parsed fields, the tie compares both with the real check(); kubectl's `name.version[.group]` notations are "
               "generated (`name.v1` without a group is judged only where 'the core group' and 'any group' agree: the docs give "
               "one example, 'pods.v1'); the ambiguity resolution of Selector.select (which resources are SERVED) is C19's",
               "re-discovery histories: the resource handed to process_resource_event IS the discovery (kopf passes the Resource object "
               "of the watcher that observation.revise_resources (re)started; the revision itself -- which watchers are stopped and "
               "started for which resource -- is C19's); every step's object is NEW (event ADDED, no annotations, no finalizer; fed back "
               "once as MODIFIED with the finalizer the cycle asked for), so the cause is a creation and on.update/resume/timers/"
               "daemons/index handlers are not in these histories; all endpoints are in one API group (no ambiguity rule); a history has "
               "2-5 steps, 1-5 handlers (the systematic registry: 58)",
               "the cycle oracle reads the object itself: labels/annotations/fields of the event's body, the last-handled state "
               "as the harness stored it; the values kopf's essence gives the field criteria must be those (handlers' fields "
               "outside spec are part of the essence: get_extra_fields); the finalizer is settings.persistence.finalizer as "
               "configured; handler ids are the documented ones (function name or id=, plus the field for kopf.on.* except "
               "on.index; a sub-handler's under its parent's, without the field)"]

# C15-F1, the RESIDUAL after /repo bd6cd41: only causes WITH an old state (`cause.old is not None`). A creation
# (no old state) selected by "absent in the non-existent old state" is NOT covered: it is a plain VIOLATION again.
FINDING_OLD = {"site": "registries._matches_field_values", "deviation": "old_counts",
               "shape": "non-update changing handler (on.resume/on.delete/on.create) on a cause WITH an old state: value= satisfied by the old state only"}
FINDING_CARRIED = {"site": "processing.process_resource_event", "shape": "carried patch re-sent",
                   "what": "a handler's transformation carried over from a rejected JSON-patch is sent to an object that matches nothing any more"}
FINDING_TOUCH = {"site": "application.apply", "shape": "touch-dummy on an unmatched object",
                 "what": "while a no-longer-matching daemon/timer is exiting, the unmatched finalizer-free object gets (and keeps) the touch-dummy annotation"}


# =============================================================================================
# (T) translator sites
# =============================================================================================
KWARGS_FILL = "if not kwargs:\n    kwargs |= cause.kwargs"


def _n(text: str) -> str:
    """normalise a vocabulary key exactly as pyextract.norm() normalises source expressions"""
    return ast.unparse(ast.parse(text, mode="eval")).strip()


def _vocab(d: dict[str, str]) -> dict[str, str]:
    return {_n(k): v for k, v in d.items()}


MATCH_VOCAB = _vocab({
    "_matches_resource(handler, cause.resource)": "a.resource",
    "_matches_subresource(handler, cause)": "a.subresource",
    "_matches_labels(handler, cause, kwargs)": "a.labels",
    "_matches_annotations(handler, cause, kwargs)": "a.annotations",
    "_matches_field_values(handler, cause, kwargs)": "a.fieldValues",
    "_matches_field_changes(handler, cause, kwargs)": "a.fieldChanges",
    "_matches_filter_callback(handler, cause, kwargs)": "a.filterCallback",
})
RES_VOCAB = _vocab({
    "handler.selector is None": "a.selectorIsNone",
    "handler.selector.check(resource)": "a.check",
})
SUB_VOCAB = _vocab({
    "isinstance(handler, handlers.WebhookHandler)": "a.hWebhook",
    "isinstance(cause, causes.WebhookCause)": "a.cWebhook",
    "handler.subresource == '*'": "a.star",
    "handler.subresource == cause.subresource": "a.same",
})


def _guard_vocab(which: str) -> dict[str, str]:
    return _vocab({
        f"handler.{which}": "a.patternTruthy",
        f"_matches_metadata(pattern=handler.{which}, content=cause.body.get('metadata', {{}}).get('{which}', {{}}), "
        f"kwargs=kwargs, cause=cause)": "a.metaOk",
    })


META_VOCAB = _vocab({
    "value is filters.MetaFilterToken.ABSENT": "a.isAbsent",
    "value is filters.MetaFilterToken.PRESENT": "a.isPresent",
    "key in content": "a.keyIn",
    "key not in content": "(!a.keyIn)",
    "callable(value)": "a.isCallable",
    "value(content.get(key, None), **kwargs)": "a.cbResult",
    "value != content[key]": "a.neq",
})
FV_VOCAB = _vocab({
    "handler.field": "a.hasField",
    "handler.value is None": "a.valIsNone",
    "handler.value is filters.PRESENT": "a.valIsPresent",
    "handler.value is filters.ABSENT": "a.valIsAbsent",
    "callable(handler.value)": "a.valCallable",
    "any(value is not absent for value in values)": "a.anyPresent",
    "any(value is absent for value in values)": "a.anyAbsent",
    # the callback's argument is `None` for the absent marker (/repo 07968cf): that IS the atom `anyCb`
    "any(handler.value(None if value is absent else value, **kwargs) for value in values)": "a.anyCb",
    "any(handler.value == value for value in values)": "a.anyEq",
})
CHANGE_VOCAB = _vocab({
    "handler.field_needs_change": "a.needsChange",
    "changed": "a.changed",
})
# /repo 8d1358b: `changed = (old is not new) if (old is absent or new is absent) else bool(diffs.diff(old, new)) or old != new`
CHANGED_VOCAB = _vocab({
    "old is absent": "a.oldAbsent",
    "new is absent": "a.newAbsent",
    "old is not new": "(!a.identical)",
    "old is new": "a.identical",
    "bool(diffs.diff(old, new))": "a.diffNonEmpty",
    "old != new": "a.pyNe",
})


def _side_vocab(side: str) -> dict[str, str]:
    return _vocab({
        f"handler.{side} is None": "a.isNone",
        f"handler.{side} is filters.ABSENT": "a.isAbsent",
        f"handler.{side} is filters.PRESENT": "a.isPresent",
        f"callable(handler.{side})": "a.callable",
        f"{side} is absent": "a.absentV",
        f"{side} is not absent": "(!a.absentV)",
        f"handler.{side}(None if {side} is absent else {side}, **kwargs)": "a.cb",
        f"handler.{side} == {side}": "a.eq",
    })


FC_GUARD_VOCAB = _vocab({
    "isinstance(handler, handlers.ChangingHandler)": "a.hChanging",
    "isinstance(cause, causes.ChangingCause)": "a.cChanging",
    "handler.field": "a.hasField",
})
WHEN_VOCAB = _vocab({
    "handler.when is None": "a.whenIsNone",
    "handler.when(**kwargs)": "a.result",
})
SEL_VOCAB = _vocab({
    "handler.id not in excluded": "(!a.excluded)",
    "handler.id in excluded": "a.excluded",
    "handler.requires_finalizer": "a.requiresFinalizer",
    "match(handler=handler, cause=cause)": "a.matched",
    "prematch(handler=handler, cause=cause)": "a.prematched",
})
FIN_VOCAB = _vocab({
    "spawning_cause is not None": "a.hasSpawning",
    "registry._spawning.requires_finalizer(cause=spawning_cause, excluded=memory.daemons_memory.forever_stopped)": "a.spawnReq",
    "changing_cause is not None": "a.changingLive",
    "registry._changing.requires_finalizer(cause=changing_cause)": "a.changingReq",
    "finalizers.is_deletion_blocked(body=body, finalizer=finalizer)": "a.blocked",
    "finalizers.is_deletion_ongoing(body=body)": "a.ongoing",
})
BLIND_VOCAB = _vocab({
    "changing_cause is not None": "a.hasChanging",
    "registry._changing.prematch(cause=changing_cause)": "a.prematch",
})
RELEASE_VOCAB = _vocab({
    "raw_event['type'] == 'DELETED'": "a.deleted",
    "finalizers.is_deletion_ongoing(body=body)": "a.ongoing",
    "finalizers.is_deletion_blocked(body=body, finalizer=finalizer)": "a.blocked",
    "list(spawning_delays) + list(changing_delays)": "a.delays",
})
FORGET_VOCAB = _vocab({
    "memory.remaining_patch is not None": "a.carriedNotNone",
    "patch.as_json_patch(body)": "a.hasOps",
})
WAIT_VOCAB = _vocab({
    "consistency_time is not None": "a.timeNotNone",
    "operator_paused is not None": "a.pausedNotNone",
    "operator_paused.is_on()": "a.pausedOn",
    "patch_initially_empty": "(!a.carried)",
})


def _exit_delay_shape(exit_body: list[ast.stmt]) -> tuple[str, bool, bool]:
    """the body of `if consistency_is_required and not consistency_is_achieved:` → (is a delay returned besides
    the spawning delays -- as a Lean Bool over WaitAtoms, has it a deadline branch, has it a carried-patch branch).
    Known shapes only: `return list(spawning_delays), False` alone, or `waiting_delays = []`, one if/elif chain
    whose arms are `pass` or `waiting_delays = [<the remaining time> | 0.]`, `return list(spawning_delays) +
    list(waiting_delays), False`."""
    texts = [pyextract.norm(x) for x in exit_body]
    if texts == ["return (list(spawning_delays), False)"]:
        return "false", False, False
    if not (len(exit_body) == 3 and texts[0] == _ns("waiting_delays: Collection[float] = []") and isinstance(exit_body[1], ast.If)
            and texts[2] == _ns("return list(spawning_delays) + list(waiting_delays), False")):
        raise ExtractError("process_resource_causes: the early exit returns neither the spawning delays alone nor the "
                           "spawning delays plus `waiting_delays` decided by one if-chain: " + " ; ".join(texts)[:300])
    remaining = _ns("waiting_delays = [max(0., consistency_time - asyncio.get_running_loop().time())]")
    zero = _ns("waiting_delays = [0.]")
    tr = pyextract.BoolTranslator(WAIT_VOCAB)
    arms: list[tuple[str, str]] = []
    deadline = carried = False
    node: ast.If | None = exit_body[1]
    while node is not None:
        arm = [pyextract.norm(x) for x in node.body]
        test = pyextract.norm(node.test)
        if arm == ["pass"]:
            res = "false"
        elif arm == [remaining] and "consistency_time is not None" in test:
            res, deadline = "true", True
        elif arm == [zero] and test == "not patch_initially_empty":
            res, carried = "true", True
        else:
            raise ExtractError(f"process_resource_causes: unknown arm of the early exit's delay chain: if {test}: {' ; '.join(arm)}"[:300])
        arms.append((tr.tr(node.test), res))
        if not node.orelse:
            node = None
        elif len(node.orelse) == 1 and isinstance(node.orelse[0], ast.If):
            node = node.orelse[0]
        else:
            raise ExtractError("process_resource_causes: the early exit's delay chain ends in an unknown else-branch")
    lean = "false"
    for cond, res in reversed(arms):
        lean = f"(if {cond} then {res} else {lean})"
    return lean, deadline, carried


def code_variant(repo: Any) -> list[bool]:
    """[forgetFulfilled, blindPurge, exitDeadline, exitCarried] of the code under test, read off processing.py the
    same way `extract` does (for the driver's `C15.cycle`; Kopf.Tie.C15 checks the flags against the skeletons)"""
    from pathlib import Path
    ptree = pyextract.parse_file(Path(repo) / "kopf/_core/reactor/processing.py")
    pbody = pyextract.body_without_docstring(pyextract.find_def(ptree, "process_resource_causes"))
    blind = _find_if(pbody, lambda s: "registry._changing.prematch" in pyextract.norm(s.test), "prematch gate")
    exits = [s for s in pbody if isinstance(s, ast.If) and s.body and isinstance(s.body[-1], ast.Return)]
    if len(exits) != 1:
        raise ExtractError("process_resource_causes: the consistency / carried-patch exit changed shape")
    _, deadline, carried = _exit_delay_shape(exits[0].body)
    ebody = pyextract.body_without_docstring(pyextract.find_def(ptree, "process_resource_event"))
    forgets = [x for x in ebody if isinstance(x, ast.If) and "memory.remaining_patch" in pyextract.norm(x.test)]
    return [bool(forgets), [pyextract.norm(s) for s in blind.body] == BLIND_BODY_PURGE, deadline, carried]


def _ns(text: str) -> str:
    """normalise a statement exactly as pyextract.norm() normalises source statements"""
    return ast.unparse(ast.parse(text)).strip()


BLIND_BODY_OLD = ["changing_cause = None"]
BLIND_BODY_PURGE = [_ns(x) for x in (
    "storage = settings.persistence.progress_storage",
    "owned_handlers = registry._changing.get_resource_handlers(resource=resource)",
    "state = progression.State.from_storage(body=body, storage=storage, handlers=owned_handlers)",
    "state.purge(body=body, patch=patch, storage=storage, handlers=owned_handlers)",
    "changing_cause = None")]
GET_RESOURCE_HANDLERS_BODY = [_ns(x) for x in (
    "found_handlers: list[handlers.ChangingHandler] = []",
    "for handler in self._handlers:\n    if _matches_resource(handler, resource):\n        found_handlers.append(handler)",
    "return list(_deduplicated(found_handlers))")]
CHG_VOCAB = _vocab({
    "handler.id not in excluded": "(!a.excluded)",
    "handler.reason is None": "a.reasonNone",
    "handler.reason == cause.reason": "a.reasonEq",
    "handler.initial": "a.hInitial",
    "cause.initial": "a.cInitial",
    "cause.deleted": "a.cDeleted",
    "handler.deleted": "a.hDeleted",
    "handler.field_needs_change": "a.needsChange",       # /repo 17e5c42: only FIELD handlers are skipped on deletion
    "match(handler=handler, cause=cause)": "a.matched",
})


def _opt_vocab(field: str, test: str) -> dict[str, str]:
    return _vocab({f"self.{field} is None": "a.isNone", test: "a.holds"})


_EV = {"EVENTS.check(resource)": "a.events", "EVENTS_K8S.check(resource)": "a.eventsK8s"}
SELECTOR_PARTS = [
    ("selGroupCore", "OptAtoms", _opt_vocab("group", "self.group == resource.group")),
    ("selVersionCore", "VersionAtoms", _vocab({
        "self.version is None": "a.versionNone", "self.version is not None": "(!a.versionNone)",
        "resource.preferred": "a.preferred", "self.fn is not None": "(!a.fnNone)",
        "self.version == resource.version": "a.versionEq"})),
    ("selKindCore", "OptAtoms", _opt_vocab("kind", "self.kind == resource.kind")),
    ("selPluralCore", "OptAtoms", _opt_vocab("plural", "self.plural == resource.plural")),
    ("selSingularCore", "OptAtoms", _opt_vocab("singular", "self.singular == resource.singular")),
    ("selCategoryCore", "OptAtoms", _opt_vocab("category", "self.category in resource.categories")),
    ("selShortcutCore", "OptAtoms", _opt_vocab("shortcut", "self.shortcut in resource.shortcuts")),
    ("selAnyCore", "AnyAtoms", _vocab({
        "self.any_name is None": "a.anyNone", "self.any_name == resource.kind": "a.eqKind",
        "self.any_name == resource.plural": "a.eqPlural", "self.any_name == resource.singular": "a.eqSingular",
        "self.any_name in resource.shortcuts": "a.inShortcuts", "self.any_name is Marker.EVERYTHING": "a.isEverything", **_EV})),
    ("selFnCore", "FnAtoms", _vocab({"self.fn is None": "a.fnNone", "self.fn(resource)": "a.result", **_EV})),
]
SRC = {"cause.new": "Src.new", "cause.old": "Src.old", "cause.body": "Src.body"}


# ---------------------------------------------------------------------------------------------
def _ret(tr: pyextract.BoolTranslator, *, cont: bool = False) -> Callable[[list[ast.stmt]], str | None]:
    """result vocabulary: `return <bool expr>`; inside a loop body also `continue` (= true) and
    nested `if c: … else: …` whose arms are results themselves."""
    def result(stmts: list[ast.stmt]) -> str | None:
        stmts = [s for s in stmts if pyextract.norm(s) != KWARGS_FILL]
        if len(stmts) != 1:
            return None
        st = stmts[0]
        if isinstance(st, ast.Return) and st.value is not None:
            return tr.tr(st.value)
        if cont and isinstance(st, ast.Continue):
            return "true"
        if cont and isinstance(st, ast.If) and st.orelse:
            a, b = result(st.body), result(st.orelse)
            if a is None or b is None:
                return None
            return f"(if {tr.tr(st.test)} then {a} else {b})"
        return None
    return result


def _single_return(fn: ast.FunctionDef, allowed: tuple[str, ...] = ()) -> ast.expr:
    body = [s for s in pyextract.body_without_docstring(fn) if pyextract.norm(s) not in allowed]
    if len(body) != 1 or not isinstance(body[0], ast.Return) or body[0].value is None:
        raise ExtractError(f"{fn.name}: expected a single `return <expr>` (plus {allowed})")
    return body[0].value


def _resolve_assign(st: ast.stmt) -> tuple[str, str] | None:
    """`X = dicts.resolve(cause.<src>, handler.field, absent)` → (X, Src.<src>)"""
    if isinstance(st, ast.Assign) and len(st.targets) == 1 and isinstance(st.targets[0], ast.Name) \
            and isinstance(st.value, ast.Call) and pyextract.norm(st.value.func) == "dicts.resolve" \
            and len(st.value.args) == 3 and not st.value.keywords \
            and pyextract.norm(st.value.args[1]) == "handler.field" and pyextract.norm(st.value.args[2]) == "absent":
        src = pyextract.norm(st.value.args[0])
        if src in SRC:
            return st.targets[0].id, SRC[src]
    return None


CUR_VOCAB = _vocab({
    "cause.old is None": "a.oldIsNone",
    "getattr(handler, 'field_needs_change', False)": "a.needsChange",
})


def _values_block(stmts: list[ast.stmt], fname: str, cond_vocab: dict[str, str] | None = None) -> tuple[str | None, list[str], list[str] | None]:
    """`a = resolve(...)`* ; [`flag = <bool over cond_vocab>`]* ; `values = [a, b]` or
    `values = [a] if <flag | bool over cond_vocab> else [a, b]`
    → (lean condition | None, sources when the condition holds (or the only list), sources otherwise | None).
    Anything else raises (never a default)."""
    env: dict[str, str] = {}
    flags: dict[str, ast.expr] = {}
    if not stmts:
        raise ExtractError(f"{fname}: empty branch where `values = [...]` was expected")
    for st in stmts[:-1]:
        r = _resolve_assign(st)
        if r is not None:
            if r[0] in env or r[0] in flags:
                raise ExtractError(f"{fname}: `{r[0]}` is assigned twice before `values = [...]`")
            env[r[0]] = r[1]
            continue
        if cond_vocab is not None and isinstance(st, ast.Assign) and len(st.targets) == 1 and isinstance(st.targets[0], ast.Name) \
                and st.targets[0].id not in env and st.targets[0].id not in flags and st.targets[0].id != "values":
            pyextract.BoolTranslator(cond_vocab, flags).tr(st.value)      # raises on atoms outside the vocabulary
            flags[st.targets[0].id] = st.value
            continue
        raise ExtractError(f"{fname}: unexpected statement `{pyextract.norm(st)[:100]}` before `values = [...]`")
    last = stmts[-1]

    def srcs(e: ast.expr) -> list[str]:
        if not (isinstance(e, ast.List) and e.elts and all(isinstance(x, ast.Name) and x.id in env for x in e.elts)):
            raise ExtractError(f"{fname}: expected a list of resolved names, got `{pyextract.norm(e)[:100]}`")
        return [env[x.id] for x in e.elts]  # type: ignore[attr-defined]
    if not (isinstance(last, ast.Assign) and len(last.targets) == 1 and pyextract.norm(last.targets[0]) == "values"):
        raise ExtractError(f"{fname}: expected `values = ...` last, got `{pyextract.norm(last)[:100]}`")
    if isinstance(last.value, ast.IfExp):
        if cond_vocab is None:
            raise ExtractError(f"{fname}: a conditional `values` where a plain list was expected: `{pyextract.norm(last)[:100]}`")
        tr = pyextract.BoolTranslator(cond_vocab, flags)
        cond = tr.tr(last.value.test)
        return cond, srcs(last.value.body), srcs(last.value.orelse)
    if flags:
        raise ExtractError(f"{fname}: {sorted(flags)} computed but `values` does not depend on it: `{pyextract.norm(last)[:100]}`")
    return None, srcs(last.value), None


def _loop_any(fn: ast.FunctionDef, tr: pyextract.BoolTranslator) -> str:
    """`for handler in self._handlers: if c1: [if c2:] return True` ; `return False`  → c1 && c2"""
    body = pyextract.body_without_docstring(fn)
    if len(body) != 2 or not isinstance(body[0], ast.For) or pyextract.norm(body[0].iter) != "self._handlers" \
            or pyextract.norm(body[0].target) != "handler" or pyextract.norm(body[1]) != "return False" or body[0].orelse:
        raise ExtractError(f"{fn.name}: expected `for handler in self._handlers: …; return False`")
    return _nested_ifs(body[0].body, tr, "return True", fn.name)


def _loop_yield(fn: ast.FunctionDef, tr: pyextract.BoolTranslator) -> str:
    body = pyextract.body_without_docstring(fn)
    if len(body) != 1 or not isinstance(body[0], ast.For) or pyextract.norm(body[0].iter) != "self._handlers" \
            or pyextract.norm(body[0].target) != "handler" or body[0].orelse:
        raise ExtractError(f"{fn.name}: expected a single `for handler in self._handlers` loop")
    return _nested_ifs(body[0].body, tr, "yield handler", fn.name)


def _nested_ifs(stmts: list[ast.stmt], tr: pyextract.BoolTranslator, leaf: str, fname: str) -> str:
    conds = []
    while True:
        if len(stmts) != 1:
            raise ExtractError(f"{fname}: expected exactly one statement per nesting level")
        st = stmts[0]
        if isinstance(st, ast.If) and not st.orelse:
            conds.append(tr.tr(st.test))
            stmts = st.body
            continue
        if pyextract.norm(st) == leaf:
            break
        raise ExtractError(f"{fname}: unexpected `{pyextract.norm(st)[:100]}` (wanted `{leaf}`)")
    if not conds:
        raise ExtractError(f"{fname}: unconditional `{leaf}`")
    out = conds[-1]
    for c in reversed(conds[:-1]):
        out = f"({c} && {out})"
    return out


def _find_if(stmts: list[ast.stmt], pred: Callable[[ast.If], bool], what: str) -> ast.If:
    hits = [s for s in stmts if isinstance(s, ast.If) and pred(s)]
    if len(hits) != 1:
        raise ExtractError(f"process_resource_causes: expected exactly one `{what}` block, found {len(hits)}")
    return hits[0]


def _appends(st: ast.If, fn_name: str) -> bool:
    return any(isinstance(n, ast.Call) and pyextract.norm(n.func) == "patch.fns.append" and fn_name in pyextract.norm(n)
               for n in ast.walk(st))


# ---------------------------------------------------------------------------------------------
def extract(ctx: Ctx) -> None:
    rtree = pyextract.parse_file(ctx.repo / "kopf/_core/intents/registries.py")
    out: list[str] = [pyextract.HEADER.format(src="kopf/_core/intents/registries.py, kopf/_core/reactor/processing.py"),
                      "import Kopf.Model.C15_Match\nimport Kopf.Model.C15_Selector\nnamespace Kopf.C15.Extracted\nopen Kopf.C15\n"]

    def emit(name: str, atoms: str, body: str, ret: str = "Bool") -> None:
        out.append(f"def {name} (a : {atoms}) : {ret} :=\n  {body}\n")

    # match / prematch
    for fname, lname in (("match", "matchCore"), ("prematch", "prematchCore")):
        fn = pyextract.find_def(rtree, fname)
        e = _single_return(fn, allowed=("kwargs: dict[str, Any] = {}",))
        emit(lname, "MatchAtoms", pyextract.BoolTranslator(MATCH_VOCAB).tr(e))

    # _matches_resource
    emit("resCore", "ResAtoms", pyextract.BoolTranslator(RES_VOCAB).tr(_single_return(pyextract.find_def(rtree, "_matches_resource"))))

    # _matches_subresource, _matches_filter_callback: guard chains
    for fname, lname, atoms, vocab in (("_matches_subresource", "subCore", "SubAtoms", SUB_VOCAB),
                                       ("_matches_filter_callback", "whenCore", "WhenAtoms", WHEN_VOCAB)):
        tr = pyextract.BoolTranslator(vocab)
        chain = pyextract.if_chain(pyextract.body_without_docstring(pyextract.find_def(rtree, fname)), tr, _ret(tr), {KWARGS_FILL})
        emit(lname, atoms, pyextract.chain_to_lean(chain))

    # _matches_labels / _matches_annotations
    for which, lname in (("labels", "labelsCore"), ("annotations", "annotationsCore")):
        e = _single_return(pyextract.find_def(rtree, f"_matches_{which}"))
        emit(lname, "GuardAtoms", pyextract.BoolTranslator(_guard_vocab(which)).tr(e))

    # _matches_metadata: for key, value in pattern.items(): <chain>; return True
    fn = pyextract.find_def(rtree, "_matches_metadata")
    body = pyextract.body_without_docstring(fn)
    if len(body) != 2 or not isinstance(body[0], ast.For) or pyextract.norm(body[0].target) != "(key, value)" \
            or pyextract.norm(body[0].iter) != "pattern.items()" or body[0].orelse or pyextract.norm(body[1]) != "return True":
        raise ExtractError("_matches_metadata: expected `for key, value in pattern.items(): …; return True`")
    tr = pyextract.BoolTranslator(META_VOCAB)
    chain = pyextract.if_chain(body[0].body, tr, _ret(tr, cont=True), {KWARGS_FILL})
    if not chain or chain[-1][0] is not None:
        raise ExtractError("_matches_metadata: the loop body is not a closed if/elif/else chain")
    emit("metaStep", "MetaAtoms", pyextract.chain_to_lean(chain))

    # _matches_field_values
    fn = pyextract.find_def(rtree, "_matches_field_values")
    body = pyextract.body_without_docstring(fn)
    tr = pyextract.BoolTranslator(FV_VOCAB)
    split = [i for i, s in enumerate(body) if isinstance(s, ast.If) and pyextract.norm(s.test) == "isinstance(cause, causes.ChangingCause)"]
    if len(split) != 1:
        raise ExtractError("_matches_field_values: the `isinstance(cause, causes.ChangingCause)` split is gone")
    vif = body[split[0]]
    assert isinstance(vif, ast.If)
    c_cond, c_then, c_else = _values_block(vif.body, "_matches_field_values", CUR_VOCAB)
    if not vif.orelse:
        raise ExtractError("_matches_field_values: no else-branch for non-changing causes")
    _, v_other, _ = _values_block(vif.orelse, "_matches_field_values")
    rest = body[:split[0]] + body[split[0] + 1:]
    chain = pyextract.if_chain(rest, tr, _ret(tr), {KWARGS_FILL})
    if tr.locals.keys() - {"absent"} or pyextract.norm(tr.locals.get("absent", ast.Constant(0))) != "_UNSET.token":
        raise ExtractError("_matches_field_values: unexpected local assignments")
    emit("fvCore", "FVAtoms", pyextract.chain_to_lean(chain))
    if c_cond is not None:
        # /repo bd6cd41: `current_only = cause.old is None and not getattr(handler, 'field_needs_change', False)`,
        # `values = [new] if current_only else [new, old]`
        emit("currentOnlyCore", "CurAtoms", c_cond)
        out.append(f"def valuesChanging (currentOnly : Bool) : List Src :=\n  if currentOnly then [{', '.join(c_then)}] else [{', '.join(c_else or [])}]\n")
    else:
        # an unconditional list: emitted as it is (no `currentOnlyCore`: the tie theorems about it then fail)
        out.append(f"def valuesChanging (_currentOnly : Bool) : List Src := [{', '.join(c_then)}]\n")
    out.append(f"def valuesOther : List Src := [{', '.join(v_other)}]\n")

    # _matches_field_changes
    fn = pyextract.find_def(rtree, "_matches_field_changes")
    body = pyextract.body_without_docstring(fn)
    srcs: dict[str, str] = {}
    rest = []
    for st in body:
        r = _resolve_assign(st)
        if r is not None:
            srcs[r[0]] = r[1]
        else:
            rest.append(st)
    if set(srcs) != {"old", "new"}:
        raise ExtractError("_matches_field_changes: expected exactly `old`/`new` resolved from the cause")
    # "the field actually changed": the local `changed` (/repo 8d1358b), translated on its own
    chg = [st for st in rest if isinstance(st, ast.Assign) and len(st.targets) == 1 and pyextract.norm(st.targets[0]) == "changed"]
    if len(chg) != 1:
        raise ExtractError("_matches_field_changes: expected exactly one assignment of `changed` (how 'the field actually changed' is decided)")
    rest = [st for st in rest if st is not chg[0]]
    emit("changedCore", "ChangedAtoms", pyextract.BoolTranslator(CHANGED_VOCAB).tr(chg[0].value))
    if not rest or not isinstance(rest[-1], ast.Return) or not isinstance(rest[-1].value, ast.BoolOp) \
            or not isinstance(rest[-1].value.op, ast.And) or len(rest[-1].value.values) != 3:
        raise ExtractError("_matches_field_changes: the result is no longer a conjunction of three parts")
    parts = rest[-1].value.values
    emit("changeCore", "ChangeAtoms", pyextract.BoolTranslator(CHANGE_VOCAB).tr(parts[0]))
    emit("oldCore", "SideAtoms", pyextract.BoolTranslator(_side_vocab("old")).tr(parts[1]))
    emit("newCore", "SideAtoms", pyextract.BoolTranslator(_side_vocab("new")).tr(parts[2]))
    out.append(f"def oldSrc : Src := {srcs['old']}\ndef newSrc : Src := {srcs['new']}\n")
    tr = pyextract.BoolTranslator(FC_GUARD_VOCAB)
    guards = pyextract.if_chain(rest[:-1], tr, _ret(tr), {KWARGS_FILL})
    if any(c is None for c, _ in guards) or tr.locals.keys() - {"absent"}:
        raise ExtractError("_matches_field_changes: unexpected statements before the result")
    emit("fcCore", "FCAtoms", pyextract.chain_to_lean(guards + [(None, "(a.changeOk && a.oldOk && a.newOk)")]))

    # per-handler tests of the registries' loops
    for cls in ("IndexingRegistry", "WatchingRegistry", "SpawningRegistry"):
        emit(f"sel{cls.removesuffix('Registry')}", "SelAtoms",
             _loop_yield(pyextract.find_def(rtree, f"{cls}.iter_handlers"), pyextract.BoolTranslator(SEL_VOCAB)))
    emit("reqFinSpawningCore", "SelAtoms", _loop_any(pyextract.find_def(rtree, "SpawningRegistry.requires_finalizer"), pyextract.BoolTranslator(SEL_VOCAB)))
    emit("reqFinChangingCore", "SelAtoms", _loop_any(pyextract.find_def(rtree, "ChangingRegistry.requires_finalizer"), pyextract.BoolTranslator(SEL_VOCAB)))
    emit("prematchAnyCore", "SelAtoms", _loop_any(pyextract.find_def(rtree, "ChangingRegistry.prematch"), pyextract.BoolTranslator(SEL_VOCAB)))

    # get_handlers = list(_deduplicated(self.iter_handlers(...)))
    gh = pyextract.find_def(rtree, "ResourceRegistry.get_handlers")
    if pyextract.norm(_single_return(gh)) != "list(_deduplicated(self.iter_handlers(cause=cause, excluded=excluded)))":
        raise ExtractError("ResourceRegistry.get_handlers is no longer list(_deduplicated(self.iter_handlers(...)))")
    # the key of _deduplicated (the loop itself is tied differentially only)
    dd = pyextract.find_def(rtree, "_deduplicated")
    keys = [s for s in ast.walk(dd) if isinstance(s, ast.Assign) and pyextract.norm(s.targets[0]) == "key"]
    if len(keys) != 1 or not isinstance(keys[0].value, ast.Tuple):
        raise ExtractError("_deduplicated: the `key = (...)` assignment is gone")
    # the function's identity (/repo c47dbbf): `fn = handler.fn`, bound methods by instance & function
    aux = {pyextract.norm(x.targets[0]): pyextract.norm(x.value) for x in ast.walk(dd)
           if isinstance(x, ast.Assign) and pyextract.norm(x.targets[0]) in ("fn", "fn_key")}
    if aux != {"fn": "handler.fn",
               "fn_key": "(id(fn.__self__), id(fn.__func__)) if isinstance(fn, MethodType) else id(fn)"}:
        raise ExtractError(f"_deduplicated: the function identity is no longer (self, func) for methods / id(fn) otherwise: {aux}")
    fields = []
    for e in keys[0].value.elts:
        t = pyextract.norm(e)
        if t == "fn_key":
            fields.append("func")
        elif t == "handler.id":
            fields.append("id")
        else:
            raise ExtractError(f"_deduplicated: unknown key component `{t}`")
    out.append(f"def dedupKeyFields : List String := [{', '.join(pyextract.lean_str(f) for f in fields)}]\n")

    # processing.process_resource_causes: blind gate + finalizer decision + release
    ptree = pyextract.parse_file(ctx.repo / "kopf/_core/reactor/processing.py")
    prc = pyextract.find_def(ptree, "process_resource_causes")
    pbody = pyextract.body_without_docstring(prc)
    blind = _find_if(pbody, lambda s: "registry._changing.prematch" in pyextract.norm(s.test), "prematch gate")
    blind_body = [pyextract.norm(s) for s in blind.body]
    if blind.orelse or blind_body not in (BLIND_BODY_OLD, BLIND_BODY_PURGE):
        raise ExtractError("process_resource_causes: the prematch gate neither just drops the changing cause nor purges the "
                           "owned handlers' progress records before dropping it: " + " ; ".join(blind_body)[:300])
    emit("blindCore", "BlindAtoms", pyextract.BoolTranslator(BLIND_VOCAB).tr(blind.test))
    # /repo 423b86f made the blind branch purge the progress records of get_resource_handlers(resource); /repo ad4ec08
    # reverted that (finding C15-F9). Both bodies are known shapes (never a default): the code as it is gives `false`;
    # a tree with the purge gives `true`, and the tie theorems blind_purge_eq / repairs_known fail
    out.append(f"def blindPurges : Bool := {'true' if blind_body == BLIND_BODY_PURGE else 'false'}\n")
    grh = pyextract.find_def(rtree, "ChangingRegistry.get_resource_handlers")
    if [pyextract.norm(s) for s in pyextract.body_without_docstring(grh)] != GET_RESOURCE_HANDLERS_BODY:
        raise ExtractError("ChangingRegistry.get_resource_handlers is no longer `the handlers whose selector matches the resource, deduplicated`")
    locals_: dict[str, ast.expr] = {}
    for st in pbody:
        if isinstance(st, ast.Assign) and len(st.targets) == 1 and isinstance(st.targets[0], ast.Name) \
                and st.targets[0].id in ("deletion_is_ongoing", "deletion_is_blocked", "deletion_must_be_blocked", "delays", "deleted"):
            if st.targets[0].id in locals_:
                raise ExtractError(f"process_resource_causes: `{st.targets[0].id}` is assigned twice")
            locals_[st.targets[0].id] = st.value
    if set(locals_) != {"deletion_is_ongoing", "deletion_is_blocked", "deletion_must_be_blocked", "delays", "deleted"}:
        raise ExtractError("process_resource_causes: the deletion_* locals changed")
    # the prematch gate must come before the finalizer decision reads `changing_cause`
    order = [i for i, s in enumerate(pbody) if s is blind] + [i for i, s in enumerate(pbody) if isinstance(s, ast.Assign) and pyextract.norm(s.targets[0]) == "deletion_must_be_blocked"]
    if order != sorted(order):
        raise ExtractError("process_resource_causes: the prematch gate moved after the finalizer decision")
    emit("mustBlockCore", "FinAtoms", pyextract.BoolTranslator(FIN_VOCAB, locals_).tr(locals_["deletion_must_be_blocked"]))
    add = _find_if(pbody, lambda s: _appends(s, "finalizers.block_deletion"), "block_deletion")
    emit("addingCore", "FinAtoms", pyextract.BoolTranslator(FIN_VOCAB, locals_).tr(add.test))
    rem = [s for s in pbody if isinstance(s, ast.If) and _appends(s, "finalizers.allow_deletion")]
    if len(rem) != 2:
        raise ExtractError("process_resource_causes: expected two allow_deletion sites (no-longer-needed, release)")
    emit("removingCore", "FinAtoms", pyextract.BoolTranslator(FIN_VOCAB, locals_).tr(rem[0].test))
    emit("releaseCore", "ReleaseAtoms", pyextract.BoolTranslator(RELEASE_VOCAB, locals_).tr(rem[1].test))
    for st in (add, rem[0]):
        if "changing_cause = None" not in [pyextract.norm(s) for s in st.body]:
            raise ExtractError("process_resource_causes: a finalizer change no longer suppresses the high-level handling")
    # the carried patch: `patch_initially_empty = not patch` first, later folded into the consistency
    if pyextract.norm(pbody[0]) != "patch_initially_empty = not patch":
        raise ExtractError("process_resource_causes: `patch_initially_empty = not patch` is no longer the first statement")
    folds = [s for s in pbody if isinstance(s, ast.Assign) and pyextract.norm(s.targets[0]) == "consistency_is_achieved"
             and "patch_initially_empty" in pyextract.norm(s.value)]
    req = [s for s in pbody if isinstance(s, ast.Assign) and pyextract.norm(s.targets[0]) == "consistency_is_required"]
    exits = [s for s in pbody if isinstance(s, ast.If) and s.body and isinstance(s.body[-1], ast.Return)]
    if len(folds) != 1 or len(req) != 1 or len(exits) != 1 or pyextract.norm(req[0].value) != "changing_cause is not None" \
            or exits[0].orelse:
        raise ExtractError("process_resource_causes: the consistency / carried-patch exit changed shape")
    # what the early exit returns: the spawning delays alone (before /repo 30557a0), or also a delay decided by an
    # if/elif chain over {paused, deadline, carried patch} (30557a0; the rework of 608a57d adds the carried branch)
    wait_lean, has_deadline, has_carried = _exit_delay_shape(exits[0].body)
    emit("waitingExitCore", "WaitAtoms", wait_lean)
    pos = {id(s): i for i, s in enumerate(pbody)}
    pcc_call = [i for i, s in enumerate(pbody) if isinstance(s, ast.If) and any(
        isinstance(n, ast.Call) and pyextract.norm(n.func) == "process_changing_cause" for n in ast.walk(s))]
    if not (pos[id(req[0])] < pos[id(folds[0])] < pos[id(exits[0])] and len(pcc_call) == 1 and pos[id(exits[0])] < pcc_call[0]
            and pos[id(exits[0])] < pos[id(rem[1])] and pos[id(rem[0])] < pos[id(req[0])]):
        raise ExtractError("process_resource_causes: the early exit no longer sits between the finalizer decision and the handling/release")
    fold = pyextract.BoolTranslator(_vocab({"consistency_is_achieved": "a.achievedBefore", "patch_initially_empty": "(!a.carried)"})).tr(folds[0].value)
    emit("earlyExitCore", "ExitAtoms", pyextract.BoolTranslator(_vocab({"consistency_is_required": "a.required"}) | {"consistency_is_achieved": fold}).tr(exits[0].test))
    # nothing else may append to patch.fns in this function
    n_app = sum(1 for n in ast.walk(prc) if isinstance(n, ast.Call) and pyextract.norm(n.func) == "patch.fns.append")
    if n_app != 3:
        raise ExtractError(f"process_resource_causes: {n_app} patch.fns.append sites (expected 3)")

    # processing.process_resource_event: the carried patch, and (/repo 608a57d) forgetting it when it is fulfilled
    pre = pyextract.find_def(ptree, "process_resource_event")
    ebody = pyextract.body_without_docstring(pre)
    start = [i for i, x in enumerate(ebody) if pyextract.norm(x) == "patch = patches.Patch(memory.remaining_patch, body=body)"]
    if len(start) != 1:
        raise ExtractError("process_resource_event: the cycle's patch no longer starts as Patch(memory.remaining_patch, body=body)")
    forgets = [x for x in ebody if isinstance(x, ast.If) and "memory.remaining_patch" in pyextract.norm(x.test)]
    if not forgets:
        emit("forgetCarriedCore", "ForgetAtoms", "false")
    elif (len(forgets) == 1 and ebody.index(forgets[0]) == start[0] + 1 and not forgets[0].orelse
          and [pyextract.norm(x) for x in forgets[0].body] == ["memory.remaining_patch = None", "patch = patches.Patch(body=body)"]):
        emit("forgetCarriedCore", "ForgetAtoms", pyextract.BoolTranslator(FORGET_VOCAB).tr(forgets[0].test))
    else:
        raise ExtractError("process_resource_event: memory.remaining_patch is tested in an unknown way before the cycle")
    if sum(1 for n in ast.walk(pre) if isinstance(n, ast.Assign) and pyextract.norm(n.targets[0]) == "memory.remaining_patch") \
            != (2 if forgets else 1):
        raise ExtractError("process_resource_event: memory.remaining_patch is assigned at unexpected places")
    # the variant of processing.py that was recognised (each flag is re-derived by the tie theorems from the
    # translated skeletons: forget_eq, blind_purge_eq, waiting_eq; repairs_known: a variant the theorems cover)
    flags = [bool(forgets), blind_body == BLIND_BODY_PURGE, has_deadline, has_carried]
    out.append("def repairs : Repairs := ⟨" + ", ".join("true" if f else "false" for f in flags) + "⟩\n")

    # ChangingRegistry.iter_handlers: excluded → reason → skip chain → match (incl. /repo 345a874, 17e5c42)
    it = pyextract.find_def(rtree, "ChangingRegistry.iter_handlers")
    ibody = pyextract.body_without_docstring(it)
    if len(ibody) != 1 or not isinstance(ibody[0], ast.For) or pyextract.norm(ibody[0].iter) != "self._handlers" \
            or pyextract.norm(ibody[0].target) != "handler" or ibody[0].orelse:
        raise ExtractError("ChangingRegistry.iter_handlers is no longer a single loop over self._handlers")
    ctr = pyextract.BoolTranslator(CHG_VOCAB)
    conds, level = [], ibody[0].body
    for _ in range(2):
        if len(level) != 1 or not isinstance(level[0], ast.If) or level[0].orelse:
            raise ExtractError("ChangingRegistry.iter_handlers: expected the excluded / reason guards")
        conds.append(ctr.tr(level[0].test))
        level = level[0].body

    def _chg_result(stmts: list[ast.stmt]) -> str | None:
        t = [pyextract.norm(x) for x in stmts]
        return "false" if t == ["pass"] else ("true" if t == ["yield handler"] else None)
    chain = pyextract.if_chain(level, ctr, _chg_result, ())
    emit("selChangingCore", "ChgAtoms", f"({conds[0]} && ({conds[1]} &&\n    ({pyextract.chain_to_lean(chain, default='false')})))")

    # processing.process_changing_cause: the resumed-handlers filter on cause_handlers (/repo 6c4463d)
    ptree0 = pyextract.parse_file(ctx.repo / "kopf/_core/reactor/processing.py")
    pcc = pyextract.find_def(ptree0, "process_changing_cause")
    assigns = [n for n in ast.walk(pcc) if isinstance(n, ast.Assign) and pyextract.norm(n.targets[0]) == "cause_handlers"]
    if len(assigns) != 2 or pyextract.norm(assigns[0].value) != "resource_registry.get_handlers(cause=cause)":
        raise ExtractError("process_changing_cause: cause_handlers is no longer get_handlers(cause) followed by one filter")
    comp = assigns[1].value
    if not (isinstance(comp, ast.ListComp) and pyextract.norm(comp.elt) == "handler" and len(comp.generators) == 1
            and pyextract.norm(comp.generators[0].iter) == "cause_handlers" and len(comp.generators[0].ifs) == 1):
        raise ExtractError("process_changing_cause: the filter on cause_handlers changed shape")
    emit("resumedKeepCore", "ResumedAtoms", pyextract.BoolTranslator(_vocab({
        "handler.initial": "a.initial", "handler.id in memory.resumed_handlers": "a.inResumed"})).tr(comp.generators[0].ifs[0]))

    # application.apply: the sleep-and-touch decision after the patch was sent
    atree = pyextract.parse_file(ctx.repo / "kopf/_core/actions/application.py")
    ap = pyextract.find_def(atree, "apply")
    abody = pyextract.body_without_docstring(ap)
    if pyextract.norm(abody[0]) != "delay = min(delays) if delays else None":
        raise ExtractError("application.apply: `delay = min(delays) if delays else None` is no longer the first statement")
    top = [x for x in abody if isinstance(x, ast.If) and pyextract.norm(x.test) == "delay and changed"]
    if len(top) != 1 or len(top[0].orelse) != 1 or not isinstance(top[0].orelse[0], ast.If) \
            or pyextract.norm(top[0].orelse[0].test) != "delay is not None":
        raise ExtractError("application.apply: the `delay and changed` / `delay is not None` decision changed shape")
    if any(isinstance(n, ast.Call) and pyextract.norm(n.func) == "patch_and_check" for n in ast.walk(top[0].body[0])) or len(top[0].body) != 1:
        raise ExtractError("application.apply: the skipped-sleep branch does something")
    inner = top[0].orelse[0]
    last = inner.body[-1]
    if not (isinstance(last, ast.If) and pyextract.norm(last.test) == "changed and (not delay)" and [pyextract.norm(x) for x in last.body] == ["pass"]
            and len(last.orelse) == 1 and isinstance(last.orelse[0], ast.If)
            and pyextract.norm(last.orelse[0].test) == "unslept_delay is not None"):
        raise ExtractError("application.apply: the touch decision after the sleep changed shape")
    touch_block, intr_block = last.orelse[0].orelse, last.orelse[0].body

    def _writes(stmts: list[ast.stmt]) -> int:
        return sum(1 for st in stmts for n in ast.walk(st) if isinstance(n, ast.Call) and pyextract.norm(n.func) in
                   ("patch_and_check", "settings.persistence.progress_storage.touch"))
    if _writes(touch_block) != 2 or _writes(intr_block) != 0 or _writes(inner.body[:-1]) != 0:
        raise ExtractError("application.apply: the touch is no longer written exactly in the final else-branch")
    rest_else = inner.orelse
    if _writes(rest_else) != 0:
        raise ExtractError("application.apply: the no-delay branch writes")
    emit("applyTouchCore", "ApplyAtoms",
         "if (a.delayTruthy && a.changed) then false else\n    if a.delayNotNone then "
         "(if (a.changed && (!a.delayTruthy)) then false else if a.interrupted then false else true) else\n    false")
    ch = [x for x in abody if isinstance(x, ast.Assign) and pyextract.norm(x.targets[0]) == "changed"]
    unk = [x for x in abody if isinstance(x, ast.Assign) and pyextract.norm(x.targets[0]) == "unknown"]
    if len(ch) != 1 or len(unk) != 1 or pyextract.norm(unk[0].value) != "resource_version is None and remaining_patch is not None" \
            or pyextract.norm(ch[0].value) != "bool(patch) and (unknown or (resource_version is not None and resource_version != seen_version))":
        raise ExtractError("application.apply: `changed` is no longer `bool(patch) and (rejected, or the version moved)` (/repo b7bf39c)")

    # references.Selector.check: a conjunction of nine parts, each over its own atoms
    ftree = pyextract.parse_file(ctx.repo / "kopf/_cogs/structs/references.py")
    chk = _single_return(pyextract.find_def(ftree, "Selector.check"))
    if not isinstance(chk, ast.BoolOp) or not isinstance(chk.op, ast.And) or len(chk.values) != len(SELECTOR_PARTS):
        raise ExtractError("Selector.check is no longer a conjunction of nine parts")
    for (lname, atoms, vocab), part in zip(SELECTOR_PARTS, chk.values):
        emit(lname, atoms, pyextract.BoolTranslator(vocab).tr(part))
    emit("selCheckCore", "CheckAtoms", "(a.group && a.version && a.kind && a.plural && a.singular && a.category && a.shortcut && a.anyName && a.fn)")
    for cname, want in (("EVENTS", "Selector('v1', 'events')"), ("EVENTS_K8S", "Selector('events.k8s.io', 'events')")):
        if pyextract.norm(pyextract.module_constant(ftree, cname)) != want:
            raise ExtractError(f"references.{cname} is no longer {want}")
    out.append("end Kopf.C15.Extracted\n")
    leanio.write_generated("Kopf/Extracted/C15.lean", "\n".join(out))

# =============================================================================================
# Alphabet, encodings (the same JSON goes to the Lean driver; keys starting with "_" are Python-only)
# =============================================================================================
PLURAL = "kopfexamples"
FIELD = ["spec", "f"]
LK, AK = "lk", "ak"
VALS = [None, "x", "y"]                    # None = absent
NOOLD = "NOOLD"                            # cause.old is None (creation)
CRITS = [None, {"v": "x"}, {"v": "y"}, "P", "A", {"cb": "is_x"}]
EXT_VCRITS = CRITS + [{"cb": "is_none"}, {"cb": "not_none"}, {"cb": "truthy"}, "T"]
EXT_MCRITS = CRITS[1:] + [{"cb": "is_none"}, {"cb": "not_none"}, {"cb": "nonempty"}, {"cb": "true"}, {"cb": "false"}, {"v": ""}]
FALSY: list = ["", 0, False, [], {}]         # falsy but present values / meaningful criteria
FCRITS = [None, {"v": "x"}, "P", "A", {"cb": "is_x"}, {"cb": "truthy"}] + [{"v": f} for f in FALSY]
MCRITS_E = CRITS + [{"v": ""}]
LEAN_H = ("fn", "func", "id", "ch", "sel", "sub", "l", "a", "w", "f", "v", "o", "n", "fnc", "rf", "r", "i", "d")
LEAN_C = ("ch", "l", "a", "b", "o", "n", "r", "i", "m")

META_CBS: dict[str, Callable[..., bool]] = {
    "is_x": lambda v, **_: v == "x",
    "is_y": lambda v, **_: v == "y",
    "is_none": lambda v, **_: v is None,
    "not_none": lambda v, **_: v is not None,
    "nonempty": lambda v, **_: bool(v),
    "true": lambda v, **_: True,
    "false": lambda v, **_: False,
}
FIELD_CBS: dict[str, Callable[..., bool]] = {
    "is_x": lambda v, **_: v == "x",
    "is_y": lambda v, **_: v == "y",
    "is_none": lambda v, **_: v is None,
    "not_none": lambda v, **_: v is not None,
    "truthy": lambda v, **_: bool(v),
    "true": lambda v, **_: True,
    "false": lambda v, **_: False,
}


def cause_kwargs(kw: dict) -> None:
    """what kopf hands to a filter callback besides the value: the kwargs of the CAUSE at hand (docs/kwargs.rst: body,
    meta, spec, status, labels, annotations, patch, logger, memo, ... of one and the same object). The callbacks of
    this harness insist on them -- a callback called with none, or with another object's, raises (a raise inside
    match() is an oracle failure: the declared criterion could not even be asked)."""
    body = kw["body"]
    for k in ("meta", "spec", "status", "patch", "logger", "memo", "resource", "name", "namespace", "uid"):
        kw[k]
    md = body.get("metadata", {})
    if dict(kw["labels"]) != dict(md.get("labels", {})) or dict(kw["annotations"]) != dict(md.get("annotations", {})):
        raise RuntimeError("the callback's labels/annotations kwargs are not those of the body it is given")


def _kw(fn: Callable[[Any], bool]) -> Callable[..., bool]:
    """the callback kopf gets: the pure verdict on the value (what the oracle asks), after checking the kwargs"""
    def cb(v: Any, **kw: Any) -> bool:
        cause_kwargs(kw)
        return fn(v)
    return cb


def when_true(**kw: Any) -> bool:
    cause_kwargs(kw)
    return True


def when_false(**kw: Any) -> bool:
    cause_kwargs(kw)
    return False


META_CBS_KW = {k: _kw(f) for k, f in META_CBS.items()}       # (one object per name: what is registered with kopf)
FIELD_CBS_KW = {k: _kw(f) for k, f in FIELD_CBS.items()}


def hspec(cls: str = "changing", *, fn: int = 0, id: str = "h", sel: str | None = PLURAL, l: Any = None, a: Any = None,
          w: Any = None, f: Any = None, v: Any = None, o: Any = None, n: Any = None, fnc: Any = None, rf: Any = None,
          r: str | None = None, i: Any = None, d: Any = None, func: int | None = None, bound: int | None = None) -> dict:
    """A handler declaration. `sel`: what the harness itself knows about the selector (None = no
    selector, a name = matches iff it is the resource's plural). `fn`: which object is registered,
    `func`: which function it is (differs from `fn` only for `bound`: method k of one instance,
    accessed anew -- a fresh bound-method object -- for every registration)."""
    return {"_cls": cls, "fn": fn, "func": fn if func is None else func, "_bound": bound, "id": id, "ch": cls == "changing", "_sel": sel,
            "sel": None if sel is None else doc_selector(sel_decl(sel), ENV_RESOURCE), "sub": True, "l": l, "a": a, "w": w, "f": f,
            "v": v, "o": o, "n": n, "_fnc": fnc, "fnc": bool(fnc), "_rf": rf, "rf": bool(rf), "r": r,
            "_i": i, "i": bool(i), "_d": d, "d": bool(d)}


def state(cls: str = "changing", *, labels: dict | None = None, annotations: dict | None = None, body_extra: dict | None = None,
          old: Any = None, new: Any = None, reason: str = "update", initial: bool = False, marked: bool = False,
          finalizers: list | None = None, meta_shape: str = "full") -> dict:
    """An object/cause state. For changing causes the body carries `new`'s content."""
    meta: dict[str, Any] = {"name": "obj", "namespace": "ns", "uid": "u1"}
    if labels or meta_shape == "full":
        meta["labels"] = dict(labels or {})
    if annotations or meta_shape == "full":
        meta["annotations"] = dict(annotations or {})
    if marked:
        meta["deletionTimestamp"] = "2020-01-01T00:00:00Z"
    if finalizers:
        meta["finalizers"] = list(finalizers)
    body: dict[str, Any] = {"apiVersion": "kopf.dev/v1", "kind": "KopfExample", "metadata": meta}
    if meta_shape == "nometa" and not labels and not annotations and not marked and not finalizers:
        del body["metadata"]
    body.update(body_extra or {})
    return {"_cls": cls, "ch": cls == "changing", "l": dict(labels or {}), "a": dict(annotations or {}), "b": body,
            "o": old, "n": new, "r": reason, "i": initial, "m": marked}


ENV_RESOURCE = dict(group="kopf.dev", version="v1", plural=PLURAL, kind="KopfExample", singular="kopfexample",
                    shortcuts=["kex"], categories=["all"], preferred=True)     # = Env.resource


def sel_decl(sel: Any) -> dict:
    """a handler's selector as a notation of docs/resources.rst: a bare name, or {"args": [...], "kw": {...}}"""
    return sel if isinstance(sel, dict) else {"args": [sel], "kw": {}}


SEL_CHOICES: list = [PLURAL] * 8 + ["kex", "KopfExample", "kopfexample", "others",
                                    {"args": ["kopf.dev", "v1", PLURAL], "kw": {}}, {"args": ["kopf.dev/v1", "kex"], "kw": {}},
                                    {"args": ["kopf.dev", PLURAL], "kw": {}}, {"args": ["kopfexamples.kopf.dev"], "kw": {}},
                                    {"args": ["zalando.org", PLURAL], "kw": {}}, {"args": ["kopf.dev/v2", PLURAL], "kw": {}},
                                    {"args": [], "kw": {"kind": "KopfExample"}}, {"args": [], "kw": {"group": "kopf.dev", "shortcut": "kex"}},
                                    {"args": [], "kw": {"category": "all"}}, {"args": [], "kw": {"category": "none"}},
                                    {"args": ["*EVERYTHING*"], "kw": {}}, {"args": ["apps", "*EVERYTHING*"], "kw": {}},
                                    {"args": [{"fn": "kex_preferred"}], "kw": {}}, {"args": [{"fn": "false"}], "kw": {}}]


def lean_h(h: dict) -> dict:
    return {k: (h.get("func", h["fn"]) if k == "func" else h[k]) for k in LEAN_H}   # (older corpus files have no `func`)


def lean_c(c: dict) -> dict:
    return {k: c[k] for k in LEAN_C}


def spec_of(v: Any) -> dict:
    return {} if v is None else {"f": v}


def std_changing_states() -> list[dict]:
    out = []
    for lv, av, ov, nv in itertools.product(VALS, VALS, VALS + [NOOLD], VALS):
        old = None if ov == NOOLD else {"spec": spec_of(ov)}
        new = {"spec": spec_of(nv)}
        same = ov != NOOLD and ov == nv
        out.append(state("changing", labels={} if lv is None else {LK: lv}, annotations={} if av is None else {AK: av},
                         body_extra={"spec": spec_of(nv)}, old=old, new=new,
                         reason="create" if ov == NOOLD else ("noop" if same else "update")))
    return out


def std_watching_states(cls: str = "watching") -> list[dict]:
    return [state(cls, labels={} if lv is None else {LK: lv}, annotations={} if av is None else {AK: av},
                  body_extra={"spec": spec_of(bv)}) for lv, av, bv in itertools.product(VALS, VALS, VALS)]


def pat(key: str, crit: Any) -> Any:
    return None if crit is None else [[key, crit]]


def changing_handler_product() -> Iterable[dict]:
    """the full declared product of the property's quantifier (46 764 declarations)"""
    for lc, ac, w in itertools.product(CRITS, CRITS, [None, True, False]):
        yield hspec("changing", l=pat(LK, lc), a=pat(AK, ac), w=w)
        for v, o, n, fnc in itertools.product(CRITS, CRITS, CRITS, [False, True]):
            yield hspec("changing", l=pat(LK, lc), a=pat(AK, ac), w=w, f=FIELD, v=v, o=o, n=n, fnc=fnc)


N_CHANGING_PRODUCT = 36 * 3 * (1 + 6 * 6 * 6 * 2)


def nth_changing_handler(k: int) -> dict:
    """random access into changing_handler_product()"""
    per = 1 + 432
    outer, inner = divmod(k, per)
    lc, ac, w = list(itertools.product(CRITS, CRITS, [None, True, False]))[outer]
    if inner == 0:
        return hspec("changing", l=pat(LK, lc), a=pat(AK, ac), w=w)
    v, o, n, fnc = list(itertools.product(CRITS, CRITS, CRITS, [False, True]))[inner - 1]
    return hspec("changing", l=pat(LK, lc), a=pat(AK, ac), w=w, f=FIELD, v=v, o=o, n=n, fnc=fnc)


def plain_handler_product(cls: str = "watching") -> list[dict]:
    out = []
    for lc, ac, w in itertools.product(CRITS, CRITS, [None, True, False]):
        out.append(hspec(cls, l=pat(LK, lc), a=pat(AK, ac), w=w))
        for v in CRITS:
            out.append(hspec(cls, l=pat(LK, lc), a=pat(AK, ac), w=w, f=FIELD, v=v))
    return out


# =============================================================================================
# The oracle: docs/filters.rst, transcribed (not the code, not the Lean model)
# =============================================================================================
class _Missing:
    def __repr__(self) -> str:
        return "<missing>"


MISSING = _Missing()          # "the label / field is not there"


class _Opaque:
    """stands for 'some non-None object that equals nothing' (only used to *classify* a failure)"""
    def __repr__(self) -> str:
        return "<opaque>"


OPAQUE = _Opaque()


def doc_resolve(d: Any, path: list[str]) -> Any:
    for key in path:
        if not isinstance(d, dict) or key not in d:
            return MISSING
        d = d[key]
    return d


def strict_eq(a: Any, b: Any) -> bool:
    """equality as JSON values: no bool/int coercion (True != 1, False != 0), one kind of numbers (1.0 is 1), recursively"""
    if isinstance(a, bool) or isinstance(b, bool):
        return isinstance(a, bool) and isinstance(b, bool) and a == b
    if isinstance(a, (int, float)) and isinstance(b, (int, float)):
        return a == b
    if isinstance(a, list) and isinstance(b, list):
        return len(a) == len(b) and all(strict_eq(x, y) for x, y in zip(a, b))
    if isinstance(a, dict) and isinstance(b, dict):
        return a.keys() == b.keys() and all(strict_eq(a[k], b[k]) for k in a)
    return type(a) is type(b) and a == b


def py_eq(a: Any, b: Any) -> bool:
    return bool(a == b)


def doc_check(crit: Any, v: Any, cbs: dict, absent_arg: Any = None, eq: Callable[[Any, Any], bool] = py_eq) -> bool:
    """'There are only a few kinds of checks': specific value, PRESENT/ABSENT, per-value callback
    ('The passed value will be None if the value is absent in the resource')."""
    if crit == "P":
        return v is not MISSING
    if crit == "A":
        return v is MISSING
    if isinstance(crit, dict) and "cb" in crit:
        return bool(cbs[crit["cb"]](absent_arg if v is MISSING else v))
    if isinstance(crit, dict) and "v" in crit:
        return v is not MISSING and eq(v, crit["v"])
    raise ValueError(f"not a documented criterion: {crit!r}")


def doc_parts(h: dict, st: dict, dev: frozenset = frozenset()) -> dict | None:
    """The judged verdict. Python's bool/int coercion under `==` (True == 1, False == 0) is modelled
    explicitly on the Lean side (J.pyEq) and tied, but it is NOT judged by this oracle: when the
    documented verdict depends on whether 0/False (1/True) count as equal, the case is undefined."""
    a = doc_parts_eq(h, st, dev, py_eq)
    if a is None or not COERCIBLE(h, st):
        return a
    # unjudged as soon as the coercion matters under the plain reading or under any named deviation
    # (else a coercion effect would be mis-attributed to, or hidden by, a known finding)
    for d in (frozenset(), frozenset({"old_counts"})):
        if doc_parts_eq(h, st, d, py_eq) != doc_parts_eq(h, st, d, strict_eq):
            return None
    return a


def _has_boolnum(x: Any) -> bool:
    if isinstance(x, (bool, int, float)):
        return True
    if isinstance(x, list):
        return any(_has_boolnum(y) for y in x)
    if isinstance(x, dict):
        return any(_has_boolnum(y) for y in x.values())
    return False


def COERCIBLE(h: dict, st: dict) -> bool:
    return h["f"] is not None and (_has_boolnum([h["v"], h["o"], h["n"]]) or _has_boolnum([st["o"], st["n"], st["b"].get("spec")]))


def doc_parts_eq(h: dict, st: dict, dev: frozenset, eq: Callable[[Any, Any], bool]) -> dict | None:
    """Per documented rule, does it hold? None: this declaration cannot be made through kopf.on.*
    (or the docs say nothing about it). `dev` switches on a *named deviation* from the docs and is
    used only to classify an observed failure against the known findings."""
    if h["f"] is None and any(h[k] is not None for k in ("v", "o", "n")):
        return None                                     # "specified without a mandatory field" → TypeError
    if h["f"] is not None and len(h["f"]) == 0:
        return None
    if h["v"] is not None and (h["o"] is not None or h["n"] is not None):
        return None                                     # "value= is currently mutually exclusive with old=/new="
    update_like = h["_cls"] == "changing" and bool(h["_fnc"])   # @on.update / @on.field
    if not update_like and (h["o"] is not None or h["n"] is not None):
        return None                                     # old=/new= exist for the update handlers only
    if any(h[k] == "T" for k in ("v", "o", "n")):
        return None                                     # the private token is not a documented criterion
    if any(isinstance(h[k], dict) and "v" in h[k] and h[k]["v"] is None for k in ("v", "o", "n")):
        return None
    for p in (h["l"], h["a"]):
        for _, c in (p or []):
            if c is None or c == "T":
                return None
    if (h["_cls"] == "changing") != (st["_cls"] == "changing"):
        return None                                     # registries are typed: never paired in kopf
    parts = {
        "selector": h["_sel"] is None or doc_selector(sel_decl(h["_sel"]), ENV_RESOURCE),   # docs/resources.rst on the notation
        "labels": all(doc_check(c, st["l"].get(k, MISSING), META_CBS) for k, c in (h["l"] or [])),
        "annotations": all(doc_check(c, st["a"].get(k, MISSING), META_CBS) for k, c in (h["a"] or [])),
        "when": h["w"] is None or bool(h["w"]),
        "value": True, "change": True,
    }
    if h["f"] is not None:
        vcrit = "P" if h["v"] is None else h["v"]       # "it is equivalent to value=kopf.PRESENT"
        aarg = OPAQUE if "cb_token" in dev else None

        def chk(c: Any, x: Any) -> bool:
            return doc_check(c, x, FIELD_CBS, aarg, eq)
        if st["_cls"] == "changing":
            old, new = doc_resolve(st["o"], h["f"]), doc_resolve(st["n"], h["f"])
            if update_like:
                # "The value= filter applies to either the old or the new value"
                parts["value"] = chk(vcrit, old) or chk(vcrit, new)
                # "restricts the update handlers to cases where the field is affected in any way: changed, added, or
                # removed" -- the property's "the field actually changed": as JSON VALUES (true is not 1), whatever
                # `eq` the literal criteria are read with (/repo 8d1358b; before it Python's `!=` decided)
                affected = not ((old is MISSING and new is MISSING) or (old is not MISSING and new is not MISSING and strict_eq(old, new)))
                parts["change"] = (affected and (h["o"] is None or chk(h["o"], old)) and (h["n"] is None or chk(h["n"], new)))
            else:
                # "check the resource in its current ---and only--- state": the criterion holds iff it
                # holds on the current value. (The named deviation -- used ONLY to attribute an observed
                # failure to the open finding C15-F1 -- is its residual: a REAL old state satisfies it;
                # a creation, `old is None`, has no old state and no exemption since /repo bd6cd41.)
                parts["value"] = chk(vcrit, new) or ("old_counts" in dev and st["o"] is not None and chk(vcrit, old))
        else:
            parts["value"] = chk(vcrit, doc_resolve(st["b"], h["f"]))
    return parts


def doc_match(h: dict, st: dict, dev: frozenset = frozenset()) -> bool | None:
    p = doc_parts(h, st, dev)
    return None if p is None else all(p.values())


def doc_prematch(h: dict, st: dict, dev: frozenset = frozenset()) -> bool | None:
    """object-level criteria only (what 'the object matches the filters of a handler' means for the
    stealth clause): everything except the change-related part."""
    p = doc_parts(h, st, dev)
    return None if p is None else all(v for k, v in p.items() if k != "change")


DEVIATIONS = [(frozenset({"old_counts"}), FINDING_OLD)]     # C15-F2 (cb_token) is repaired (/repo 07968cf): no exemption any more


def classify(h: dict, st: dict, got: bool, fn: Callable[..., bool | None], site: str) -> dict:
    """signature of an oracle failure: a known, named deviation that alone explains it, else generic"""
    for dev, sig in DEVIATIONS:
        if fn(h, st, dev) == got:
            return sig
    return {"site": site, "shape": "selected although a declared criterion fails" if got else "not selected although all declared criteria hold"}


def doc_gate(h: dict, st: dict) -> bool:
    """cause kind (C05's subject, restated from the handler kinds): a handler bound to a cause kind
    runs only for it; resume handlers only on first sight, on deleting objects only when opted in;
    field handlers (`@kopf.on.field`: no kind of their own, not resuming) are for updates: "the field
    handler is effective only when the object is updated" -- never on an object marked for deletion.
    A SUB-HANDLER (`@kopf.subhandler`, `kopf.register`, `kopf.execute(fns=...)`) has no cause kind of its
    own at all: it belongs to the run of its parent, whatever cause that is (docs/handlers.rst,
    "sub-handlers"); only its filters decide. (Through kopf.on.* a reason-less non-resuming top-level
    handler can only be an on.field handler; before the sub-registry cases existed this oracle did not
    tell the two apart -- the hole through which C15-F8 went unnoticed.)"""
    if h.get("_sub"):
        return True
    if h["r"] is not None and h["r"] != st["r"]:
        return False
    if h["i"] and (not st["i"] or (st["m"] and not h["d"])):
        return False
    if h["r"] is None and not h["i"] and st["m"]:
        return False
    return True


# =============================================================================================
# Real kopf objects
# =============================================================================================
class Env:
    def __init__(self) -> None:
        import kopf
        from kopf._cogs.configs import configuration
        from kopf._cogs.structs import bodies, diffs, ephemera, patches, references
        from kopf._core.actions import application, execution, lifecycles, progression
        from kopf._core.engines import daemons, indexing
        from kopf._core.intents import causes, filters, handlers, registries
        from kopf._core.reactor import inventory, processing, subhandling
        self.__dict__.update(locals())
        self.resource = references.Resource("kopf.dev", "v1", PLURAL, kind="KopfExample", singular="kopfexample",
                                            shortcuts=frozenset({"kex"}), categories=frozenset({"all"}),
                                            namespaced=True, preferred=True)
        self.indexers = indexing.OperatorIndexers()
        self.logger = logging.getLogger("verif.c15")
        self.logger.setLevel(logging.CRITICAL)
        logging.getLogger("kopf").setLevel(logging.CRITICAL + 1)
        self.fns = [self._mkfn(i) for i in range(6)]
        self.calls: list[Any] = []
        # sub-handlers: what happens inside the handlers, in order -- ("P", n) a parent with sub-handlers runs,
        # ("G", registry, selected) a get_handlers() of a (sub-)registry, ("S", i, param) sub-handler function i runs
        self.subtrace: list[Any] = []
        self.subfns = [self._mksub(i) for i in range(5)]
        self.settings = configuration.OperatorSettings()
        self.settings.posting.enabled = False
        env = self

        async def sub_temp(**kw: Any) -> None:
            env.subtrace.append(("S", "temp", kw.get("param")))
            raise kopf.TemporaryError("the sub-handler comes back later", delay=0.001)
        sub_temp.__name__ = sub_temp.__qualname__ = "sub_temp"
        self.sub_temp = sub_temp

        class Ops:
            """an instance whose methods are registered as handlers: `ops.m0` is a NEW object per access"""
            async def m0(self, **kw: Any) -> None:
                env.calls.append((50, kw.get("param")))

            async def m1(self, **kw: Any) -> None:
                env.calls.append((51, kw.get("param")))
        self.ops = Ops()

        async def temp_fn(**kw: Any) -> None:
            env.calls.append(("temp", kw.get("param")))
            raise kopf.TemporaryError("come back later", delay=0.001)
        temp_fn.__name__ = temp_fn.__qualname__ = "temp_fn"
        self.temp_fn = temp_fn

    def fn_of(self, h: dict) -> Any:
        return getattr(self.ops, f"m{h['_bound']}") if h.get("_bound") is not None else self.fns[h["fn"] % len(self.fns)]

    def _mksub(self, i: int) -> Callable[..., Any]:
        async def fn(**kw: Any) -> None:
            self.subtrace.append(("S", i, kw.get("param")))
        fn.__name__ = fn.__qualname__ = f"sub{i}"
        return fn

    def _mkfn(self, i: int) -> Callable[..., Any]:
        async def fn(**kw: Any) -> None:
            self.calls.append((i, kw.get("param")))
        fn.__name__ = fn.__qualname__ = f"fn{i}"
        return fn

    # ---- criteria -------------------------------------------------------------------------
    def mcrit(self, c: Any) -> Any:
        if c == "P":
            return self.filters.PRESENT
        if c == "A":
            return self.filters.ABSENT
        if isinstance(c, dict) and "cb" in c:
            return META_CBS_KW[c["cb"]]
        if isinstance(c, dict) and "v" in c:
            return c["v"]
        raise ValueError(c)

    def vcrit(self, c: Any) -> Any:
        if c is None:
            return None
        if c == "T":
            return self.registries._UNSET.token
        if c in ("P", "A"):
            return self.mcrit(c)
        if isinstance(c, dict) and "cb" in c:
            return FIELD_CBS_KW[c["cb"]]
        if isinstance(c, dict) and "v" in c:
            return c["v"]
        raise ValueError(c)

    def pattern(self, p: Any) -> Any:
        return None if p is None else {k: self.mcrit(c) for k, c in p}

    def when(self, w: Any) -> Any:
        return None if w is None else (when_true if w else when_false)

    def sel_args(self, s: Any) -> tuple[list, dict]:
        d = sel_decl(s)
        args = [self.references.EVERYTHING if a == EVERYTHING else (SEL_CALLABLES[a["fn"]] if isinstance(a, dict) else a) for a in d["args"]]
        return args, dict(d["kw"])

    def selector(self, s: Any) -> Any:
        if s is None:
            return None
        args, kw = self.sel_args(s)
        return self.references.Selector(*args, **kw)

    # ---- handlers through the dataclasses ----------------------------------------------------
    def handler(self, h: dict) -> Any:
        H = self.handlers
        common = dict(fn=self.fn_of(h), id=h["id"], param=None, errors=None, timeout=None, retries=None, backoff=None,
                      selector=self.selector(h["_sel"]), labels=self.pattern(h["l"]), annotations=self.pattern(h["a"]),
                      when=self.when(h["w"]), field=None if h["f"] is None else tuple(h["f"]), value=self.vcrit(h["v"]))
        if h["_cls"] == "changing":
            return H.ChangingHandler(**common, old=self.vcrit(h["o"]), new=self.vcrit(h["n"]), field_needs_change=h["_fnc"],
                                     initial=h["_i"], deleted=h["_d"], requires_finalizer=h["_rf"],
                                     reason=None if h["r"] is None else self.causes.Reason(h["r"]))
        if h["_cls"] == "watching":
            return H.WatchingHandler(**common)
        if h["_cls"] == "indexing":
            return H.IndexingHandler(**common)
        if h["_cls"] == "spawning":
            return H.TimerHandler(**common, requires_finalizer=h["_rf"], initial_delay=None, sharp=None, idle=None, interval=1.0)
        raise ValueError(h["_cls"])

    # ---- handlers through the public decorators ------------------------------------------------
    def decorate(self, registry: Any, h: dict, kind: str, *, explicit_id: bool, param: Any = None, fn_override: Any = None) -> Any:
        """register through kopf.on.<kind>; returns the real handler object"""
        on = self.kopf.on
        kw: dict[str, Any] = dict(registry=registry, labels=self.pattern(h["l"]), annotations=self.pattern(h["a"]),
                                  when=self.when(h["w"]), field=None if h["f"] is None else ".".join(h["f"]),
                                  value=self.vcrit(h["v"]))
        if explicit_id:
            kw["id"] = h["id"]
        if kind in ("update", "field"):
            kw.update(old=self.vcrit(h["o"]), new=self.vcrit(h["n"]))
        if kind == "resume":
            kw.update(deleted=h["_d"])
        if kind == "delete":
            kw.update(optional=not h["_rf"])
        if kind == "timer":
            kw.update(interval=1.0)
        if kind not in ("index",):
            kw["param"] = param
        reg = {"event": registry._watching, "index": registry._indexing, "timer": registry._spawning,
               "daemon": registry._spawning}.get(kind, registry._changing)
        before = len(reg._handlers)
        sargs, skw = self.sel_args(h["_sel"])
        getattr(on, kind)(*sargs, **skw, **kw)(fn_override or self.fn_of(h))
        assert len(reg._handlers) == before + 1
        return reg._handlers[-1]

    # ---- causes ------------------------------------------------------------------------------------
    def cause(self, st: dict) -> Any:
        C = self.causes
        common = dict(resource=self.resource, indices=self.indexers.indices, logger=self.logger, patch=self.patches.Patch(),
                      body=self.bodies.Body(st["b"]), memo=None)
        if st["_cls"] == "changing":
            return C.ChangingCause(**common, initial=st["i"], reason=C.Reason(st["r"]), old=st["o"], new=st["n"],
                                   diff=self.diffs.diff(st["o"], st["n"]))
        if st["_cls"] == "watching":
            return C.WatchingCause(**common, type="MODIFIED", event={"type": "MODIFIED", "object": st["b"]})
        if st["_cls"] == "spawning":
            return C.SpawningCause(**common, reset=False)
        if st["_cls"] == "indexing":
            return C.IndexingCause(**common)
        raise ValueError(st["_cls"])


DECL_KIND = {  # kopf.on.<kind> → what the harness expects the handler to carry (read from the docs of the kinds)
    "create": dict(r="create", fnc=False, i=False), "update": dict(r="update", fnc=True, i=False),
    "delete": dict(r="delete", fnc=False, i=False), "resume": dict(r=None, fnc=False, i=True),
    "field": dict(r=None, fnc=True, i=False),
}


# =============================================================================================
# Recorder: what a worker process collects; merged into ctx by the parent
# =============================================================================================
class Rec:
    def __init__(self) -> None:
        self.evaluations = 0
        self.nontrivial: set[str] = set()
        self.hist: dict[str, dict[str, int]] = {}
        self.oracle: list[tuple[str, Any, dict]] = []
        self.oracle_counts: dict[str, int] = {}
        self.tie: list[tuple[str, Any]] = []
        self.tie_comparisons = 0
        self.samples: list[Any] = []
        self.traces = 0
        self.complete = True
        self.crashed: str | None = None

    def count(self, group: str, tag: Any, n: int = 1) -> None:
        g = self.hist.setdefault(group, {})
        g[str(tag)] = g.get(str(tag), 0) + n

    def oracle_fail(self, what: str, replay: Any, sig: dict) -> None:
        k = leanio.canon(sig)
        self.oracle_counts[k] = self.oracle_counts.get(k, 0) + 1
        if self.oracle_counts[k] <= 3:
            self.oracle.append((what, replay, sig))

    def tie_fail(self, what: str, replay: Any) -> None:
        if len(self.tie) < 20:
            self.tie.append((what, replay))

    def compare(self, what: str, impl: Any, model: Any, replay: Any) -> bool:
        self.tie_comparisons += 1
        if leanio.canon(impl) != leanio.canon(model):
            self.tie_fail(f"{what}: implementation and model differ", {"input": replay, "impl": impl, "model": model})
            return False
        return True

    def merge_into(self, ctx: Ctx) -> None:
        ctx.evaluations += self.evaluations
        ctx.nontrivial |= self.nontrivial
        for g, d in self.hist.items():
            for t, n in d.items():
                ctx.count(g, t, n)
        for what, replay, sig in self.oracle:
            ctx.oracle_fail(what, replay, sig)
        for k, n in self.oracle_counts.items():
            ctx.count("oracle_failures_by_signature", k, n)
        for what, replay in self.tie:
            if sum(1 for f in ctx.failures if f.kind == "tie") < 50:
                ctx.tie_fail(what, replay)
        ctx.tie_comparisons += self.tie_comparisons
        ctx.traces += self.traces
        for s in self.samples:
            if len(ctx.samples) < 6:
                ctx.samples.append(s)


def crit_kind(c: Any) -> str:
    if c is None:
        return "-"
    if isinstance(c, str):
        return c
    if "cb" in c:
        return "cb"
    return "null" if c["v"] is None else ("falsy" if not c["v"] else "lit")


def h_kinds(h: dict) -> str:
    pk = lambda p: "-" if p is None else ("{}" if not p else "+".join(crit_kind(c) for _, c in p))
    return "/".join([h["_cls"][0], "s" + ("-" if h["_sel"] is None else str(int(bool(h["sel"])))),
                     pk(h["l"]), pk(h["a"]), "f" + ("-" if h["f"] is None else str(len(h["f"]))),
                     crit_kind(h["v"]), crit_kind(h["o"]), crit_kind(h["n"]), "c" + str(int(bool(h["_fnc"]))),
                     "w" + ("-" if h["w"] is None else str(int(h["w"])))])


def is_catchall(h: dict) -> bool:
    return not h["l"] and not h["a"] and h["w"] is None and not h["f"]


# =============================================================================================
# (D) handler x state grids through registries.match / prematch
# =============================================================================================
def eval_grid(env: Env, rec: Rec, hs: list[dict], sts: list[dict], what: str, *, use_model: bool = True,
              driver: leanio.Driver | None = None, causes: list | None = None, sample_every: int = 0,
              queue: tuple[list, list] | None = None) -> None:
    """every handler of `hs` against every state of `sts`: real match/prematch vs. the documented
    reading (oracle) and vs. the Lean model (tie)."""
    match, prematch = env.registries.match, env.registries.prematch
    causes = causes if causes is not None else [env.cause(st) for st in sts]
    impl_rows: list[str] = []
    for hi, h in enumerate(hs):
        real = env.handler(h)
        kinds = h_kinds(h)
        nontrivial = not is_catchall(h)
        row = []
        for st, c in zip(sts, causes):
            try:
                m, p = bool(match(handler=real, cause=c)), bool(prematch(handler=real, cause=c))
            except Exception as e:  # the standard streams never raise; a raise is a finding by itself
                rec.oracle_fail(f"match() raised {type(e).__name__}: {e}", {"kind": "pair", "handler": h, "state": st},
                                {"site": "registries.match", "shape": f"raises {type(e).__name__}"})
                row.append("E")
                continue
            row.append("0123"[int(m) + 2 * int(p)])
            parts = doc_parts(h, st)
            rec.evaluations += 1
            if parts is None:
                if doc_parts_eq(h, st, frozenset(), py_eq) is not None:
                    rec.count("oracle", "not judged (verdict depends on bool/int coercion under ==)")
                else:
                    rec.count("oracle", "undefined (not declarable via kopf.on / cross-class)")
                vec = "?"
            else:
                em = all(parts.values())
                ep = all(v for k, v in parts.items() if k != "change")
                vec = "".join("1" if parts[k] else "0" for k in ("selector", "labels", "annotations", "value", "change", "when"))
                if m != em:
                    sig = classify(h, st, m, doc_match, "registries.match")
                    rec.oracle_fail(f"match()={m} but the documented criteria {'all hold' if em else 'do not all hold'} {parts}",
                                    {"kind": "pair", "handler": h, "state": st, "impl": {"match": m, "prematch": p},
                                     "documented": parts}, sig)
                    rec.count("oracle", "match differs: " + sig.get("deviation", "UNLISTED"))
                elif p != ep:
                    sig = classify(h, st, p, doc_prematch, "registries.prematch")
                    rec.oracle_fail(f"prematch()={p} but the documented object-level criteria give {ep} {parts}",
                                    {"kind": "pair", "handler": h, "state": st, "impl": {"match": m, "prematch": p},
                                     "documented": parts}, sig)
                    rec.count("oracle", "prematch differs: " + sig.get("deviation", "UNLISTED"))
                else:
                    rec.count("oracle", "agrees")
            if nontrivial:
                rec.nontrivial.add(f"{kinds}|{st['_cls'][0]}|{vec}|{row[-1]}")
            rec.count("outcome", {"0": "neither", "1": "match only (!)", "2": "prematch only", "3": "match+prematch"}[row[-1]])
            if sample_every and (rec.evaluations % sample_every == 1) and len(rec.samples) < 3:
                rec.samples.append({"handler": lean_h(h), "state": lean_c(st), "impl": {"match": m, "prematch": p},
                                    "documented": parts})
        rec.count("handler class x cause class", f"{h['_cls']} x {sts[0]['_cls']}", len(sts))
        rec.count("value criterion", crit_kind(h["v"]) if h["f"] else "no field", len(sts))
        impl_rows.append("".join(row))
    if not use_model:
        return
    lean_states = [lean_c(st) for st in sts]
    reqs: list = []
    pending: list = []
    for i in range(0, len(hs), 64):
        reqs.append(["C15.grid", [lean_h(h) for h in hs[i:i + 64]], lean_states])
        pending.append(("grid:" + what, (hs[i:i + 64], sts, impl_rows[i:i + 64]), None))
    if queue is not None:
        queue[0].extend(reqs)
        queue[1].extend(pending)
    else:
        flush(rec, driver or leanio.Driver(["C15"]), reqs, pending)


def compare_grid(rec: Rec, what: str, impl: tuple, out: Any) -> None:
    hs, sts, impl_rows = impl
    model_rows = out[1] if (isinstance(out, list) and out and out[0] == "ok") else [out] * len(hs)
    for h, irow, mrow in zip(hs, impl_rows, model_rows):
        rec.tie_comparisons += 1
        if irow != mrow:
            j = next((k for k in range(len(irow)) if not isinstance(mrow, str) or k >= len(mrow) or irow[k] != mrow[k]), 0)
            rec.tie_fail(f"{what}: implementation and model differ (digit = match + 2*prematch)",
                         {"input": {"kind": "pair", "handler": h, "state": sts[j]}, "impl": irow[j],
                          "model": mrow[j] if isinstance(mrow, str) and j < len(mrow) else mrow})
    rec.traces += len(hs) * len(sts) - 1


def falsy_cases() -> list[tuple[str, list[dict], list[dict]]]:
    """criteria and field/label values that are falsy but present: '', 0, False, [], {} — the complete
    product value x old x new x field_needs_change over FCRITS against old x new over the falsy values"""
    fvals = [MISSING, "x"] + FALSY
    sp = lambda v: {} if v is MISSING else {"f": v}
    csts = [state("changing", body_extra={"spec": sp(nv)}, old=None if ov == NOOLD else {"spec": sp(ov)}, new={"spec": sp(nv)},
                  reason="create" if ov == NOOLD else "update") for ov, nv in itertools.product(fvals + [NOOLD], fvals)]
    chs = [hspec("changing", f=FIELD, v=v, o=o, n=n, fnc=fnc) for v, o, n, fnc in itertools.product(FCRITS, FCRITS, FCRITS, [False, True])]
    out = [("falsy field criteria (changing)", chs, csts)]
    for cls in ("watching", "spawning"):
        out.append((f"falsy field criteria ({cls})", [hspec(cls, f=FIELD, v=v, rf=True if cls == "spawning" else None) for v in FCRITS],
                    [state(cls, body_extra={"spec": sp(v)}) for v in fvals]))
    mvals = [None, "x", ""]
    mh = [hspec("changing", l=pat(LK, lc), a=pat(AK, ac), w=w) for lc, ac, w in itertools.product(MCRITS_E, MCRITS_E, [None, True, False])]
    mh += [hspec("changing", l=[], a=pat(AK, ac)) for ac in MCRITS_E] + [hspec("changing", l=pat(LK, lc), a=[]) for lc in MCRITS_E]
    ms = [state("changing", labels={} if lv is None else {LK: lv}, annotations={} if av is None else {AK: av},
                old={"spec": {}}, new={"spec": {}}, reason="noop", meta_shape=shape)
          for lv, av, shape in itertools.product(mvals, mvals, ["full", "sparse"])]
    out.append(("empty-string label/annotation values and criteria", mh, ms))
    wh = [dict(h, _cls="watching", ch=False) for h in mh]
    out.append(("empty-string label/annotation values and criteria (watching)", wh, [dict(st, _cls="watching", ch=False, o=None, n=None) for st in ms]))
    return out


TWINS: list = [(1, True), (True, 1), (0, False), (False, 0), ([1], [True]), ([0, "x"], [False, "x"]),
               ({"k": 0}, {"k": False}), ({"a": 1, "b": [True]}, {"b": [True], "a": 1})]   # (the last pair: the SAME value, other key order)


def boolnum_cases() -> list[tuple[str, list[dict], list[dict], bool]]:
    """'the field actually changed' over values that Python's `==` equates and JSON does not (/repo 8d1358b, finding
    C04-F12): true/1, false/0, alone, inside lists and inside mappings, and values that are the same JSON value
    written differently (1.0/1, another key order), as old x new states of the field; update handlers (`@on.update`,
    `@on.field`: field_needs_change) and the others, without criteria, with PRESENT/ABSENT/callbacks (judged) and
    with literals (tied; judged where the coercion does not decide). → (what, handlers, states, with the model?)"""
    vals: list = [MISSING, "x", 1, True, 0, False, [1], [True], [0, "x"], [False, "x"], {"k": 0}, {"k": False},
                  {"a": 1, "b": [True]}, {"b": [True], "a": 1}, [[1]], [[True]]]
    sp = lambda v: {} if v is MISSING else {"f": v}

    def sts_of(vs: list) -> list[dict]:
        return [state("changing", body_extra={"spec": sp(nv)}, old={"spec": sp(ov)}, new={"spec": sp(nv)}, reason="update")
                for ov, nv in itertools.product(vs, vs)]
    crits: list = [None, "P", "A", {"cb": "truthy"}, {"cb": "not_none"}]
    hs = [hspec("changing", f=FIELD, fnc=True)] + \
         [hspec("changing", f=FIELD, v=v, fnc=fnc) for v in crits[1:] for fnc in (False, True)] + \
         [hspec("changing", f=FIELD, o=o, n=n, fnc=True) for o, n in itertools.product(crits, crits) if o is not None or n is not None] + \
         [hspec("changing", f=FIELD, o={"v": o}, n={"v": n}, fnc=True) for o, n in TWINS[:4]] + \
         [hspec("changing", f=FIELD, v={"v": v}, fnc=fnc) for v in (1, True, 0, False) for fnc in (False, True)]
    fvals: list = [1, 1.0, True, 0, 0.0, False, [1], [1.0], {"k": 1.0}, {"k": 1}, MISSING]
    fhs = [h for h in hs if not any(isinstance(h[k], dict) and "v" in h[k] for k in ("v", "o", "n"))]
    return [("bool/number twins as old x new", hs, sts_of(vals), True),
            ("1.0/1 twins as old x new (no floats in the model: oracle only)", fhs, sts_of(fvals), False)]


def ext_field_states() -> list[dict]:
    """old/new over {absent, 'x', 'y', null(present)} + old=None, and a non-mapping parent"""
    vals = [("absent", MISSING), ("x", "x"), ("y", "y"), ("null", None)]
    out = []
    for (_, ov), (_, nv) in itertools.product(vals + [("noold", NOOLD)], vals):
        sp = lambda v: {} if v is MISSING else {"f": v}
        out.append(state("changing", body_extra={"spec": sp(nv)}, old=None if ov == NOOLD else {"spec": sp(ov)},
                         new={"spec": sp(nv)}, reason="create" if ov == NOOLD else "update"))
    out.append(state("changing", body_extra={"spec": "scalar"}, old={"spec": "scalar"}, new={"spec": {"f": "x"}}))
    out.append(state("changing", body_extra={}, old={}, new={"spec": {"f": {"deep": 1}}}))
    return out


def ext_field_handlers(cls: str = "changing") -> list[dict]:
    if cls != "changing":
        return [hspec(cls, f=FIELD, v=v) for v in EXT_VCRITS + [{"v": {"deep": 1}}, {"v": 1}]]
    return [hspec("changing", f=FIELD, v=v, o=o, n=n, fnc=fnc)
            for v, o, n, fnc in itertools.product(EXT_VCRITS, EXT_VCRITS, EXT_VCRITS, [None, False, True])] + \
           [hspec("changing", f=FIELD, v={"v": {"deep": 1}}), hspec("changing", f=FIELD, n={"v": {"deep": 1}}, fnc=True),
            hspec("changing", f=[], v=None), hspec("changing", f=[], v="A"), hspec("changing", f=None, v={"v": "x"}),
            hspec("changing", f=None, o="A", fnc=True), hspec("changing", f=["spec"], v="P"),
            hspec("changing", f=["spec", "f", "deep"], v={"v": 1}), hspec("changing", f=["metadata", "labels", LK], v={"v": "x"})]


def ext_meta_cases() -> tuple[list[dict], list[dict]]:
    hs = []
    for c1, c2 in itertools.product(EXT_MCRITS, EXT_MCRITS):
        hs.append(hspec("changing", l=[[LK, c1], ["other", c2]]))
    for c in EXT_MCRITS:
        hs += [hspec("watching", a=[[AK, c]]), hspec("changing", l=[], a=[[AK, c]]), hspec("spawning", l=[[LK, c]], a=[])]
    sts = []
    for lv, ov in itertools.product([None, "x", "y", ""], [None, "x", ""]):
        labels = {k: v for k, v in ((LK, lv), ("other", ov)) if v is not None}
        for shape in ("full", "sparse", "nometa"):
            sts.append(state("changing", labels=labels, annotations={AK: lv} if lv is not None else {},
                             old={"spec": {}}, new={"spec": {}}, reason="noop", meta_shape=shape))
    return hs, sts


def random_large_cases(rng: random.Random, n: int) -> list[tuple[list[dict], list[dict]]]:
    """larger label/annotation maps and multi-key patterns, unicode and empty keys/values"""
    keys = ["app", "tier", "ünï", "", "a/b", "k8s.io/name", "x" * 63, LK, AK]
    vals = ["x", "y", "", "ü", "0", "x" * 63]
    blocks = []
    for _ in range(n):
        def rmap() -> dict:
            return {k: rng.choice(vals) for k in rng.sample(keys, rng.randint(0, len(keys)))}

        def rpat() -> Any:
            r = rng.random()
            if r < 0.15:
                return None
            if r < 0.2:
                return []
            ks = rng.sample(keys, rng.randint(1, 5))
            return [[k, rng.choice(EXT_MCRITS + [{"v": rng.choice(vals)}] * 4)] for k in ks]
        hs = []
        for _ in range(8):
            cls = rng.choice(["changing", "changing", "watching", "spawning", "indexing"])
            path = rng.choice([None, FIELD, ["spec", "g", "h"], ["status", "s"]])
            v = rng.choice(EXT_VCRITS[:-1] + [{"v": rng.choice([1, "x", {"h": "x"}] + FALSY)}] * 3) if path else None
            o = n_ = fnc = None
            if cls == "changing" and path and rng.random() < 0.6:
                fnc = rng.choice([False, True])
                if fnc and v is None:
                    o, n_ = rng.choice(FCRITS), rng.choice(FCRITS)
            hs.append(hspec(cls, sel=rng.choice([PLURAL, PLURAL, PLURAL, None, "others"]), l=rpat(), a=rpat(),
                            w=rng.choice([None, None, True, False]), f=path, v=v, o=o, n=n_, fnc=fnc))
        sts_by_cls: dict[str, list[dict]] = {}

        def rspec() -> dict:
            sp: dict[str, Any] = {}
            if rng.random() < 0.6:
                sp["f"] = rng.choice(["x", "y", None, 1, {"deep": 1}] + FALSY)
            if rng.random() < 0.5:
                sp["g"] = rng.choice([{"h": "x"}, {"h": 1}, {"h": 0}, {"h": ""}, {"h": False}, {}, "scalar"])
            return sp
        for cls in ("changing", "watching", "spawning", "indexing"):
            sts = []
            for _ in range(6):
                nsp = rspec()
                if cls == "changing":
                    r = rng.random()
                    old = None if r < 0.25 else ({"spec": dict(nsp)} if r < 0.5 else {"spec": rspec()})
                    sts.append(state(cls, labels=rmap(), annotations=rmap(), body_extra={"spec": nsp}, old=old, new={"spec": nsp},
                                     reason="create" if old is None else "update", meta_shape=rng.choice(["full", "sparse"])))
                else:
                    sts.append(state(cls, labels=rmap(), annotations=rmap(), body_extra={"spec": nsp, "status": {"s": "x"}},
                                     meta_shape=rng.choice(["full", "sparse"])))
            sts_by_cls[cls] = sts
        for cls, sts in sts_by_cls.items():
            sub = [h for h in hs if h["_cls"] == cls]
            if sub:
                blocks.append((sub, sts))
    return blocks


# =============================================================================================
# (D) registries: get_handlers with duplicate registrations, excluded ids, cause kinds; _deduplicated
# =============================================================================================
def random_decl(rng: random.Random, cls: str) -> tuple[dict, str]:
    """a declaration that kopf.on.* accepts, over the small alphabet"""
    small = [None, None, None, {"v": "x"}, "P", "A", {"cb": "is_x"}]
    l, a = pat(LK, rng.choice(small)), pat(AK, rng.choice(small))
    w = rng.choice([None, None, None, True, True, False])
    sel = rng.choice(SEL_CHOICES)
    fn = rng.randrange(3)
    bound = rng.randrange(2) if rng.random() < 0.15 else None
    hid = rng.choice(["a", "b", f"fn{fn}", f"fn{fn}"])
    if cls == "changing":
        kind = rng.choice(["create", "update", "delete", "resume", "field"])
        f = FIELD if kind == "field" or rng.random() < 0.4 else None
        v = o = n = None
        if f:
            if kind in ("update", "field") and rng.random() < 0.5:
                o, n = rng.choice(CRITS + FCRITS[6:]), rng.choice(CRITS + FCRITS[6:])
            else:
                v = rng.choice(CRITS + FCRITS[6:])
        k = DECL_KIND[kind]
        rf = (rng.random() < 0.7) if kind == "delete" else None
        d = rng.choice([None, False, True]) if kind == "resume" else None
        return hspec("changing", fn=fn, id=hid, sel=sel, l=l, a=a, w=w, f=f, v=v, o=o, n=n, fnc=k["fnc"], rf=rf,
                     r=k["r"], i=k["i"] or None, d=d, bound=bound), kind
    kind = {"watching": "event", "indexing": "index", "spawning": rng.choice(["timer", "daemon"])}[cls]
    f = FIELD if rng.random() < 0.4 else None
    return hspec(cls, fn=fn, id=hid, sel=sel, l=l, a=a, w=w, f=f, v=rng.choice(CRITS) if f else None,
                 rf=True if cls == "spawning" else None, bound=bound), kind


FIELD2 = ["spec", "g"]                     # a second field, for one function registered for two fields


def doc_id(env: Env, h: dict, explicit: bool, prefix: str | None = None, fn: Any = None) -> str:
    """the handler id as documented: "the function's name by default unless overridden" (docs/resources.rst), "the
    field name is part of the handler id (e.g., "fn/spec.field")" (docs/filters.rst), a sub-handler's id under its
    parent's (docs/handlers.rst). Written from the docs, not read off the handler kopf built: a registration that
    ends up under another id is deduplicated with (or told apart from) the wrong registrations."""
    base = h["id"] if explicit else getattr(fn if fn is not None else env.fn_of(h), "__qualname__")
    # (an index handler's id is the index's name: "the name of the function or its id= option" -- docs/indexing.rst)
    return (prefix + "/" if prefix else "") + base + ("/" + ".".join(h["f"]) if h["f"] and h["_cls"] != "indexing" else "")


def check_decorated(env: Env, rec: Rec, real: Any, h: dict, kind: str) -> None:
    """the decorator built the handler the declaration says (kind → reason/initial/field_needs_change/finalizer)"""
    got = {"r": None if getattr(real, "reason", None) is None else real.reason.value, "i": bool(getattr(real, "initial", None)),
           "d": bool(getattr(real, "deleted", None)), "fnc": bool(getattr(real, "field_needs_change", None)),
           "rf": bool(getattr(real, "requires_finalizer", None)), "f": None if real.field is None else list(real.field)}
    want = {k: h[k] for k in got}
    rec.compare(f"kopf.on.{kind} → handler fields", got, want, {"kind": "decl", "handler": h, "decorator": kind})


def run_select_case(env: Env, rec: Rec, case: dict, driver_reqs: list, pending: list) -> None:
    """one registry (declarations), one cause, one excluded set → real get_handlers vs oracle; model queued"""
    cls = case["cls"]
    registry = env.registries.OperatorRegistry()
    sub = {"changing": registry._changing, "watching": registry._watching, "spawning": registry._spawning,
           "indexing": registry._indexing}[cls]
    hs = []
    for n_, (h, kind, explicit) in enumerate(case["handlers"]):
        h = dict(h)
        h.setdefault("func", h["fn"])
        h.setdefault("_bound", None)
        real = env.decorate(registry, h, kind, explicit_id=explicit)
        # the id the DOCS give this registration (function name or id=, plus the field): what the oracle and the
        # model go by; the id of the handler kopf built is compared with it (tie)
        h["id"] = doc_id(env, h, explicit)
        rec.compare(f"kopf.on.{kind} → handler id", str(real.id), h["id"], {"kind": "select", "case": case, "registration": n_})
        if h.get("_bound") is not None:   # a fresh bound-method object per registration; one function
            h["fn"], h["func"] = 1000 + n_, 50 + h["_bound"]
        check_decorated(env, rec, real, h, kind)
        hs.append(h)
    st = case["state"]
    cause = env.cause(st)
    excluded = frozenset(case["excluded"])
    try:
        got = sub.get_handlers(cause=cause, excluded=excluded)
    except Exception as e:     # a criterion that cannot even be asked (e.g. a callback called without the cause's kwargs)
        rec.evaluations += 1
        rec.oracle_fail(f"get_handlers() raised {type(e).__name__}: {e}", {"kind": "select", "case": case},
                        {"site": f"{cls} registry get_handlers", "shape": f"raises {type(e).__name__}"})
        return
    pos = {id(x): i for i, x in enumerate(sub._handlers)}
    got_idx = [pos[id(x)] for x in got]
    got_keys = [(hs[i]["func"], hs[i]["id"]) for i in got_idx]     # the FUNCTION and the id (the property's clause)
    rec.evaluations += 1
    rec.count("registry class", cls)
    if cls == "changing":
        rec.count("select: changing cause (reason / old state vs. new in the field)",
                  f"{st['r']}{'+initial' if st['i'] else ''} / " + ("no old state" if st["o"] is None else
                  "old == new" if doc_resolve(st["o"], FIELD) == doc_resolve(st["n"], FIELD) else "old != new"))
        for h in hs:
            if h["f"] is not None and h["v"] is not None and h["r"] in (None, st["r"]):
                rec.count("select: value= criterion x handler kind x old state",
                          f"{crit_kind(h['v'])} / {'update-like' if h['_fnc'] else 'resume' if h['_i'] else str(h['r'])} / "
                          + ("no old state" if st["o"] is None else "old state"))
    rec.count("selected per get_handlers", len(got_idx))
    dup_regs = len(hs) - len({(h["func"], h["id"]) for h in hs})
    rec.count("duplicate (function,id) registrations", dup_regs)
    rec.count("bound-method registrations", sum(1 for h in hs if h.get("_bound") is not None))
    rec.count("one function registered for several fields (ids by kopf)",
              max([0] + [len({tuple(h["f"]) for h in hs if h["func"] == f_ and h["f"]}) for f_ in {h["func"] for h in hs}]))
    replay = {"kind": "select", "case": case, "impl": got_idx}
    # oracle: invoked once; exactly the handlers whose declared criteria (and cause kind) hold
    if len(set(got_keys)) != len(got_keys):
        dups = {k for k in got_keys if got_keys.count(k) > 1}
        bound_only = all(hs[i].get("_bound") is not None for i in got_idx if (hs[i]["func"], hs[i]["id"]) in dups)
        rec.oracle_fail(f"one function registered under one id was selected twice: {sorted(dups)}", replay,
                        {"site": "registries._deduplicated", "shape": "bound method selected twice" if bound_only
                         else "duplicate (function, id) in get_handlers"})     # (C15-F7 is repaired: /repo c47dbbf)
    verdicts = [doc_match(h, st) for h in hs]
    if all(v is not None for v in verdicts):
        def want(dev: frozenset) -> set:
            return {(h["func"], h["id"]) for h in hs if h["id"] not in excluded
                    and (cls != "changing" or doc_gate(h, st)) and doc_match(h, st, dev)}
        if set(got_keys) != want(frozenset()):
            sig = next((s for dev, s in DEVIATIONS if set(got_keys) == want(dev)), None) or \
                {"site": f"{cls} registry get_handlers", "shape": "selected set differs from the handlers whose declared criteria hold"}
            rec.oracle_fail(f"get_handlers selected {sorted(got_keys)}, the declared criteria select {sorted(want(frozenset()))}",
                            replay, sig)
        # first registration wins among duplicates that all qualify (dedup keeps the first)
    else:
        rec.count("oracle", "undefined (select)")
    rec.nontrivial.add(f"select|{cls}|{len(hs)}|dup{dup_regs}|ex{len(excluded)}|{st['r']}{int(st['i'])}{int(st['m'])}|{len(got_idx)}")
    driver_reqs.append(["C15.select", "changing" if cls == "changing" else "plain", [lean_h(h) for h in hs], lean_c(st), sorted(excluded)])
    pending.append(("get_handlers positions", got_idx, replay))
    # requires_finalizer / prematch of the registry
    try:
        if cls in ("changing", "spawning"):
            rf = bool(sub.requires_finalizer(cause=cause, excluded=excluded) if cls == "spawning" else sub.requires_finalizer(cause=cause))
            driver_reqs.append(["C15.reqfin", cls, [lean_h(h) for h in hs], lean_c(st), sorted(excluded) if cls == "spawning" else []])
            pending.append((f"{cls} requires_finalizer", rf, replay))
        if cls == "changing":
            pm = bool(sub.prematch(cause=cause))
            driver_reqs.append(["C15.prematchAny", [lean_h(h) for h in hs], lean_c(st)])
            pending.append(("ChangingRegistry.prematch", pm, replay))
    except Exception as e:
        rec.oracle_fail(f"requires_finalizer()/prematch() raised {type(e).__name__}: {e}", replay,
                        {"site": f"{cls} registry requires_finalizer/prematch", "shape": f"raises {type(e).__name__}"})


def random_select_case(rng: random.Random) -> dict:
    cls = rng.choice(["changing"] * 5 + ["watching", "spawning", "indexing"])
    n = rng.randint(1, 6)
    handlers = []
    for _ in range(n):
        if handlers and rng.random() < 0.35:
            # register an already registered function again: same id (other criteria) or another id
            h0, k0, e0 = rng.choice(handlers)
            h, kind = random_decl(rng, cls)
            h["fn"], h["func"], h["_bound"] = h0["fn"], h0["func"], h0["_bound"]
            if rng.random() < 0.7:
                h["id"] = h0["id"]
                h["f"], h["v"], h["o"], h["n"] = (h0["f"], h0["v"], h0["o"], h0["n"]) if kind == k0 else (h["f"], h["v"], h["o"], h["n"])
                handlers.append((h, kind, True if e0 else rng.random() < 0.5))
            else:
                handlers.append((h, kind, True))
        else:
            h, kind = random_decl(rng, cls)
            handlers.append((h, kind, rng.random() < 0.6))
    # one function registered for TWO fields through two decorators, the ids left to kopf: "since the field name is part of
    # the handler id (e.g. "fn/spec.field"), multiple decorators can be defined to react to different fields with the
    # same function, and it will be invoked multiple times" (docs/filters.rst)
    og = ng = None
    twin = rng.random() < 0.2
    if twin:
        k_ = rng.randrange(len(handlers))
        h0, k0, _ = handlers[k_]
        if not h0["f"]:
            h0["f"] = FIELD
            h0["v"] = rng.choice(CRITS)
        h1 = dict(h0, f=FIELD2)
        if h0["v"] is None and k0 in ("update", "field"):
            h1["o"], h1["n"] = rng.choice(CRITS), rng.choice(CRITS)
        else:
            h1["v"] = rng.choice(CRITS)
        handlers[k_] = (h0, k0, False)
        handlers.insert(rng.randint(k_ + 1, len(handlers)), (h1, k0, False))
        og, ng = rng.choice(VALS), rng.choice(VALS)
    sp2 = lambda fv, gv: dict(spec_of(fv), **({} if gv is None else {"g": gv}))
    lv, av = rng.choice(VALS + ["x", ""]), rng.choice(VALS + ["x", ""])
    ov, nv = rng.choice(VALS + [NOOLD] + FALSY[:3]), rng.choice(VALS + FALSY)
    if cls == "changing":
        reason = rng.choice(["create"] * 3 + ["update"] * 3 + ["delete"] * 2 + ["resume"] * 2 + ["noop", "free", "gone"])
        initial = rng.random() < 0.5
        if rng.random() < 0.75:
            # as causes.detect_changing_cause builds them: a creation has no old state and is never initial; an
            # update has an old state that differs; resume/no-op have an unchanged one; a deletion has any
            # (never handled before: none; else the last-handled one, often differing from the current one)
            if reason == "create":
                ov, initial = NOOLD, False
            elif reason in ("resume", "noop"):
                ov = rng.choice([v for v in VALS + FALSY[:3]]) if ov == NOOLD else ov
                nv = ov
                initial = reason == "resume"
            elif reason == "update":
                ov = rng.choice([v for v in VALS + FALSY[:3] if v != nv]) if ov == NOOLD or ov == nv else ov
            elif reason == "delete" and rng.random() < 0.7:
                ov = rng.choice([v for v in VALS + FALSY[:3] if v != nv]) if ov == NOOLD or ov == nv else ov
        if reason == "update" and rng.random() < 0.1:      # old/new that Python equates and JSON does not (/repo 8d1358b)
            ov, nv = rng.choice(TWINS[:7])
        if twin and reason in ("resume", "noop"):
            og = ng
        st = state(cls, labels={} if lv is None else {LK: lv}, annotations={} if av is None else {AK: av},
                   body_extra={"spec": sp2(nv, ng)}, old=None if ov == NOOLD else {"spec": sp2(ov, og)}, new={"spec": sp2(nv, ng)},
                   reason=reason, initial=initial, marked=reason == "delete" or rng.random() < 0.15)
    else:
        st = state(cls, labels={} if lv is None else {LK: lv}, annotations={} if av is None else {AK: av},
                   body_extra={"spec": sp2(nv, ng)})
    ids_ = sorted({(h["id"] if e else (f"Env.__init__.<locals>.Ops.m{h['_bound']}" if h.get("_bound") is not None else f"fn{h['fn']}"))
                   + ("/" + ".".join(h["f"]) if h["f"] and cls != "indexing" else "") for h, _, e in handlers})
    excluded = [i for i in ids_ if rng.random() < 0.25] if cls != "changing" or rng.random() < 0.3 else []
    return {"cls": cls, "handlers": handlers, "state": st, "excluded": excluded}


KIND_SWEEP_VCRITS: list = [None, "A", "P", {"v": "x"}, {"cb": "is_x"}, {"cb": "is_none"}]


def kind_value_sweep() -> list[dict]:
    """every handler kind (on.create/update/delete/resume/field) x value= criterion (none, ABSENT, PRESENT,
    literal, callbacks) registered through kopf.on.* alone in a registry, against every cause shape
    causes.detect_changing_cause can build over the field alphabet: creations (no old state), updates
    (old != new, also first-seen = initial), deletions (never handled: no old state; else any old state,
    equal or not), resuming (old == new). Both tiers, complete."""
    vals: list = [None, "x", "y"]
    sts: list[dict] = []

    def st(ov: Any, nv: Any, reason: str, initial: bool = False, marked: bool = False) -> dict:
        return state("changing", body_extra={"spec": spec_of(nv)}, old=None if ov == NOOLD else {"spec": spec_of(ov)},
                     new={"spec": spec_of(nv)}, reason=reason, initial=initial, marked=marked)
    for nv in vals:
        sts.append(st(NOOLD, nv, "create"))
        sts.append(st(nv, nv, "resume", initial=True))
        for ov in vals:
            if ov != nv:
                sts += [st(ov, nv, "update"), st(ov, nv, "update", initial=True)]
        for ov in vals + [NOOLD]:
            sts.append(st(ov, nv, "delete", marked=True))
    cases = []
    for kind, k in DECL_KIND.items():
        for v in KIND_SWEEP_VCRITS:
            h = hspec("changing", id="h", f=FIELD, v=v, fnc=k["fnc"], r=k["r"], i=k["i"] or None,
                      rf=True if kind == "delete" else None, d=True if kind == "resume" else None)
            cases += [{"cls": "changing", "handlers": [(h, kind, True)], "state": x, "excluded": []} for x in sts]
    return cases


def run_dedup_case(env: Env, rec: Rec, keys: list[list], driver_reqs: list, pending: list) -> None:
    hs = [env.handler(hspec("changing", fn=f, id=i)) for f, i in keys]
    got = list(env.registries._deduplicated(hs))
    pos = {id(x): k for k, x in enumerate(hs)}
    idx = [pos[id(x)] for x in got]
    rec.evaluations += 1
    replay = {"kind": "dedup", "keys": keys, "impl": idx}
    kept = [tuple(keys[k]) for k in idx]
    first = [k for k in range(len(keys)) if tuple(keys[k]) not in [tuple(x) for x in keys[:k]]]
    if len(set(kept)) != len(kept) or set(kept) != {tuple(k) for k in keys} or idx != first:
        rec.oracle_fail("_deduplicated does not keep exactly the first registration of every (fn, id)", replay,
                        {"site": "registries._deduplicated", "shape": "not first-of-each-(fn,id)"})
    rec.nontrivial.add(f"dedup|{len(keys)}|{len(idx)}")
    rec.count("dedup removed", len(keys) - len(idx))
    driver_reqs.append(["C15.dedup", keys])
    pending.append(("_deduplicated positions", idx, replay))


# =============================================================================================
# (D) sub-registries: the handlers `@kopf.subhandler` / `kopf.register` / `kopf.execute(fns=...)` make
# inside a running parent handler, selected by the same ChangingRegistry.get_handlers (finding C15-F8)
# =============================================================================================
SUB_VIAS = ("subhandler", "register", "execute-list", "execute-dict")
FINDING_SUB_SITE = "changing sub-registry get_handlers (subhandling.execute)"
SIG_SUB_MISSING = {"site": FINDING_SUB_SITE, "shape": "sub-handlers whose declared criteria hold are not selected"}
SIG_SUB_EXTRA = {"site": FINDING_SUB_SITE, "shape": "sub-handler selected although a declared criterion fails"}
SIG_SUB_INVOKED = {"site": "subhandling.execute", "shape": "the sub-handlers invoked are not the selected ones"}
PARENT_KINDS = ("create", "update", "delete", "resume", "field")


def sub_spec(parent_kind: str, via: str, *, fn: int = 0, id: str | None = None, l: Any = None, a: Any = None, w: Any = None,
             f: Any = None, v: Any = None, o: Any = None, n: Any = None, behave: str | None = None) -> dict:
    """a sub-handler declaration: what kopf is expected to build from it -- no selector, no reason, not
    resuming, no finalizer; `field_needs_change` inherited from the parent by @kopf.subhandler /
    kopf.register ("inherit dynamically"), none for kopf.execute(fns=...). Filters: all of them through
    @kopf.subhandler, labels/annotations/when through kopf.register, none through kopf.execute(fns=...)."""
    if via == "register":
        f = v = o = n = None
    if via.startswith("execute"):
        l = a = w = f = v = o = n = None
    fnc = DECL_KIND[parent_kind]["fnc"] if via in ("subhandler", "register") else False
    if behave == "temp":
        fn = 9                     # the one sub-handler function that asks to be retried
    h = hspec("changing", fn=fn, id=id or "", sel=None, l=l, a=a, w=w, f=f, v=v, o=o, n=n, fnc=fnc or None)
    h["_sub"] = {"parent": parent_kind, "via": via}
    h["_id"] = id                  # None: kopf generates it from the function's name
    if behave:
        h["_behave"] = behave
    return h


def make_parent_fn(env: Env, n_: Any, fn_index: int, subs: list[dict], via: str, explicit: bool) -> Callable[..., Any]:
    """a handler function that declares its sub-handlers the way the docs show, inside its own run"""
    kopf = env.kopf

    def sub_fn(sp: dict) -> Any:
        return env.sub_temp if sp.get("_behave") == "temp" else env.subfns[sp["fn"] % len(env.subfns)]

    async def parent(**kw: Any) -> None:
        env.calls.append((fn_index, kw.get("param")))
        env.subtrace.append(("P", n_))
        if via in ("subhandler", "register"):
            for k, sp in enumerate(subs):
                common = dict(id=sp["_id"], param=("sub", n_, k), labels=env.pattern(sp["l"]), annotations=env.pattern(sp["a"]),
                              when=env.when(sp["w"]))
                if via == "subhandler":
                    kopf.subhandler(**common, field=None if sp["f"] is None else ".".join(sp["f"]), value=env.vcrit(sp["v"]),
                                    old=env.vcrit(sp["o"]), new=env.vcrit(sp["n"]))(sub_fn(sp))
                else:
                    kopf.register(sub_fn(sp), **common)
            if explicit:
                await kopf.execute()
        elif via == "execute-list":
            await kopf.execute(fns=[sub_fn(sp) for sp in subs])
        elif via == "execute-dict":
            await kopf.execute(fns={sp["_id"]: sub_fn(sp) for sp in subs})
        else:
            raise ValueError(via)
    parent.__name__ = parent.__qualname__ = f"fn{fn_index}"
    return parent


class SubSpy:
    """records every get_handlers() of a ChangingRegistry other than the operator's own (= a sub-registry)"""
    def __init__(self, env: Env, top: Any) -> None:
        self.env, self.top = env, top
        self.cls = env.registries.ChangingRegistry

    def __enter__(self) -> "SubSpy":
        base = self.env.registries.ResourceRegistry.get_handlers
        env, top = self.env, self.top

        def get_handlers(self_: Any, cause: Any, excluded: Any = frozenset()) -> Any:
            r = base(self_, cause=cause, excluded=excluded)
            if self_ is not top:
                env.subtrace.append(("G", self_, list(r), cause))
            return r
        self.cls.get_handlers = get_handlers
        return self

    def __exit__(self, *_: Any) -> None:
        del self.cls.get_handlers          # back to the inherited ResourceRegistry.get_handlers


def split_subtrace(trace: list) -> dict:
    """("P", n) … until the next ("P", ·): the sub-registry consulted and the sub-handler functions run"""
    out: dict[Any, dict] = {}
    cur: Any = None
    for e in trace:
        if e[0] == "P":
            cur = e[1]
            out[cur] = {"registries": [], "ran": []}
        elif cur is not None and e[0] == "G":
            out[cur]["registries"].append((e[1], e[2], e[3]))
        elif cur is not None and e[0] == "S":
            out[cur]["ran"].append((e[1], e[2]))
    return out


def judge_subs(env: Env, rec: Rec, *, parent_kind: str, via: str, subs: list[dict], seen: dict | None, st: dict, judged: bool,
               replay: dict, reqs: list, pending: list, n_: Any, released: bool | None = None, parent_field: bool = False,
               parent_id: str | None = None) -> None:
    """one run of a parent with sub-handlers: the real sub-registry against the declarations (decorator tie),
    the selected sub-handlers against the oracle (both directions) and the model, the invoked against the
    selected."""
    # the first get_handlers() after the parent started is on its own sub-registry (execute() selects before it
    # invokes); later ones are the (empty) sub-sub-registries of the sub-handlers, each run in its own
    # subhandling_context, and the implicit execute() after an explicit kopf.execute(fns=...)
    if seen is None or not seen["registries"] or any(len(x[0]._handlers) for x in seen["registries"][1:]):
        rec.oracle_fail(f"the parent ran but its sub-registry was consulted {0 if seen is None else len(seen['registries'])} times "
                        f"(kopf.execute / the implicit execution after the handler)", replay,
                        {"site": "subhandling.execute", "shape": "sub-registry not consulted exactly once per run of the parent"})
        return
    subreg, selected, seen_cause = seen["registries"][0]
    # the cause the sub-handlers are selected for is the parent's ADJUSTED one (handlers.adjust_cause): for a
    # parent with field=, old/new are narrowed to that field's values (scalars, or None when absent)
    jj = lambda x: None if x is None else json.loads(json.dumps(x if not hasattr(x, "keys") else dict(x)))
    if parent_field:
        st = dict(st, o=jj(seen_cause.old), n=jj(seen_cause.new))
    reals = list(subreg._handlers)
    if len(reals) != len(subs):
        rec.oracle_fail(f"{len(subs)} sub-handlers declared, {len(reals)} registered", replay,
                        {"site": "subhandling", "shape": "sub-registry size differs from the declarations"})
        return
    hs = []
    for k, (sp, real) in enumerate(zip(subs, reals)):
        h = dict(sp, id=str(real.id))
        if parent_id is not None:      # the documented id: under the parent's, the function's name unless id= is given, plus the field
            fn_ = env.sub_temp if sp.get("_behave") == "temp" else env.subfns[sp["fn"] % len(env.subfns)]
            # (no field in a sub-handler's id: the docs promise it for the kopf.on.* decorators only, and two registrations
            # of one function under one id in one parent are "registered twice under the same id": invoked once)
            h["id"] = doc_id(env, dict(sp, id=sp["_id"], f=None), sp["_id"] is not None and via != "execute-list", prefix=parent_id, fn=fn_)
            rec.compare(f"sub-handler via {via} in on.{parent_kind} → handler id", str(real.id), h["id"], {"input": replay})
        check_decorated(env, rec, real, h, f"sub-handler via {via} in on.{parent_kind}")
        if real.selector is not None:
            rec.tie_fail("a sub-handler has a selector", {"input": replay})
        hs.append(h)
    pos = {id(x): i for i, x in enumerate(reals)}
    got_idx = [pos[id(x)] for x in selected]
    got_keys = [(hs[i]["func"], hs[i]["id"]) for i in got_idx]
    rec.count("sub-registry: parent kind x made by", f"on.{parent_kind} x {via}")
    rec.count("sub-registry: cause", f"{st['r']}{'+initial' if st['i'] else ''}{' marked' if st['m'] else ''}")
    rec.count("sub-registry: declared / selected", f"{len(subs)} / {len(got_idx)}")
    for h in hs:
        rec.count("sub-handler filters", "none" if is_catchall(h) else "+".join(
            x for x, on in (("labels", h["l"]), ("annotations", h["a"]), ("when", h["w"] is not None), ("field", h["f"])) if on))
    if len(set(got_keys)) != len(got_keys):
        rec.oracle_fail(f"one function registered under one id was selected twice in a sub-registry: {got_keys}", replay,
                        {"site": "registries._deduplicated", "shape": "duplicate (function, id) in get_handlers"})
    # invoked = selected (all-at-once, nothing recorded on the object yet): by (function, param)
    want_ran = sorted(((("temp" if hs[i].get("_behave") == "temp" else hs[i]["fn"] % len(env.subfns)),
                        ("sub", n_, i) if via in ("subhandler", "register") else None) for i in got_idx), key=repr)
    ran = sorted(seen["ran"], key=repr)
    if ran != want_ran:
        rec.oracle_fail(f"sub-handlers selected: {want_ran}, invoked: {ran}", replay, SIG_SUB_INVOKED)
    # field filters of a sub-handler under a parent that has a field itself are read against the narrowed
    # old/new: the docs say nothing about that combination -- those sub-handlers are tied, not judged
    jhs = [h for h in hs if not (parent_field and h["f"])]
    if len(jhs) != len(hs):
        rec.count("oracle", "not judged (field filter of a sub-handler under a parent with field=)", len(hs) - len(jhs))
    jkeys = {(h["func"], h["id"]) for h in jhs}
    verdicts = [doc_match(h, st) for h in jhs]
    if not judged:
        rec.count("oracle", "undefined (sub-registry of a parent that does not run for this cause)")
    elif any(v is None for v in verdicts):
        rec.count("oracle", "undefined (sub-select)")
    else:
        def want(dev: frozenset) -> set:
            return {(h["func"], h["id"]) for h in jhs if doc_gate(h, st) and doc_match(h, st, dev)}
        got, exp = set(got_keys) & jkeys, want(frozenset())
        rec.count("oracle", "agrees (sub-select)" if got == exp else "DIFFERS (sub-select)")
        if got != exp:
            sig = next((sg for dev, sg in DEVIATIONS if got == want(dev)), None) or \
                (SIG_SUB_MISSING if got < exp else SIG_SUB_EXTRA)
            tail = "" if not released else "; the finalizer was released in the same cycle, without their work"
            rec.oracle_fail(f"sub-handlers of an on.{parent_kind} handler on a {st['r']}{' (marked)' if st['m'] else ''} cause: selected "
                            f"{sorted(got)}, the declared criteria select {sorted(exp)}{tail}", replay, sig)
    rec.nontrivial.add(f"subselect|{parent_kind}|{via}|{len(hs)}|{st['r']}{int(st['i'])}{int(st['m'])}|{len(got_idx)}|"
                       + ",".join(sorted({h_kinds(h) for h in hs})))
    reqs.append(["C15.select", "changing", [lean_h(h) for h in hs], lean_c(st), []])
    pending.append(("sub-registry get_handlers positions", got_idx, replay))


def cause_constructible(st: dict) -> bool:
    """causes.detect_changing_cause never pairs a deletion mark with a non-deletion reason"""
    return (not st["m"]) or st["r"] in ("delete", "free", "gone")


async def run_subselect_case(env: Env, rec: Rec, case: dict, reqs: list, pending: list) -> None:
    """the parent handler is RUN by kopf (execution.execute_handlers_once in subhandling_context, as
    process_changing_cause does) for the given cause, whether it would be selected for it or not; it
    declares its sub-handlers through the public API; kopf selects and invokes them. Judged by the oracle
    iff the parent itself runs for this cause by the documented reading (cause kind + its own filters)."""
    import warnings
    ph, pkind = case["parent"]
    ph = dict(ph)
    ph.setdefault("func", ph["fn"])
    ph.setdefault("_bound", None)
    subs, via, st = case["subs"], case["via"], case["state"]
    registry = env.registries.OperatorRegistry()
    fn = make_parent_fn(env, "p", ph["fn"], subs, via, bool(case.get("explicit")))
    env.calls.clear()
    env.subtrace.clear()
    with warnings.catch_warnings():
        warnings.simplefilter("ignore")
        parent = env.decorate(registry, ph, pkind, explicit_id=True, fn_override=fn)
        cause = env.cause(st)
        state = env.progression.State.from_scratch().with_purpose(cause.reason).with_handlers([parent])
        with SubSpy(env, registry._changing):
            outcomes = await env.execution.execute_handlers_once(
                lifecycle=env.lifecycles.all_at_once, settings=env.settings, handlers=[parent], cause=cause, state=state,
                extra_context=env.subhandling.subhandling_context)
    rec.evaluations += 1
    replay = {"kind": "subselect", "case": case}
    out = outcomes.get(parent.id)
    temp = any(sp.get("_behave") == "temp" for sp in subs)
    if out is not None and out.exception is not None and not temp:
        rec.oracle_fail(f"selecting or running the sub-handlers raised {type(out.exception).__name__}: {out.exception}", replay,
                        {"site": FINDING_SUB_SITE, "shape": f"raises {type(out.exception).__name__}"})
        return
    if out is None:
        raise RuntimeError(f"harness: the parent handler did not run: {out!r}")
    pv = doc_match(ph, st)
    judged = bool(pv) and doc_gate(ph, st) and cause_constructible(st)
    seen = split_subtrace(env.subtrace).get("p")
    judge_subs(env, rec, parent_kind=pkind, via=via, subs=subs, seen=seen, st=st, judged=judged, replay=replay,
               reqs=reqs, pending=pending, n_="p", parent_field=bool(ph["f"]), parent_id=doc_id(env, ph, True))


def sub_states() -> list[dict]:
    """every cause reason (as detect_changing_cause builds them: deletion reasons on marked bodies) x label"""
    out = []
    for lv in (None, "x"):
        def st(reason: str, initial: bool = False, marked: bool = False, ov: Any = "x", nv: Any = "x") -> dict:
            return state("changing", labels={} if lv is None else {LK: lv}, body_extra={"spec": spec_of(nv)},
                         old=None if ov == NOOLD else {"spec": spec_of(ov)}, new={"spec": spec_of(nv)}, reason=reason,
                         initial=initial, marked=marked)
        out += [st("create", ov=NOOLD), st("update", ov="y"), st("update", initial=True, ov="y"), st("resume", initial=True),
                st("noop"), st("delete", marked=True), st("delete", marked=True, ov=NOOLD), st("delete", initial=True, marked=True),
                st("free", marked=True), st("gone", marked=True),
                st("update", marked=True, ov="y")]        # (not constructible: tie only)
    return out


def sub_sweep() -> list[dict]:
    """parents of every kind (on.resume with and without deleted=True) x every way of making sub-handlers
    x every cause reason incl. DELETE on a marked body x {no filter, labels=, when=false, field/value}.
    Complete, both tiers."""
    cases = []
    for pkind in PARENT_KINDS:
        k = DECL_KIND[pkind]
        for d in ([None, True] if pkind == "resume" else [None]):
            ph = hspec("changing", id="par", f=FIELD if pkind == "field" else None, fnc=k["fnc"], r=k["r"], i=k["i"] or None,
                       rf=True if pkind == "delete" else None, d=d)
            for via in SUB_VIAS:
                subs = [sub_spec(pkind, via, fn=0, id="a"), sub_spec(pkind, via, fn=1, id="b", l=pat(LK, "P")),
                        sub_spec(pkind, via, fn=2, id="c", w=False), sub_spec(pkind, via, fn=3, id="d", f=FIELD, v={"v": "x"})]
                for st in sub_states():
                    cases.append({"parent": [ph, pkind], "via": via, "explicit": False, "subs": subs, "state": st})
    return cases


def random_subselect_case(rng: random.Random) -> dict:
    pkind = rng.choice(PARENT_KINDS + ("delete", "delete", "create"))
    k = DECL_KIND[pkind]
    small = [None, None, None, {"v": "x"}, "P", "A", {"cb": "is_x"}]
    ph = hspec("changing", fn=rng.randrange(3), id="par", sel=rng.choice([PLURAL] * 6 + ["others"]),
               l=pat(LK, rng.choice(small)) if rng.random() < 0.3 else None, w=rng.choice([None, None, None, True, False]),
               f=FIELD if pkind == "field" else None, fnc=k["fnc"], r=k["r"], i=k["i"] or None,
               rf=(rng.random() < 0.7) if pkind == "delete" else None, d=rng.choice([None, True, True]) if pkind == "resume" else None)
    via = rng.choice(SUB_VIAS + ("subhandler", "subhandler"))
    subs: list[dict] = []
    for j in range(rng.choice([0, 1, 2, 2, 2, 3, 4])):
        if subs and rng.random() < 0.25:      # the same function again: under the same id (dedup) or another one
            s0 = rng.choice(subs)
            fn, sid = s0["fn"], (s0["_id"] if rng.random() < 0.6 else f"s{j}")
        else:
            fn, sid = rng.randrange(5), rng.choice([f"s{j}", f"s{j}", None])
        if via == "execute-dict":
            sid = f"s{j}"                     # a mapping: one entry per id
        f = FIELD if rng.random() < 0.3 else None
        v = o = n = None
        if f and k["fnc"] and rng.random() < 0.4:
            o, n = rng.choice(CRITS), rng.choice(CRITS)
        elif f:
            v = rng.choice(CRITS + FCRITS[6:8])
        subs.append(sub_spec(pkind, via, fn=fn, id=sid, l=pat(LK, rng.choice(small)), a=pat(AK, rng.choice(small)),
                             w=rng.choice([None, None, None, True, True, False]), f=f, v=v, o=o, n=n))
    lv, av = rng.choice(VALS + ["x"]), rng.choice(VALS + ["x"])
    ov, nv = rng.choice(VALS + [NOOLD]), rng.choice(VALS)
    reason = rng.choice(["create"] * 2 + ["update"] * 3 + ["delete"] * 5 + ["resume"] * 2 + ["noop", "free", "gone"])
    if rng.random() < 0.5:
        reason = k["r"] or reason             # the parent's own cause kind
    initial = rng.random() < 0.5
    if reason == "create":
        ov, initial = NOOLD, False
    elif reason in ("resume", "noop"):
        ov = nv if ov == NOOLD or rng.random() < 0.9 else ov
        initial = reason == "resume"
    elif reason == "update" and (ov == NOOLD or ov == nv):
        ov = rng.choice([x for x in VALS if x != nv])
    marked = reason in ("delete", "free", "gone") if rng.random() < 0.93 else rng.random() < 0.5
    if rng.random() < 0.65:
        # a cause the parent itself runs for (else the sub-registry is only tied, not judged)
        ph.update(_sel=PLURAL, sel=True, l=None, w=None)
        reason = k["r"] or rng.choice(["update", "update", "create", "delete", "resume"] if pkind == "field" else
                                      ["resume", "resume", "update", "delete", "delete"])
        initial = pkind == "resume" or (reason != "create" and rng.random() < 0.3)
        marked = reason == "delete"
        if pkind == "resume" and marked:
            ph.update(_d=True, d=True)
        if pkind == "field" and marked:
            reason, marked = "update", False
        if reason == "create":
            ov, initial = NOOLD, False
            nv = nv if pkind != "field" or nv is not None else "x"
        elif reason == "resume":
            ov = nv
        elif reason == "update" or pkind == "field":
            ov = rng.choice([x for x in VALS if x != nv])
    st = state("changing", labels={} if lv is None else {LK: lv}, annotations={} if av is None else {AK: av},
               body_extra={"spec": spec_of(nv)}, old=None if ov == NOOLD else {"spec": spec_of(ov)}, new={"spec": spec_of(nv)},
               reason=reason, initial=initial, marked=marked)
    return {"parent": [ph, pkind], "via": via, "explicit": via in ("subhandler", "register") and rng.random() < 0.3,
            "subs": subs, "state": st}


# =============================================================================================
# (D) the resource selector: references.Selector(<notation>).check(resource)
# =============================================================================================
SEL_RESOURCES = [
    dict(group="kopf.dev", version="v1", plural="kopfexamples", kind="KopfExample", singular="kopfexample", shortcuts=["kex"], categories=["all", "kopf"], preferred=True),
    dict(group="kopf.dev", version="v1beta1", plural="kopfexamples", kind="KopfExample", singular="kopfexample", shortcuts=["kex"], categories=["all", "kopf"], preferred=False),
    dict(group="zalando.org", version="v1", plural="kopfexamples", kind="KopfExample", singular="kopfexample", shortcuts=[], categories=[], preferred=True),
    dict(group="", version="v1", plural="pods", kind="Pod", singular="", shortcuts=["po"], categories=["all"], preferred=True),
    dict(group="apps", version="v1", plural="deployments", kind="Deployment", singular="", shortcuts=["deploy"], categories=["all"], preferred=True),
    dict(group="", version="v1", plural="events", kind="Event", singular="", shortcuts=["ev"], categories=[], preferred=True),
    dict(group="events.k8s.io", version="v1", plural="events", kind="Event", singular="", shortcuts=["ev"], categories=[], preferred=True),
    dict(group="events.k8s.io", version="v1beta1", plural="events", kind="Event", singular="", shortcuts=["ev"], categories=[], preferred=False),
    dict(group="metrics.k8s.io", version="v1beta1", plural="pods", kind="PodMetrics", singular="", shortcuts=[], categories=[], preferred=True),
    dict(group="example.com", version="v2", plural="things", kind=None, singular=None, shortcuts=[], categories=["kopf"], preferred=True),
]
SEL_CALLABLES: dict[str, Callable[[Any], bool]] = {
    "true": lambda r: True, "false": lambda r: False,
    "kex_preferred": lambda r: r.plural == "kopfexamples" and r.preferred,
    "core": lambda r: r.group == "",
    "in_widgets": lambda r: "widgets" in r.categories,
}
EVERYTHING = "*EVERYTHING*"
K8S_VERSION = re.compile(r"v\d+(?:(?:alpha|beta)\d+)?")      # "v1", "v1beta1", "v2alpha3": Kubernetes' API version names


def selector_notations() -> list[dict]:
    """the notations docs/resources.rst describes; positional entries: strings, EVERYTHING, {"fn": name}"""
    out: list[dict] = []
    for name in ("kopfexamples", "kopfexample", "KopfExample", "kex", "pods", "pod", "Pod", "events", "deployments", "things", "nothing"):
        out.append({"args": [name], "kw": {}})
    out += [{"args": a, "kw": {}} for a in (
        ["kopf.dev", "v1", "kopfexamples"], ["kopf.dev/v1", "kopfexamples"], ["kopf.dev", "v1beta1", "kex"], ["kopf.dev/v2", "kopfexamples"],
        ["apps", "v1", "deployments"], ["apps/v1", "deployments"], ["", "v1", "pods"], ["v1", "pods"], ["v1", "events"], ["v1", "kopfexamples"],
        ["kopf.dev", "kopfexamples"], ["apps", "deployments"], ["zalando.org", "kopfexamples"], ["events.k8s.io", "events"], ["metrics.k8s.io", "pods"],
        ["kopfexamples.kopf.dev"], ["deployments.apps"], ["pods.metrics.k8s.io"], ["kopfexamples.zalando.org"],
        # kubectl's `name.version[.group]` ("pods.v1  # GOOD, specific", `pods.v1beta1.metrics.k8s.io` in docs/resources.rst)
        ["pods.v1"], ["events.v1"], ["kopfexamples.v1"], ["kopfexamples.v1.kopf.dev"], ["kopfexamples.v1beta1.kopf.dev"],
        ["kex.v1.kopf.dev"], ["kopfexamples.v2.kopf.dev"], ["deployments.v1.apps"], ["pods.v1beta1.metrics.k8s.io"],
        ["events.v1.events.k8s.io"], ["kopfexamples.v1.zalando.org"], ["things.v2.example.com"], ["pods.v1beta1"],
        ["kopf.dev", "v1", EVERYTHING], ["kopf.dev/v1", EVERYTHING], ["kopf.dev", EVERYTHING], ["v1", EVERYTHING], ["events.k8s.io", EVERYTHING],
        ["events.k8s.io/v1beta1", EVERYTHING], [EVERYTHING])]
    out += [{"args": [], "kw": kw} for kw in (
        {"kind": "KopfExample"}, {"plural": "kopfexamples"}, {"singular": "kopfexample"}, {"shortcut": "kex"}, {"kind": "Pod"}, {"plural": "events"},
        {"group": "kopf.dev", "plural": "kopfexamples"}, {"group": "kopf.dev", "version": "v1", "plural": "kopfexamples"},
        {"group": "kopf.dev", "version": "v1beta1", "kind": "KopfExample"}, {"group": "zalando.org", "shortcut": "kex"},
        {"category": "all"}, {"category": "kopf"}, {"category": "nothing"}, {"group": "kopf.dev", "category": "all"}, {"version": "v1", "category": "all"})]
    for fn in SEL_CALLABLES:
        out.append({"args": [{"fn": fn}], "kw": {}})
        out.append({"args": [{"fn": fn}], "kw": {"group": "kopf.dev"}})
    out.append({"args": [{"fn": "true"}], "kw": {"version": "v1"}})
    out.append({"args": [{"fn": "true"}], "kw": {"group": "events.k8s.io"}})
    return out


def _named_as(r: dict, n: str) -> bool:
    """'it can be any name: plural, singular, kind, or a short name'"""
    return n == r["plural"] or n == r["singular"] or n == r["kind"] or n in r["shortcuts"]


def doc_selector(decl: dict, r: dict, dev: frozenset = frozenset()) -> bool:
    """docs/resources.rst, read from the *notation* (independently of Selector.__post_init__)"""
    args, kw = decl["args"], decl["kw"]
    group, version = kw.get("group"), kw.get("version")
    name: Any = None
    fn = None
    if args and isinstance(args[0], dict):                       # "a single positional callback"
        fn = SEL_CALLABLES[args[0]["fn"]]
    elif args:
        name = args[-1]                                          # "the rightmost positional value"
        rest = args[:-1]
        if len(rest) == 2:
            group, version = rest
        elif len(rest) == 1 and "/" in rest[0]:
            group, version = rest[0].rsplit("/", 1)
        elif len(rest) == 1 and rest[0] == "v1":                 # "equivalent to an empty API group name"
            group, version = "", "v1"
        elif len(rest) == 1:
            group = rest[0]                                      # "treated as an API group"
        elif name != EVERYTHING and "." in name and K8S_VERSION.fullmatch(name.split(".")[1]):
            # kubectl's semantics: name.version.group; for `name.version` alone the docs give one example, "pods.v1",
            # beside `('v1', 'pods')`: whether a missing group means the core group ("v1 ... is equivalent to an empty
            # API group name") or any group is not said -- `dev` "name_version_is_core" switches to the former
            parts = name.split(".", 2)
            name, version = parts[0], parts[1]
            group = parts[2] if len(parts) > 2 else ("" if "name_version_is_core" in dev and version == "v1" else group)
        elif name != EVERYTHING and "." in name:                 # kubectl's semantics: name.group
            name, group = name.split(".", 1)
    if group is not None and r["group"] != group:
        return False
    if version is not None and r["version"] != version:
        return False
    if version is None and fn is None and not r["preferred"]:    # "the preferred API version … is used"; not for callables
        return False
    if "kind" in kw and r["kind"] != kw["kind"] or "plural" in kw and r["plural"] != kw["plural"] \
            or "singular" in kw and r["singular"] != kw["singular"] or "shortcut" in kw and kw["shortcut"] not in r["shortcuts"] \
            or "category" in kw and kw["category"] not in r["categories"]:
        return False
    core_events = r["group"] == "" and r["version"] == "v1" and _named_as(r, "events")
    excluded = core_events or ("events_k8s" in dev and r["group"] == "events.k8s.io" and r["preferred"] and _named_as(r, "events"))
    if name == EVERYTHING:
        return not excluded                                      # "Core v1 events are excluded from EVERYTHING"
    if name is not None:
        return _named_as(r, name)
    if fn is not None:                                           # "and from callable selectors regardless of what the function returns"
        class _R:
            pass
        rr = _R()
        rr.__dict__.update(r)
        return bool(fn(rr)) and not excluded
    return True


def run_selectors(env: Env, rec: Rec, reqs: list, pending: list) -> None:
    R = env.references
    real_res = [R.Resource(group=r["group"], version=r["version"], plural=r["plural"], kind=r["kind"], singular=r["singular"],
                           shortcuts=frozenset(r["shortcuts"]), categories=frozenset(r["categories"]), preferred=r["preferred"])
                for r in SEL_RESOURCES]
    decls = selector_notations()
    fixed = [("references.EVENTS", R.EVENTS), ("references.EVENTS_K8S", R.EVENTS_K8S)]
    for decl in decls + [{"obj": name} for name, _ in fixed]:
        if "obj" in decl:
            sel = dict(fixed)[decl["obj"]]
        else:
            args = [R.EVERYTHING if a == EVERYTHING else (SEL_CALLABLES[a["fn"]] if isinstance(a, dict) else a) for a in decl["args"]]
            sel = R.Selector(*args, **decl["kw"])
        an = sel.any_name
        fields = {k: getattr(sel, k) for k in ("group", "version", "kind", "plural", "singular", "shortcut", "category")}
        fields["any"] = None if an is None else ("*" if an is R.EVERYTHING else {"n": an})
        row = ""
        for r, rr in zip(SEL_RESOURCES, real_res):
            got = bool(sel.check(rr))
            row += "1" if got else "0"
            rec.evaluations += 1
            rec.count("selector.check", got)
            rec.nontrivial.add(f"sel|{leanio.canon(decl)}|{r['group']}/{r['version']}/{r['plural']}|{int(got)}")
            if "obj" not in decl and doc_selector(decl, r) != doc_selector(decl, r, frozenset({"name_version_is_core"})):
                rec.count("oracle", "not judged (selector `name.v1` without a group: the core group or any group?)")
            elif "obj" not in decl:
                want = doc_selector(decl, r)
                if got != want and doc_selector(decl, r, frozenset({"events_k8s"})) == got:
                    # OBSERVATION, not a finding (docs-only): the code's exclusion of the Event kind from
                    # EVERYTHING / callable selectors also covers its newer API group events.k8s.io, which
                    # docs/resources.rst does not mention (Lean: selector_gap_events_k8s_witness;
                    # proposals/fix-C15F4.diff is a docs patch). Counted, reported in the evidence.
                    rec.count("observations", "Selector: events.k8s.io events skipped by EVERYTHING/callable (docs name core v1 only)")
                elif got != want:
                    sig = {"site": "references.Selector.check", "shape": "selects a resource the documented notation does not" if got else "does not select a resource the documented notation selects"}
                    rec.oracle_fail(f"Selector{tuple(decl['args'])}{decl['kw']}.check({r['group']}/{r['version']}/{r['plural']}) = {got}, documented: {want}",
                                    {"kind": "selector", "decl": decl, "resource": r, "impl": got}, sig)
            if sel.fn is not None:     # the model's callable is its value on this resource
                reqs.append(["C15.selcheck", [dict(fields, fn=bool(sel.fn(rr)))], [r]])
                pending.append(("Selector.check", "1" if got else "0", {"kind": "selector", "decl": decl, "resource": r}))
        if sel.fn is None:
            reqs.append(["C15.selcheck", [dict(fields, fn=None)], SEL_RESOURCES])
            pending.append(("Selector.check (row over the resources)", row, {"kind": "selector", "decl": decl, "resources": "SEL_RESOURCES"}))


# =============================================================================================
# the resource selector among the cluster's resources: docs/resources.rst, "Ambiguous resource selectors" -- a
# specification that names a resource and matches resources of 2+ API groups serves none of them, except that core
# v1 has priority ("just "pods" can be specified and the intention will be understood"). The code applies that when it
# chooses what to WATCH (Selector.select, C19's subject); handlers are selected per resource by Selector.check alone:
# when the other resource is watched anyway (for a category / EVERYTHING / callable selector of another handler), the
# handler declared for "pods" also runs for pods.metrics.k8s.io (finding C15-F11)
# =============================================================================================
FINDING_SERVED = {"site": "registries._matches_resource", "shape": "a handler runs for a resource that its selector does not select among the cluster's resources",
                  "what": "core-v1 priority / the ambiguity rule is applied to what is watched (Selector.select), not to which handlers run (Selector.check)"}
SERVED_DECLS: list = [{"args": ["pods"], "kw": {}}, {"args": ["v1", "pods"], "kw": {}}, {"args": ["pods.metrics.k8s.io"], "kw": {}},
                      {"args": ["kopfexamples"], "kw": {}}, {"args": ["kopfexamples.kopf.dev"], "kw": {}},
                      {"args": [], "kw": {"kind": "KopfExample"}}, {"args": [], "kw": {"category": "all"}},
                      {"args": [EVERYTHING], "kw": {}}, {"args": [{"fn": "true"}], "kw": {}}]
SERVED_CLUSTERS: list = [[3, 8], [0, 2], [0], [3], [0, 1, 2, 3, 4, 8], [2, 8]]      # indices into SEL_RESOURCES


def names_a_resource(decl: dict) -> bool:
    """'resource specifications that are intended to match a specific resource by name' (vs. categories, EVERYTHING, callables)"""
    a = decl["args"]
    return bool(a and isinstance(a[-1], str) and a[-1] != EVERYTHING) or any(k in decl["kw"] for k in ("kind", "plural", "singular", "shortcut"))


def doc_select(decl: dict, cluster: list[dict]) -> list[dict]:
    """which of the cluster's resources the specification stands for (docs/resources.rst)"""
    matched = [r for r in cluster if doc_selector(decl, r)]
    if names_a_resource(decl):
        groups = {r["group"] for r in matched}
        if "" in groups:
            matched = [r for r in matched if r["group"] == ""]      # "v1 resources have priority over all other resources"
        elif len(groups) > 1:
            matched = []                                             # "neither of them will be served"
    return matched


def run_served_case(env: Env, rec: Rec, case: dict) -> None:
    """one registry of on.event handlers (one per selector notation), one cluster; for every resource that is watched
    (some specification stands for it): the handlers get_handlers() returns vs. the specifications that stand for it"""
    R = env.references
    cluster = [SEL_RESOURCES[i] for i in case["cluster"]]
    real = {i: R.Resource(group=r["group"], version=r["version"], plural=r["plural"], kind=r["kind"], singular=r["singular"],
                          shortcuts=frozenset(r["shortcuts"]), categories=frozenset(r["categories"]), preferred=r["preferred"])
            for i, r in zip(case["cluster"], cluster)}
    registry = env.registries.OperatorRegistry()
    for n_, decl in enumerate(case["decls"]):
        args = [R.EVERYTHING if a == EVERYTHING else (SEL_CALLABLES[a["fn"]] if isinstance(a, dict) else a) for a in decl["args"]]
        env.kopf.on.event(*args, **decl["kw"], registry=registry, id=f"h{n_}")(env.fns[n_ % len(env.fns)])
    stands = [doc_select(d, cluster) for d in case["decls"]]
    for i, r in zip(case["cluster"], cluster):
        if not any(r in s_ for s_ in stands):
            continue                                       # nobody's resource: not watched
        cause = env.causes.WatchingCause(resource=real[i], indices=env.indexers.indices, logger=env.logger, patch=env.patches.Patch(),
                                         body=env.bodies.Body({"metadata": {"name": "o", "namespace": "ns"}}), memo=None,
                                         type="ADDED", event={"type": "ADDED", "object": {}})
        got = sorted(str(h.id) for h in registry._watching.get_handlers(cause=cause))
        want = sorted(f"h{n_}" for n_, s_ in enumerate(stands) if r in s_)
        per_resource = sorted(f"h{n_}" for n_, d in enumerate(case["decls"]) if doc_selector(d, r))
        rec.evaluations += 1
        rec.count("served: handlers of a watched resource", "as the specifications stand for it" if got == want else "MORE (selected per resource)")
        rec.nontrivial.add(f"served|{case['cluster']}|{i}|{got == want}")
        if got != want:
            rec.oracle_fail(f"handlers selected for a {r['group']}/{r['version']}/{r['plural']} object: {got}; among the cluster's resources "
                            f"{[x['group'] + '/' + x['plural'] for x in cluster]} the specifications of {want} stand for it "
                            f"({[case['decls'][int(x[1:])] for x in got if x not in want]} do not)",
                            {"kind": "served", "case": case, "resource": i, "impl": got},
                            FINDING_SERVED if got == per_resource else
                            {"site": "watching registry get_handlers", "shape": "selected set differs from the handlers whose selector stands for the resource"})


def served_cases() -> list[dict]:
    return [{"decls": SERVED_DECLS, "cluster": c} for c in SERVED_CLUSTERS]


# =============================================================================================
# (D) re-discovery histories: ONE registry (its Selector instances live as long as the operator) asked about the SAME
# API endpoints again and again while their CRDs are edited -- observation.revise_resources re-discovers the served
# resources at runtime ("if a CRD's categories were modified"): the endpoint (group/version/plural) comes back with other
# categories, short names, kind/singular, `preferred` flag. "For every event the set of handlers invoked is exactly the
# set whose declared criteria all hold": the resource selector holds or not for the resource AS IT IS at that event;
# "objects matched by no handler are left untouched". Everything through the real process_resource_event (only
# patch_and_check is a recorder), plus the resource-level questions the reactor asks the same instances
# (Selector.check / Selector.select / has_handlers / get_resource_handlers).
# =============================================================================================
REDISC_ENDPOINTS = [("kopf.dev", "v1", "kopfexamples"), ("kopf.dev", "v2", "kopfexamples"), ("kopf.dev", "v1", "kopfsamples")]
REDISC_CATS = ["all", "kopf", "widgets"]
REDISC_SHORTS = ["kex", "ke"]
REDISC_KINDS = [("KopfExample", "kopfexample"), ("KopfSample", "kopfsample")]
REDISC_DECLS: list = (
    [{"args": [], "kw": {"category": c}} for c in ("widgets", "kopf", "all")]
    + [{"args": [], "kw": kw} for kw in ({"shortcut": "kex"}, {"kind": "KopfExample"}, {"singular": "kopfexample"}, {"plural": "kopfexamples"},
                                         {"group": "kopf.dev", "category": "widgets"}, {"version": "v1", "category": "all"},
                                         {"version": "v1", "shortcut": "ke"}, {"group": "kopf.dev", "version": "v2", "kind": "KopfSample"})]
    + [{"args": a, "kw": {}} for a in (["kopfexamples"], ["kex"], ["KopfExample"], ["kopfexample"], ["kopfsample"], ["kopf.dev", "kopfexamples"],
                                       ["kopfexamples.kopf.dev"], ["kopf.dev", "kex"], ["kopf.dev", "v1", "kopfexamples"],
                                       ["kopf.dev/v2", "kopfexamples"], ["kopf.dev", "v1", "kex"], ["kopf.dev/v1", "KopfSample"],
                                       [EVERYTHING], ["kopf.dev", EVERYTHING], ["kopf.dev", "v1", EVERYTHING],
                                       [{"fn": "kex_preferred"}], [{"fn": "in_widgets"}])]
    + [{"args": [{"fn": "in_widgets"}], "kw": {"group": "kopf.dev"}}])
REDISC_KINDS_H = ("event", "create", "delete")          # watching / state-changing / state-changing with the finalizer
SIG_REDISC_EXTRA = {"site": "resource selector after re-discovery", "shape": "a handler is invoked for a resource that its selector does not select as the resource is now"}
SIG_REDISC_MISSING = {"site": "resource selector after re-discovery", "shape": "a handler whose selector selects the resource as it is now is not invoked"}
SIG_REDISC_TOUCHED = {"site": "resource selector after re-discovery", "shape": "an object of a resource that no state-changing handler selects (as it is now) is written to"}
SIG_REDISC_FIN = {"site": "resource selector after re-discovery", "shape": "the finalizer does not follow the deletion handlers whose selector holds now"}
SIG_REDISC_ASK = {"site": "resource selector after re-discovery", "shape": "a resource-level question is answered for the resource as it was"}


def redisc_resource(ep: int = 0, *, cats: Any = ("all", "widgets"), shorts: Any = ("kex",), kind: int = 0, preferred: bool = True) -> dict:
    g, v, p = REDISC_ENDPOINTS[ep]
    return dict(group=g, version=v, plural=p, kind=REDISC_KINDS[kind][0], singular=REDISC_KINDS[kind][1],
                shortcuts=sorted(shorts), categories=sorted(cats), preferred=preferred)


def redisc_variants() -> list[dict]:
    """the base discovery of the endpoint and the same endpoint with ONE attribute different"""
    return [redisc_resource(), redisc_resource(cats=()), redisc_resource(cats=("all",)), redisc_resource(shorts=()), redisc_resource(shorts=("ke",)),
            redisc_resource(kind=1), redisc_resource(preferred=False), redisc_resource(cats=("kopf",), shorts=("ke", "kex"), preferred=False)]


def rediscover_scenarios() -> list[dict]:
    """systematic part: (a) every declaration as an on.event AND an on.create handler of one registry, over every ordered pair
    of discoveries of one endpoint (and in-out-in); (b) per declaration that tells two discoveries apart: the declaration on a
    mandatory on.delete handler next to an explicit on.event spy -- the stealth clause in both directions"""
    vs = redisc_variants()
    out: list[dict] = []
    both = [[k, d] for d in REDISC_DECLS for k in ("event", "create")]
    for i, a in enumerate(vs):
        for j, b in enumerate(vs):
            if i != j and (i == 0 or j == 0):
                out.append({"handlers": both, "steps": [{"r": a}, {"r": b, "ask_first": (i + j) % 2 == 1}]})
    out.append({"handlers": both, "steps": [{"r": vs[0]}, {"r": vs[1]}, {"r": vs[0]}]})
    out.append({"handlers": both, "steps": [{"r": vs[1], "ask_first": True}, {"r": vs[0]}, {"r": vs[6]}, {"r": redisc_resource(1)}]})
    spy = ["event", {"args": ["kopf.dev", "v1", "kopfexamples"], "kw": {}}]
    for d in REDISC_DECLS:
        for b in vs[1:]:
            if doc_selector(d, vs[0]) != doc_selector(d, b):
                out.append({"handlers": [["delete", d], spy], "steps": [{"r": vs[0]}, {"r": b}]})
                out.append({"handlers": [["create", d], spy], "steps": [{"r": b}, {"r": vs[0]}]})
                break
    return out


def random_rediscover_case(rng: random.Random) -> dict:
    hs = [[rng.choice(REDISC_KINDS_H), rng.choice(REDISC_DECLS)] for _ in range(rng.randint(1, 4))]
    if rng.random() < 0.3:
        hs.append(["event", {"args": list(REDISC_ENDPOINTS[0]), "kw": {}}])
    eps = rng.sample(range(len(REDISC_ENDPOINTS)), rng.choice([1, 1, 2, 3]))
    now: dict[int, dict] = {}
    steps: list[dict] = []
    for _ in range(rng.randint(2, 5)):
        ep = rng.choice(eps)
        if ep not in now or rng.random() < 0.15:        # first discovery / a thorough rewrite of the CRD
            r = redisc_resource(ep, cats=[c for c in REDISC_CATS if rng.random() < 0.5], shorts=[x for x in REDISC_SHORTS if rng.random() < 0.5],
                                kind=rng.randrange(2), preferred=rng.random() < 0.7)
        else:                                           # the CRD is edited: one attribute changes (or none: a plain next event)
            r = json.loads(json.dumps(now[ep]))
            what = rng.choice(["cats", "cats", "shorts", "kind", "preferred", "preferred", "none"])
            if what == "cats":
                c = rng.choice(REDISC_CATS)
                r["categories"] = sorted(set(r["categories"]) ^ {c})
            elif what == "shorts":
                c = rng.choice(REDISC_SHORTS)
                r["shortcuts"] = sorted(set(r["shortcuts"]) ^ {c})
            elif what == "kind":
                k_ = 1 - [k for k, _ in REDISC_KINDS].index(r["kind"])
                r["kind"], r["singular"] = REDISC_KINDS[k_]
            elif what == "preferred":
                r["preferred"] = not r["preferred"]
        now[ep] = r
        steps.append({"r": r, "ask_first": rng.random() < 0.3})
    return {"handlers": hs, "steps": steps}


async def run_rediscover_case(env: Env, rec: Rec, case: dict, reqs: list, pending: list) -> None:
    import asyncio
    R, P, A = env.references, env.processing, env.application
    settings = env.configuration.OperatorSettings()
    settings.posting.enabled = False
    fin = settings.persistence.finalizer
    registry = env.registries.OperatorRegistry()
    hs: list[tuple[str, dict, Any]] = []
    for n_, (kind, decl) in enumerate(case["handlers"]):
        args = [R.EVERYTHING if a == EVERYTHING else (SEL_CALLABLES[a["fn"]] if isinstance(a, dict) else a) for a in decl["args"]]
        reg = registry._watching if kind == "event" else registry._changing
        getattr(env.kopf.on, kind)(*args, **decl["kw"], registry=registry, id=f"h{n_}", param=n_)(env.fns[n_ % len(env.fns)])
        hs.append((kind, decl, reg._handlers[-1]))
    memories = env.inventory.ResourceMemories()
    memobase = env.ephemera.Memo()
    indexers = env.indexing.OperatorIndexers()
    sent: list[dict] = []
    rows = ["" for _ in hs]
    cluster: dict[tuple, dict] = {}

    async def pac(**kw: Any) -> Any:
        d = json.loads(json.dumps(dict(kw["patch"]), default=repr))
        if d or kw["patch"].fns:
            sent.append({"patch": d, "fns": list(kw["patch"].fns)})      # (finalizers travel as JSON-patch transformations)
            return str(1000 + len(sent)), None
        return None, None

    def applied(doc: dict, w: dict) -> dict:
        doc = merge_patch(json.loads(json.dumps(doc)), w["patch"])
        for f_ in w["fns"]:
            f_(doc)
        return doc

    def shown(ws: list) -> list:
        return [{"patch": w["patch"], "fns": [getattr(f_, "func", f_).__name__ for f_ in w["fns"]]} for w in ws]

    def fail(k: int, what: str, sig: dict, impl: Any) -> None:
        r = case["steps"][k]["r"]
        rec.oracle_fail(f"re-discovery history, step {k} ({r['group']}/{r['version']}/{r['plural']} categories={r['categories']} shortcuts={r['shortcuts']} "
                        f"kind={r['kind']} preferred={r['preferred']}): {what}", {"kind": "rediscover", "case": case, "step": k, "impl": impl}, sig)

    def ask(k: int, r: dict, rr: Any, E: list[int]) -> None:
        """the resource-level questions of the reactor, to the same instances"""
        for n_, (kind, decl, real) in enumerate(hs):
            got = bool(real.selector.check(rr))
            rows[n_] += "1" if got else "0"
            if got != (n_ in E):
                fail(k, f"Selector{tuple(decl['args'])}{decl['kw']}.check() = {got}, documented for the resource as it is now: {n_ in E}", SIG_REDISC_ASK, got)
        for name, reg, kinds in (("_watching", registry._watching, ("event",)), ("_changing", registry._changing, ("create", "delete"))):
            want = [f"h{n_}" for n_ in E if hs[n_][0] in kinds]
            got_has = bool(reg.has_handlers(resource=rr))
            if got_has != bool(want):
                fail(k, f"registry.{name}.has_handlers() = {got_has}; handlers whose selector holds now: {want}", SIG_REDISC_ASK, got_has)
            if name == "_changing":
                got_ids = sorted(str(h.id) for h in reg.get_resource_handlers(resource=rr))
                if got_ids != sorted(want):
                    fail(k, f"registry._changing.get_resource_handlers() = {got_ids}; handlers whose selector holds now: {sorted(want)}", SIG_REDISC_ASK, got_ids)
        now_docs = list(cluster.values())
        now_real = [R.Resource(group=x["group"], version=x["version"], plural=x["plural"], kind=x["kind"], singular=x["singular"],
                               shortcuts=frozenset(x["shortcuts"]), categories=frozenset(x["categories"]), preferred=x["preferred"],
                               namespaced=True) for x in now_docs]
        for n_, (kind, decl, real) in enumerate(hs):          # what is served for the specification (one API group: no ambiguity)
            got_sel = sorted((x.group, x.version, x.plural) for x in real.selector.select(now_real))
            want_sel = sorted((x["group"], x["version"], x["plural"]) for x in doc_select(decl, now_docs))
            if got_sel != want_sel:
                fail(k, f"Selector{tuple(decl['args'])}{decl['kw']}.select(the cluster's resources as they are now) = {got_sel}, documented: {want_sel}",
                     SIG_REDISC_ASK, got_sel)

    orig = A.patch_and_check
    A.patch_and_check = pac
    try:
        for k, step in enumerate(case["steps"]):
            r = step["r"]
            cluster[(r["group"], r["version"], r["plural"])] = r
            rr = R.Resource(group=r["group"], version=r["version"], plural=r["plural"], kind=r["kind"], singular=r["singular"],
                            shortcuts=frozenset(r["shortcuts"]), categories=frozenset(r["categories"]), preferred=r["preferred"], namespaced=True)
            E = [n_ for n_, (kind, decl, _) in enumerate(hs) if doc_selector(decl, r)]        # the oracle: docs/resources.rst, now
            E_kind = {kd: sorted(n_ for n_ in E if hs[n_][0] == kd) for kd in REDISC_KINDS_H}
            changing_now = bool(E_kind["create"] or E_kind["delete"])
            if step.get("ask_first"):
                ask(k, r, rr, E)
            body: dict = {"apiVersion": f"{r['group']}/{r['version']}", "kind": r["kind"],
                          "metadata": {"name": f"o{k}", "namespace": "ns", "uid": f"u{k}", "resourceVersion": "1",
                                       "creationTimestamp": "2020-01-01T00:00:00Z"}, "spec": {"f": "x"}}
            invoked_create: list[int] = []
            n_sent = len(sent)
            for feed, etype in enumerate(("ADDED", "MODIFIED")):
                env.calls.clear()
                before = len(sent)
                try:
                    await P.process_resource_event(
                        lifecycle=env.lifecycles.all_at_once, indexers=indexers, registry=registry, settings=settings, memories=memories,
                        memobase=memobase, resource=rr, raw_event={"type": etype, "object": json.loads(json.dumps(body))},
                        event_queue=asyncio.Queue(), no_throttling=True)
                except Exception as e:  # noqa: BLE001
                    fail(k, f"process_resource_event raised {type(e).__name__}: {e}", {"site": "processing.process_resource_event", "shape": f"raises {type(e).__name__}"}, None)
                    return
                called = [prm for _, prm in env.calls]
                ev = sorted(n_ for n_ in called if hs[n_][0] == "event")
                invoked_create += [n_ for n_ in called if hs[n_][0] != "event"]
                rec.evaluations += 1
                rec.count("rediscover: on.event handlers per event", f"{len(ev)} invoked / {len(E_kind['event'])} select the resource now")
                if ev != E_kind["event"]:
                    extra = [n_ for n_ in ev if n_ not in E_kind["event"]]
                    fail(k, f"on.event handlers invoked for the {etype} event: {['h%d' % x for x in ev]}; their selectors "
                            f"{[hs[x][1] for x in extra] if extra else [hs[x][1] for x in E_kind['event'] if x not in ev]} "
                            f"{'do not select' if extra else 'select'} the resource as it is now (expected {['h%d' % x for x in E_kind['event']]})",
                         SIG_REDISC_EXTRA if extra else SIG_REDISC_MISSING, ev)
                new = sent[before:]
                after = body
                for w in new:
                    after = applied(after, w)
                adds_fin = fin in (after.get("metadata", {}).get("finalizers") or [])
                if feed == 0 and adds_fin != bool(E_kind["delete"]):
                    fail(k, f"the finalizer is {'added' if adds_fin else 'not added'}; mandatory deletion handlers whose selector holds now: "
                            f"{['h%d' % x for x in E_kind['delete']]}", SIG_REDISC_FIN if changing_now or not adds_fin else SIG_REDISC_TOUCHED, shown(new))
                if not (feed == 0 and adds_fin):
                    break
                body = after                                # the closed loop, once: the object comes back with the finalizer
                body["metadata"]["resourceVersion"] = "2"
            got_c = sorted(invoked_create)
            rec.count("rediscover: state-changing handlers per new object", f"{len(got_c)} invoked / {len(E_kind['create'])} on.create select the resource now"
                      + (f" (+{len(E_kind['delete'])} on.delete)" if E_kind["delete"] else ""))
            if got_c != E_kind["create"]:
                extra = [n_ for n_ in got_c if n_ not in E_kind["create"]]
                fail(k, f"state-changing handlers invoked for the new object: {['h%d' % x for x in got_c]}, expected the on.create handlers whose selector "
                        f"holds now: {['h%d' % x for x in E_kind['create']]}", SIG_REDISC_EXTRA if extra else SIG_REDISC_MISSING, got_c)
            if not changing_now:
                rec.count("rediscover: stealth", "no state-changing handler selects the resource now" + (": written to" if len(sent) > n_sent else ": nothing sent"))
                if len(sent) > n_sent:
                    fail(k, f"no state-changing handler selects the resource as it is now, yet the new object is patched: {shown(sent[n_sent:])}", SIG_REDISC_TOUCHED, shown(sent[n_sent:]))
            ask(k, r, rr, E)
            changed = [a for a in ("categories", "shortcuts", "kind", "preferred") if any(
                s_["r"][a] != r[a] for s_ in case["steps"][:k] if (s_["r"]["group"], s_["r"]["version"], s_["r"]["plural"]) == (r["group"], r["version"], r["plural"]))]
            rec.count("rediscover: the endpoint at this step", "first discovery" if not any(
                (s_["r"]["group"], s_["r"]["version"], s_["r"]["plural"]) == (r["group"], r["version"], r["plural"]) for s_ in case["steps"][:k])
                else ("seen before, differs in " + "+".join(changed) if changed else "seen before, unchanged"))
            flips = sum(1 for n_, (kd, decl, _) in enumerate(hs) if k and any(
                doc_selector(decl, s_["r"]) != (n_ in E) for s_ in case["steps"][:k]
                if (s_["r"]["group"], s_["r"]["version"], s_["r"]["plural"]) == (r["group"], r["version"], r["plural"])))
            rec.count("rediscover: selectors whose outcome for this endpoint differs from an earlier step", min(flips, 3) if flips < 3 else "3+")
            rec.nontrivial.add(f"redisc|{leanio.canon([hs[n_][1] for n_ in E])[:80]}|{r['categories']}{r['shortcuts']}{r['kind']}{r['preferred']}|{flips > 0}")
    finally:
        A.patch_and_check = orig
    # the tie: the model's route of every selector over the history of questions put to it
    asked = [s_["r"] for s_ in case["steps"] for _ in range(2 if s_.get("ask_first") else 1)]
    for n_, (kind, decl, real) in enumerate(hs):
        sel = real.selector
        if len(rows[n_]) != len(asked):
            continue                                   # (the run ended early: reported above)
        an = sel.any_name
        fields = {k_: getattr(sel, k_) for k_ in ("group", "version", "kind", "plural", "singular", "shortcut", "category")}
        fields["any"] = None if an is None else ("*" if an is R.EVERYTHING else {"n": an})
        if sel.fn is None:
            reqs.append(["C15.route", [dict(fields, fn=None)], asked])
            pending.append(("Selector.check over a re-discovery history", rows[n_], {"kind": "rediscover", "case": case, "handler": n_}))
        else:
            for j, r in enumerate(asked):
                class _R:
                    pass
                ro = _R()
                ro.__dict__.update(r)
                reqs.append(["C15.selcheck", [dict(fields, fn=bool(sel.fn(ro)))], [r]])
                pending.append(("Selector.check", rows[n_][j], {"kind": "rediscover", "case": case, "handler": n_, "question": j}))


# =============================================================================================
# (D) whole cycles: real process_resource_event, writes observed; the stealth clause
# =============================================================================================
def carried_user_fn(body: Any) -> None:
    """a handler's JSON-patch transformation (`patch.fns`) left over from a rejected patch: it still has
    something to change in the object (the cycle bodies never have `status.seen`)"""
    body.setdefault("status", {})["seen"] = "carried"


def carried_fulfilled_fn(body: Any) -> None:
    """a carried transformation that the conflicting change has fulfilled already (an idempotent
    "make status.s = x" on an object whose status.s is x): no JSON-patch operation on the object at hand"""
    body.setdefault("status", {})["s"] = "x"


CARRIED_FNS = {"ops": carried_user_fn, "fulfilled": carried_fulfilled_fn}
CARRIED_NAMES = {f.__name__ for f in CARRIED_FNS.values()}


def carried_mode(v: Any) -> str | None:
    """a step's `carried`: false / true (= "ops": older corpus files) / "ops" / "fulfilled" """
    return None if not v else ("ops" if v is True else str(v))


STEP_KEYS = ("label", "annotation", "field", "stored", "event", "own_finalizer", "foreign_finalizer", "marked", "carried",
             "records", "timed", "status", "namespace", "spec_extra")
LHC_KEY = "kopf.zalando.org/last-handled-configuration"      # docs/configuration.rst: the default place of the last-handled state
TOUCH_ONLY = {"metadata": {"annotations": {"kopf.zalando.org/touch-dummy": None}}}
DEFAULT_FINALIZER = "kopf.zalando.org/KopfFinalizerMarker"      # docs/configuration.rst: the default of settings.persistence.finalizer
CONFIGURED_FINALIZER = "example.com/cfg-finalizer"
LEFTOVER = {"started": "2020-01-01T00:00:00.000000+00:00", "retries": 1}    # a handler in the middle of its retries


def merge_patch(doc: Any, patch: Any) -> Any:
    """RFC 7386, written here (not kopf's): what the API server does with a merge-patch body"""
    if not isinstance(patch, dict):
        return json.loads(json.dumps(patch))
    out = dict(doc) if isinstance(doc, dict) else {}
    for k, v in patch.items():
        if v is None:
            out.pop(k, None)
        else:
            out[k] = merge_patch(out.get(k), v)
    return out


def only_removals(before: Any, after: Any, path: tuple = ()) -> tuple[bool, list[tuple]]:
    """is `after` = `before` with some keys taken away (nothing added, nothing changed)? → (yes/no, the paths removed)"""
    if isinstance(before, dict) and isinstance(after, dict):
        if not set(after) <= set(before):
            return False, []
        removed = [path + (k,) for k in before if k not in after]
        for k in after:
            ok, sub = only_removals(before[k], after[k], path + (k,))
            if not ok:
                return False, []
            removed += sub
        return True, removed
    return (True, []) if before == after else (False, [])


def _cycle_handlers(rng: random.Random, *, daemons_real: bool) -> list:
    small = [None, {"v": "x"}, "P", "A", {"cb": "is_x"}]
    hs: list = []
    for cls, kinds, nmax in (("watching", ["event"], 2), ("changing", ["create", "update", "delete", "resume", "field"], 3),
                             ("spawning", ["timer", "daemon"], 2)):
        if daemons_real:
            n_h = {"watching": rng.choice([0, 0, 1]), "changing": rng.choice([0, 0, 1, 2]), "spawning": rng.choice([1, 1, 2])}[cls]
        else:
            n_h = rng.choice([0, 1, 1, nmax] if cls == "changing" else [0, 0, 1, 1, nmax])
        for _ in range(n_h):
            kind = rng.choice(kinds)
            mode = rng.random()
            l = pat(LK, rng.choice(small)) if mode < 0.6 else None
            a = pat(AK, rng.choice(small)) if 0.4 < mode < 0.8 else None
            if daemons_real and cls == "spawning":
                l, a = pat(LK, rng.choice(["P", "P", {"v": "x"}, {"cb": "is_x"}])), None
            path = rng.choice([FIELD, FIELD, ["metadata", "labels", LK], ["status", "s"]])
            f = path if kind == "field" or rng.random() < 0.35 else None
            v = o = n = None
            if f and kind in ("update", "field") and rng.random() < 0.4:
                o, n = rng.choice(CRITS + FCRITS[6:]), rng.choice(CRITS + FCRITS[6:])
            elif f:
                v = rng.choice(CRITS + FCRITS[6:])
            k = DECL_KIND.get(kind, dict(r=None, fnc=False, i=False))
            rf = True if cls == "spawning" else ((rng.random() < 0.7) if kind == "delete" else None)
            h = hspec(cls, fn=len(hs) % 6, id=f"h{len(hs)}", sel=rng.choice([PLURAL] * 6 + ["others"]), l=l, a=a,
                      w=rng.choice([None, None, None, True, False]), f=f, v=v, o=o, n=n, fnc=k["fnc"], rf=rf, r=k["r"],
                      i=k["i"] or None, d=rng.choice([None, True]) if kind == "resume" else None)
            if cls == "changing" and rng.random() < 0.15:
                h["_behave"] = "temp"            # raises TemporaryError(delay): the handling returns delays
            elif cls == "changing" and rng.random() < 0.3:
                h["_subs"] = random_subs(rng, kind)   # the handler declares sub-handlers while it runs
            if cls == "spawning" and daemons_real:
                h["_behave"] = rng.choice(["ignores", "ignores", "obeys"])
                h["_sel"], h["sel"], h["w"] = PLURAL, True, None
            hs.append((h, kind))
    return hs


def random_subs(rng: random.Random, parent_kind: str, temp: float = 0.08) -> dict:
    small = [None, None, {"v": "x"}, "P", "A", {"cb": "is_x"}]
    via = rng.choice(SUB_VIAS + ("subhandler",))
    subs = []
    for j in range(rng.choice([1, 2, 2, 3])):
        f = FIELD if rng.random() < 0.25 else None
        subs.append(sub_spec(parent_kind, via, fn=j, id=f"s{j}", l=pat(LK, rng.choice(small)), a=pat(AK, rng.choice(small)),
                             w=rng.choice([None, None, None, True, False]), f=f, v=rng.choice(CRITS) if f else None,
                             behave="temp" if j == 0 and rng.random() < temp else None))
    return {"via": via, "explicit": via in ("subhandler", "register") and rng.random() < 0.3, "subs": subs}


def subcycle_scenarios() -> list[dict]:
    """closed-loop scenarios of finding C15-F8 and its neighbours, both tiers, complete:
      * an `@kopf.on.delete` handler declaring two sub-handlers (each way of declaring them) on an object
        marked for deletion that carries the finalizer: both must be invoked, and only then is the finalizer
        released (same cycle); with a labels= filter on the second one and an unlabelled object: only the first;
      * the same with a sub-handler that asks to be retried: invoked, and the finalizer is NOT released yet;
      * an `@kopf.on.resume(deleted=True)` handler with sub-handlers on a marked object seen by listing;
      * an `@kopf.on.create` handler whose sub-handlers have labels= / when= filters, labelled or not;
      * `@kopf.on.update` / `@kopf.on.field` handlers with sub-handlers on an update."""
    out = []

    def case(kind: str, subs: dict, *, label: Any, event: Any, stored: Any, marked: bool, fin: bool, field: Any = "x",
             d: Any = None, f: Any = None) -> dict:
        k = DECL_KIND[kind]
        h = hspec("changing", fn=0, id="h0", l=None, f=f, fnc=k["fnc"], r=k["r"], i=k["i"] or None,
                  rf=True if kind == "delete" else None, d=d)
        h["_subs"] = subs
        return {"handlers": [(h, kind)], "label": label, "annotation": None, "field": field, "stored": stored, "event": event,
                "own_finalizer": fin, "foreign_finalizer": False, "marked": marked, "stopped": [], "carried": False, "resumed": []}
    for via in SUB_VIAS:
        two = lambda pk, **kw: {"via": via, "explicit": False, "subs": [sub_spec(pk, via, fn=0, id="a"), sub_spec(pk, via, fn=1, id="b", **kw)]}
        for label in ("x", None):
            out.append(case("delete", two("delete"), label=label, event="MODIFIED", stored="x", marked=True, fin=True))
            out.append(case("delete", two("delete", l=pat(LK, "P")), label=label, event="MODIFIED", stored=NOOLD, marked=True, fin=True))
            out.append(case("resume", two("resume", l=pat(LK, "P")), label=label, event=None, stored="x", marked=True, fin=True, d=True))
            out.append(case("create", two("create", l=pat(LK, {"v": "x"}), w=True), label=label, event="ADDED", stored=NOOLD, marked=False, fin=False))
            out.append(case("create", two("create", w=False), label=label, event="ADDED", stored=NOOLD, marked=False, fin=False))
            out.append(case("update", two("update", l=pat(LK, "P")), label=label, event="MODIFIED", stored="y", marked=False, fin=False))
            out.append(case("field", two("field", w=True), label=label, event="MODIFIED", stored="y", marked=False, fin=False, f=FIELD))
        retry = {"via": via, "explicit": False, "subs": [sub_spec("delete", via, id="a", behave="temp"), sub_spec("delete", via, fn=1, id="b")]}
        out.append(case("delete", retry, label="x", event="MODIFIED", stored="x", marked=True, fin=True))
    return out


def random_subcycle_case(rng: random.Random) -> dict:
    """one whole cycle built so that a parent of a random kind runs and declares random sub-handlers
    (random filters, any way of declaring them, sometimes one that asks to be retried)"""
    kind = rng.choice(PARENT_KINDS + ("delete", "delete"))
    k = DECL_KIND[kind]
    h = hspec("changing", fn=0, id="h0", f=FIELD if kind == "field" or rng.random() < 0.15 else None, fnc=k["fnc"], r=k["r"],
              i=k["i"] or None, rf=True if kind == "delete" else None, d=True if kind == "resume" and rng.random() < 0.7 else None)
    h["_subs"] = random_subs(rng, kind, temp=0.15)
    field = rng.choice(["x", "x", "y"])
    other = "y" if field == "x" else "x"
    marked = fin = False
    if kind == "create":
        event, stored = "ADDED", NOOLD
    elif kind in ("update", "field"):
        event, stored = "MODIFIED", rng.choice([other, other, None])
    elif kind == "delete":
        event, stored, marked, fin = "MODIFIED", rng.choice(["SAME", other, NOOLD, field]), True, True
    else:
        event, stored = None, rng.choice(["SAME", "SAME", other])
        marked = fin = rng.random() < 0.5
    hs = [(h, kind)]
    if rng.random() < 0.3:       # a second, plain handler of a random kind beside it
        k2 = rng.choice(PARENT_KINDS)
        hs.append((hspec("changing", fn=1, id="h1", f=FIELD if k2 == "field" else None, fnc=DECL_KIND[k2]["fnc"], r=DECL_KIND[k2]["r"],
                         i=DECL_KIND[k2]["i"] or None, rf=True if k2 == "delete" else None), k2))
    return {"handlers": hs, "label": rng.choice(VALS), "annotation": rng.choice(VALS), "field": field, "stored": stored, "event": event,
            "own_finalizer": fin, "foreign_finalizer": rng.random() < 0.15, "marked": marked, "stopped": [], "carried": False,
            "resumed": []}


def random_cycle_case(rng: random.Random) -> dict:
    hs = _cycle_handlers(rng, daemons_real=False)
    lv, av = rng.choice(VALS + [""]), rng.choice(VALS + [""])
    nv, ov = rng.choice(VALS + FALSY), rng.choice(VALS + [NOOLD, NOOLD] + FALSY)
    if rng.random() < 0.25:
        ov = "SAME"                  # nothing changed since the last-handled state: no-op / resuming causes
    elif rng.random() < 0.06:        # a change only JSON sees (true/1, false/0, also inside lists and mappings: /repo 8d1358b)
        ov, nv = rng.choice(TWINS[:7])
    resumed = [h["id"] for h, kind in hs if kind == "resume" and rng.random() < 0.4]
    return {"handlers": hs, "label": lv, "annotation": av, "field": nv, "stored": ov,
            "event": rng.choice(["ADDED", "MODIFIED", "MODIFIED", None, None, "DELETED"]),
            "own_finalizer": rng.random() < 0.3, "foreign_finalizer": rng.random() < 0.2,
            "marked": rng.random() < 0.25, "stopped": [], "carried": rng.choice([False] * 7 + ["ops", "ops", "fulfilled"]),
            "resumed": resumed, "records": random_records(rng, hs), "timed": rng.random() < 0.2,
            "finalizer": rng.choice([None, None, CONFIGURED_FINALIZER])}


def random_records(rng: random.Random, hs: list, p: float = 0.35) -> list:
    """progress records lying on the object when the event arrives: leftovers of the registry's own handlers
    (by position; `{"h": n}`), of their sub-handlers (named in the parent's `subrefs`, or orphaned), and of
    somebody else (`{"id": ...}`: another operator with the same prefix, a handler that is not registered any
    more); in the annotations, in status.kopf.progress, or in both"""
    if rng.random() >= p:
        return []
    out: list = []
    idx = [n for n, (h, _) in enumerate(hs)]
    for n in rng.sample(idx, min(len(idx), rng.choice([1, 1, 2, 3]))):
        subs = [f"zsub{j}" for j in range(rng.choice([0, 0, 1, 2]))]
        where = rng.choice(["ann", "ann", "ann", "both", "status"])
        out.append({"h": n, "subrefs": subs, "in": where})
        for sname in subs:
            if rng.random() < 0.8:
                out.append({"h": n, "sub": sname, "subrefs": [], "in": where})
    if rng.random() < 0.5:
        out.append({"id": "zz", "subrefs": ["zz/zsub0"], "in": rng.choice(["ann", "both"])})
        out.append({"id": "zz/zsub0", "subrefs": [], "in": "ann"})
    if hs and rng.random() < 0.2:      # a sub-handler record whose parent's record is gone
        out.append({"h": rng.choice(idx), "sub": "zorphan", "subrefs": [], "in": "ann"})
    return out


def leftover_scenarios() -> list[dict]:
    """the blind branch, both tiers, complete: an on.update/on.create/on.delete handler that needs label lk (or
    when=false, or a field value), an object WITHOUT the label, x {no record, own record, own + sub-handler
    records, foreign records only, own in status only} x {no finalizer, leftover own finalizer} x event type
    (incl. DELETED: nothing is sent) x {nothing carried, carried-and-effective, carried-and-fulfilled};
    and the same object WITH the label (the records stay: the handler continues its retries)"""
    out = []
    for kind, filt in (("update", dict(l=pat(LK, "P"))), ("create", dict(w=False)), ("delete", dict(l=pat(LK, {"v": "x"}))),
                       ("field", dict(a=pat(AK, "P")))):
        k = DECL_KIND[kind]
        h0 = hspec("changing", fn=0, id="h0", f=FIELD if kind == "field" else None, fnc=k["fnc"], r=k["r"], i=k["i"] or None,
                   rf=True if kind == "delete" else None, **filt)
        h1 = hspec("changing", fn=1, id="h1", sel="others", fnc=False, r="create")     # another resource's handler: not owned
        for recs in ([], [{"h": 0, "subrefs": [], "in": "ann"}],
                     [{"h": 0, "subrefs": ["zsub0", "zsub1"], "in": "both"}, {"h": 0, "sub": "zsub0", "subrefs": [], "in": "both"}],
                     [{"id": "zz", "subrefs": ["zz/s"], "in": "ann"}, {"id": "zz/s", "subrefs": [], "in": "ann"},
                      {"h": 1, "subrefs": [], "in": "ann"}, {"h": 0, "sub": "zorphan", "subrefs": [], "in": "ann"}],
                     [{"h": 0, "subrefs": [], "in": "status"}]):
            for fin, event, carried, label in ((False, "MODIFIED", False, None), (True, "MODIFIED", False, None),
                                               (False, None, False, None), (False, "DELETED", False, None),
                                               (False, "MODIFIED", "ops", None), (False, "MODIFIED", "fulfilled", None),
                                               (False, "MODIFIED", False, "x")):
                out.append({"handlers": [(h0, kind), (h1, "create")], "label": label, "annotation": None, "field": "x",
                            "stored": "y" if kind in ("update", "field") else NOOLD, "event": event, "own_finalizer": fin,
                            "foreign_finalizer": False, "marked": kind == "delete", "stopped": [], "carried": carried,
                            "resumed": [], "records": recs, "timed": False})
                if fin and not recs:   # the leftover finalizer under a CONFIGURED name, kopf's default name being somebody else's
                    out.append(dict(out[-1], finalizer=CONFIGURED_FINALIZER, foreign_finalizer=True))
                    out.append(dict(out[-1], label="x"))
    return out


def random_sequence_case(rng: random.Random) -> dict:
    """several consecutive events for one object on the same in-memory records, with REAL daemons and
    timers (spawned, re-matched, stopped by kopf itself): the label comes and goes, the own finalizer
    follows what kopf itself queued in the previous cycle"""
    hs = _cycle_handlers(rng, daemons_real=True)
    steps = []
    label = rng.choice(["x", "x", "v", None])
    for k in range(rng.randint(3, 6)):
        if k and rng.random() < 0.45:
            label = None if label is not None else rng.choice(["x", "v"])
        steps.append({"label": label, "annotation": rng.choice([None, None, "x"]), "field": rng.choice(VALS), "stored": rng.choice([NOOLD, "x", None]),
                      "event": "ADDED" if k == 0 else rng.choice(["MODIFIED", "MODIFIED", None]), "own_finalizer": "follow",
                      "foreign_finalizer": False, "marked": k > 2 and rng.random() < 0.15, "carried": False,
                      "records": "follow", "timed": False,   # the progress records kopf itself wrote in the previous cycles
                      "wait": rng.choice([0, 0.01, 0.01, 0.08])})   # 0: the daemon may not even have started yet
    return {"handlers": hs, "steps": steps, "real_daemons": True, "stopped": [], "finalizer": rng.choice([None, None, CONFIGURED_FINALIZER])}


def random_leftover_sequence(rng: random.Random) -> dict:
    """the way leftovers come to be: a labelled object, a changing handler that needs the label and asks to be
    retried (its progress record is written by kopf), then the label goes away while it is retrying -- the
    records kopf wrote travel with the object (`records: follow`) -- and sometimes comes back"""
    kind = rng.choice(["create", "update", "update", "resume"])
    k = DECL_KIND[kind]
    h0 = hspec("changing", fn=0, id="h0", l=pat(LK, rng.choice(["P", {"v": "x"}, {"cb": "is_x"}])), fnc=k["fnc"], r=k["r"],
               i=k["i"] or None)
    h0["_behave"] = "temp"
    hs = [(h0, kind)]
    if rng.random() < 0.4:
        hs.append((hspec("watching", fn=1, id="h1", w=rng.choice([None, False])), "event"))
    if rng.random() < 0.3:
        k2 = DECL_KIND["create"]
        h2 = hspec("changing", fn=2, id="h2", a=pat(AK, "P"), fnc=k2["fnc"], r=k2["r"])
        h2["_behave"] = "temp"       # (never finished either: what a FINISHED handler's record does to the next cycle is C02's)
        hs.append((h2, "create"))
    steps = []
    label: Any = "x"
    for n in range(rng.randint(3, 6)):
        if n >= 1 and rng.random() < 0.6:
            label = None if label is not None else "x"
        steps.append({"label": label, "annotation": rng.choice([None, None, "x"]), "field": "x",
                      "stored": NOOLD if kind == "create" else ("y" if kind == "update" else "SAME"),
                      "event": None if (n == 0 and kind == "resume") else ("ADDED" if n == 0 else "MODIFIED"),
                      "own_finalizer": "follow", "foreign_finalizer": False, "marked": False, "carried": False,
                      "records": "follow", "timed": rng.random() < 0.2, "wait": 0.002})
    return {"handlers": hs, "steps": steps, "real_daemons": False, "stopped": []}


# ---- several handlers' fields TOGETHER: what the criteria of one handler see must not depend on the other handlers ----
# The state the criteria of state-changing handlers are decided on is the object's essence; everything outside
# spec/labels/annotations is in it only because SOME handler of the resource names it (`field=`), and all the
# handlers' fields go into one essence together. Related names: one dotted name a textual prefix of another without
# being its parent (status.s / status.ss / status.sx, metadata.name / metadata.namespace, spec.f / spec.ff), parents and
# children (status / status.s / status.s.t, metadata.labels / metadata.labels.lk, spec / spec.f), the same field twice.
REL_FIELDS = {
    "status": [["status", "s"], ["status", "ss"], ["status", "s", "t"], ["status"], ["status", "sx"]],
    "metadata": [["metadata", "name"], ["metadata", "namespace"], ["metadata", "labels"], ["metadata", "labels", LK], ["metadata", "uid"]],
    "spec": [["spec"], ["spec", "f"], ["spec", "ff"]],
}
REL_S_VALUES = [None, "x", "x", "y", {"t": "x"}, {"t": "y"}, ["x"]]
REL_SS_VALUES = [None, "x", "x", "y", ["x"], {"t": "x"}]


def _rel_handler(rng: random.Random, n_: int, cls: str, kind: str, f: list, *, crit: Any = MISSING) -> tuple:
    k = DECL_KIND.get(kind, dict(r=None, fnc=False, i=False))
    v = o = n = None
    if crit is not MISSING:
        v = crit
    elif kind in ("update", "field") and rng.random() < 0.35:
        o, n = rng.choice([None, "P", "A", {"v": "x"}]), rng.choice([None, "P", "A", {"v": "x"}, {"v": "y"}])
    else:
        v = rng.choice([None, "P", "P", "A", {"v": "x"}, {"cb": "is_x"}])
    return (hspec(cls, fn=n_ % 6, id=f"h{n_}", f=f, v=v, o=o, n=n, fnc=k["fnc"], r=k["r"], i=k["i"] or None,
                  rf=True if cls == "spawning" else (False if kind == "delete" else None),
                  d=rng.choice([None, True]) if kind == "resume" else None), kind)


def _rel_step(rng: random.Random, prev: dict | None, k: int, first_event: Any) -> dict:
    def draw(key: str, pool: list) -> Any:
        return prev[key] if prev is not None and rng.random() < 0.5 else rng.choice(pool)
    status = {}
    for key, pool in (("s", REL_S_VALUES), ("ss", REL_SS_VALUES), ("sx", [None, None, "x", "y"])):
        val = (prev["status"].get(key) if prev is not None and rng.random() < 0.5 else rng.choice(pool))
        if val is not None:
            status[key] = val
    ff = draw("_ff", VALS)
    return {"label": draw("label", VALS), "annotation": None, "field": draw("field", VALS), "_ff": ff,
            "spec_extra": {} if ff is None else {"ff": ff}, "status": status, "namespace": draw("namespace", ["ns", "ns", "x", "y"]),
            "stored": "follow", "event": first_event if k == 0 else "MODIFIED", "own_finalizer": "follow", "foreign_finalizer": False,
            "marked": False, "carried": False, "records": "follow", "timed": False, "wait": 0}


def related_fields_scenarios() -> list[dict]:
    """both tiers, complete: every ordered pair of related field names of one stanza (the same name twice included) as
    two handlers, once as `@kopf.on.create(field=, value=PRESENT)` + `@kopf.on.update(field=)` pairs on an object that
    HAS every field (first event: both creation handlers; then every field changes: both update handlers), once as
    `value=ABSENT` creation handlers on the same object (matched by nobody: left untouched)"""
    out = []
    full = {"label": "x", "annotation": None, "field": "x", "spec_extra": {"ff": "x"}, "status": {"s": {"t": "x"}, "ss": "x", "sx": "x"},
            "namespace": "ns", "stored": "follow", "own_finalizer": "follow", "foreign_finalizer": False, "marked": False,
            "carried": False, "records": "follow", "timed": False, "wait": 0}
    moved = dict(full, label="y", field="y", spec_extra={"ff": "y"}, status={"s": {"t": "y"}, "ss": "y", "sx": "y"}, namespace="y")
    rng = random.Random(0)            # (only to satisfy the builder's signature: every criterion is given)
    for group, fields in REL_FIELDS.items():
        for f1 in fields:
            for f2 in fields:
                hs = []
                for f in (f1, f2):
                    hs.append(_rel_handler(rng, len(hs), "changing", "create", f, crit="P"))
                    hs.append(_rel_handler(rng, len(hs), "changing", "update", f, crit=None))
                out.append({"handlers": hs, "steps": [dict(full, event="ADDED"), dict(moved, event="MODIFIED")],
                            "real_daemons": False, "stopped": []})
                if f1 != f2 and "uid" not in (f1[-1], f2[-1]):
                    hs = [_rel_handler(rng, n_, "changing", "create", f, crit="A") for n_, f in enumerate((f1, f2))]
                    out.append({"handlers": hs, "steps": [dict(full, event="ADDED")], "real_daemons": False, "stopped": []})
    return out


def random_related_fields_sequence(rng: random.Random) -> dict:
    """2-4 events for one object under 2-5 handlers (state-changing ones of every kind; sometimes an on.event handler or a
    timer as well: their fields go into the same essence) whose fields are drawn -- with repeats -- from one stanza's
    related names (30%: one more from another stanza); the values under the fields come, go and change from event to
    event; the last-handled state of every event is what kopf itself stored before (`stored: follow`)"""
    group = rng.choice(["status"] * 5 + ["metadata"] * 3 + ["spec"] * 2)
    pool = REL_FIELDS[group]
    hs: list = []
    for _ in range(rng.choice([2, 2, 3, 3, 4])):
        f = rng.choice(pool)
        if rng.random() < 0.15:
            f = rng.choice(REL_FIELDS[rng.choice(list(REL_FIELDS))])
        hs.append(_rel_handler(rng, len(hs), "changing", rng.choice(["create", "update", "update", "field", "resume", "delete"]), f))
    if rng.random() < 0.3:
        hs.append(_rel_handler(rng, len(hs), "watching", "event", rng.choice(pool)))
    if rng.random() < 0.2:
        hs.append(_rel_handler(rng, len(hs), "spawning", "timer", rng.choice(pool)))
    rng.shuffle(hs)
    hs = [(dict(h, id=f"h{n_}", fn=n_ % 6, func=n_ % 6), kind) for n_, (h, kind) in enumerate(hs)]
    first = rng.choice(["ADDED", "ADDED", None])
    steps: list = []
    for k in range(rng.choice([2, 3, 3, 4])):
        steps.append(_rel_step(rng, steps[-1] if steps else None, k, first))
    if rng.random() < 0.2:
        steps[-1]["marked"] = True
    return {"handlers": hs, "steps": steps, "real_daemons": False, "stopped": []}



async def _dmn_ignores(**_: Any) -> None:
    import asyncio
    await asyncio.sleep(0.06)           # a daemon that does not look at `stopped` for a while


async def _dmn_obeys(stopped: Any, **_: Any) -> None:
    await stopped.wait()


async def run_cycle_case(env: Env, rec: Rec, case: dict, driver_reqs: list, pending: list) -> None:
    """one registry, one object, one or several consecutive events on the same ResourceMemories"""
    import asyncio
    P, A, D = env.processing, env.application, env.daemons
    settings = env.configuration.OperatorSettings()
    settings.posting.enabled = False
    settings.background.cancellation_polling = 0.02
    settings.background.instant_exit_timeout = 0.005
    if case.get("finalizer"):          # a configured finalizer name (else kopf's default)
        settings.persistence.finalizer = case["finalizer"]
    fin = settings.persistence.finalizer
    registry = env.registries.OperatorRegistry()
    real_daemons = bool(case.get("real_daemons", False))
    hs = []
    for n_, (h, kind) in enumerate(case["handlers"]):
        override = {"temp": env.temp_fn, "ignores": _dmn_ignores, "obeys": _dmn_obeys}.get(h.get("_behave"))
        if h.get("_subs"):
            sb = h["_subs"]
            override = make_parent_fn(env, n_, h["fn"], sb["subs"], sb["via"], bool(sb.get("explicit")))
        real = env.decorate(registry, h, kind, explicit_id=True, param=n_, fn_override=override)
        hs.append(dict(h, id=doc_id(env, h, True)))
        rec.compare(f"kopf.on.{kind} → handler id", str(real.id), hs[-1]["id"], {"kind": "cycle", "case": case, "registration": n_})
    by_param = {n_: h for n_, h in enumerate(hs)}
    steps = case.get("steps") or [{k: case.get(k) for k in STEP_KEYS} | {"resumed": case.get("resumed")}]
    memories = env.inventory.ResourceMemories()
    memobase = env.ephemera.Memo()
    own_fin = False
    case = dict(case, _kopf_ann={}, _kopf_lhc=None)      # (a copy: the progress annotations kopf writes, for `records: follow`)
    orig = (P._detect_causes, P.process_resource_causes, P.process_changing_cause, A.patch_and_check,
            D.spawn_daemons, D.match_daemons, D.pause_daemons, D.stop_daemons)
    try:
        for k, step in enumerate(steps):
            own_fin = own_fin if step["own_finalizer"] == "follow" else bool(step["own_finalizer"])
            own_fin = await _one_cycle(env, rec, case, k, step, own_fin, hs, by_param, registry, settings, fin, memories, memobase,
                                       real_daemons, orig, driver_reqs, pending)
            if step.get("wait"):
                await asyncio.sleep(step["wait"])
    finally:
        (P._detect_causes, P.process_resource_causes, P.process_changing_cause, A.patch_and_check,
         D.spawn_daemons, D.match_daemons, D.pause_daemons, D.stop_daemons) = orig
        tasks = [d.task for m in memories.iter_all_memories() for d in m.daemons_memory.running_daemons.values()]
        for t in tasks:
            t.cancel()
        if tasks:
            await asyncio.gather(*tasks, return_exceptions=True)


async def _one_cycle(env: Env, rec: Rec, case: dict, k: int, step: dict, own_fin: bool, hs: list, by_param: dict, registry: Any,
                     settings: Any, fin: str, memories: Any, memobase: Any, real_daemons: bool, orig: tuple,
                     driver_reqs: list, pending: list) -> bool:
    import asyncio
    P, A, D = env.processing, env.application, env.daemons
    meta: dict[str, Any] = {"name": "obj", "namespace": step.get("namespace") or "ns", "uid": "u1", "resourceVersion": str(7 + k)}
    if step["label"] is not None:
        meta["labels"] = {LK: step["label"]}
    ann = {}
    if step["annotation"] is not None:
        ann[AK] = step["annotation"]
    followed_old: Any = None
    if step["stored"] == "follow":     # the last-handled state is what KOPF ITSELF stored in an earlier cycle of this sequence
        if case.get("_kopf_lhc"):      # (the real producer: diffbase_storage.store of the real essence); else: never handled yet
            ann[LHC_KEY], followed_old = case["_kopf_lhc"]
    elif step["stored"] not in (NOOLD, "SAME"):
        ann["kopf.zalando.org/last-handled-configuration"] = json.dumps({"spec": spec_of(step["stored"])}) + "\n"
    # progress records on the object when the event arrives: given, or what kopf itself wrote before (`follow`)
    pstorage = settings.persistence.progress_storage
    ann_storage, status_storage = list(pstorage.storages)
    status_progress: dict[str, Any] = {}
    rec_ids: list[str] = []
    if step.get("records") == "follow":
        ann.update(case["_kopf_ann"])
    else:
        for r_ in step.get("records") or []:
            rid = r_["id"] if "id" in r_ else hs[r_["h"]]["id"] + (("/" + r_["sub"]) if r_.get("sub") else "")
            base = r_["id"].rsplit("/", 1)[0] if "id" in r_ else hs[r_["h"]]["id"]
            record = dict(LEFTOVER, **({"subrefs": sorted(f"{base}/{x}" if "/" not in x else x for x in r_["subrefs"])} if r_["subrefs"] else {}))
            rec_ids.append(rid)
            if r_["in"] in ("ann", "both"):
                tmp = env.patches.Patch()
                ann_storage.store(key=rid, record=record, body=env.bodies.Body({"metadata": meta}), patch=tmp)
                ann.update({k_: v_ for k_, v_ in tmp["metadata"]["annotations"].items() if v_ is not None})
            if r_["in"] in ("status", "both"):
                status_progress[rid] = record
    if ann:
        meta["annotations"] = ann
    # somebody else's finalizers; under a configured name kopf's DEFAULT name is somebody else's as well
    fins = (["other.io/f"] + ([DEFAULT_FINALIZER] if fin != DEFAULT_FINALIZER else []) if step["foreign_finalizer"] else []) \
        + ([fin] if own_fin else [])
    if fins:
        meta["finalizers"] = fins
    if step["marked"]:
        meta["deletionTimestamp"] = "2020-01-01T00:00:00Z"
    status_ = {"s": "x"} if step.get("status") is None else json.loads(json.dumps(step["status"]))
    body = {"apiVersion": "kopf.dev/v1", "kind": "KopfExample", "metadata": meta,
            "spec": dict(spec_of(step["field"]), **(step.get("spec_extra") or {})), "status": status_}
    if not status_ and not status_progress:
        del body["status"]             # (an object that has no status at all)
    if status_progress:
        body["status"]["kopf"] = {"progress": status_progress}
    if step["stored"] == "SAME":      # the last-handled state is exactly the current essence (kopf's own builder)
        extra = (registry._watching.get_extra_fields(resource=env.resource) | registry._changing.get_extra_fields(resource=env.resource)
                 | registry._spawning.get_extra_fields(resource=env.resource))
        essence = settings.persistence.diffbase_storage.build(body=env.bodies.Body(body), extra_fields=extra)
        meta.setdefault("annotations", {})["kopf.zalando.org/last-handled-configuration"] = json.dumps(essence) + "\n"
    obs: dict[str, Any] = {"spawn": None, "causes": None, "patch": None, "handled": None, "delays": None, "applied": [],
                           "daemon_delays": [], "handler_delays": []}
    applied_fns: list[list] = []
    body_before = json.loads(json.dumps(body))

    def detect(**kw: Any) -> Any:
        obs["causes"] = orig[0](**kw)
        return obs["causes"]

    async def prc(**kw: Any) -> Any:
        obs["patch"] = kw["patch"]
        r = await orig[1](**kw)
        obs["delays"] = list(r[0])
        return r

    async def pcc(**kw: Any) -> Any:
        obs["handled"] = True
        r = await orig[2](**kw)
        obs["handler_delays"] = list(r)
        return r

    async def pac(**kw: Any) -> Any:
        obs["applied"].append({"patch": json.loads(json.dumps(dict(kw["patch"]), default=repr)),
                               "fns": [getattr(f, "func", f).__name__ for f in kw["patch"].fns]})
        applied_fns.append(list(kw["patch"].fns))
        # like the API: a non-empty patch is applied and moves the resourceVersion; an empty one sends nothing -- and
        # neither do transformation functions alone that have nothing to transform in the object (no JSON-patch
        # operation: patching.patch_obj sends no request and returns no version)
        sends = bool(dict(kw["patch"]))
        if not sends and kw["patch"].fns:
            probe = json.loads(json.dumps(body_before))
            for f_ in kw["patch"].fns:
                f_(probe)
            sends = probe != body_before
        return (str(1000 + k), None) if sends else (None, None)

    async def spawn(**kw: Any) -> Any:
        obs["spawn"] = [str(h.id) for h in kw["handlers"]]
        r = list(await orig[4](**kw)) if real_daemons else []
        obs["daemon_delays"] += r      # (/repo ef26531: a matching handler whose old daemon is still being escorted out)
        return r

    async def matchd(**kw: Any) -> Any:
        r = list(await orig[5](**kw)) if real_daemons else []
        obs["daemon_delays"] += r
        return r

    async def pause(**kw: Any) -> Any:
        r = list(await orig[6](**kw)) if real_daemons else []
        obs["daemon_delays"] += r
        return r

    async def stopd(**kw: Any) -> Any:
        r = list(await orig[7](**kw)) if real_daemons else []
        if kw.get("reason") is None or "FILTERS" not in str(kw.get("reason")):   # called directly (deletion), not via match_daemons
            obs["daemon_delays"] += r
        return r
    env.calls.clear()
    env.subtrace.clear()
    P._detect_causes, P.process_resource_causes, P.process_changing_cause = detect, prc, pcc
    A.patch_and_check = pac
    D.spawn_daemons, D.match_daemons, D.pause_daemons, D.stop_daemons = spawn, matchd, pause, stopd
    cmode = carried_mode(step.get("carried", False))
    carried = cmode is not None
    carried_ops = False
    if carried:       # does the carried function still change the object at hand? (applied to a copy, compared)
        probe = json.loads(json.dumps(body))
        CARRIED_FNS[cmode](probe)
        carried_ops = probe != body_before
    preset = step.get("resumed")
    mem = None
    if carried or preset:
        mem = await memories.recall(body, noticed_by_listing=step["event"] is None, memobase=memobase)
        if carried:   # an earlier cycle's handler transformation whose JSON-patch was rejected (HTTP 422)
            mem.remaining_patch = env.patches.Patch(fns=[CARRIED_FNS[cmode]])
        if preset:    # resuming handlers that already reached a final outcome here (/repo 6c4463d)
            mem.resumed_handlers.update(preset)
    known = list(memories.iter_all_memories())
    pre_resumed = sorted(known[0].resumed_handlers) if known else []
    pre_stopped = sorted(str(x) for x in known[0].daemons_memory.forever_stopped) if known else []
    import warnings
    raised: Exception | None = None
    with SubSpy(env, registry._changing), warnings.catch_warnings():
        warnings.simplefilter("ignore")
        try:
            await P.process_resource_event(
                lifecycle=env.lifecycles.all_at_once, indexers=env.indexing.OperatorIndexers(), registry=registry, settings=settings,
                memories=memories, memobase=memobase, resource=env.resource,
                raw_event={"type": step["event"], "object": body}, event_queue=asyncio.Queue(), no_throttling=True,
                # a consistency deadline that is over already (else: pre-proven consistency)
                consistency_time=(asyncio.get_running_loop().time() - 1.0) if step.get("timed") else None)
        except Exception as e:  # noqa: BLE001  (the filters of the standard streams never raise)
            raised = e
    if raised is not None or obs["patch"] is None or obs["causes"] is None:
        rec.evaluations += 1
        rec.oracle_fail(f"process_resource_event raised {type(raised).__name__}: {raised}", {"kind": "cycle", "case": case, "step": k},
                        {"site": "processing.process_resource_event", "shape": f"raises {type(raised).__name__}"})
        return own_fin
    patch = obs["patch"]
    fns = [getattr(f, "func", f).__name__ for f in patch.fns]
    patch_dict = json.loads(json.dumps(dict(patch), default=repr))
    touched = any("touch-dummy" in json.dumps(a["patch"]) and a["patch"].get("metadata", {}).get("annotations", {}).get(
        "kopf.zalando.org/touch-dummy") is not None for a in obs["applied"][1:])
    called = list(env.calls)
    watch_called = [by_param[p]["id"] for _, p in called if by_param[p]["_cls"] == "watching"]
    changing_called = [by_param[p]["id"] for _, p in called if by_param[p]["_cls"] == "changing"]
    handled = bool(obs["handled"])
    # the progress records: which are on the object (kopf's own reader, both storages), which the cycle's patch
    # takes away entirely (a record removed from one storage only still "is there")
    def record_of(obj: dict, rid: str) -> Any:
        return pstorage.fetch(key=rid, body=env.bodies.Body(obj))
    own_ids = [h["id"] for h in hs if h["_cls"] == "changing"]
    cand: set[str] = set(rec_ids) | set(own_ids)
    grow = True
    while grow:                                   # + the sub-handler records the records found name (`subrefs`)
        more = {x for rid in cand for x in ((record_of(body_before, rid) or {}).get("subrefs") or [])} - cand
        cand |= more
        grow = bool(more)
    present = {rid: record_of(body_before, rid) for rid in cand}
    present = {rid: rec0 for rid, rec0 in present.items() if rec0 is not None}
    after_patch = merge_patch(body_before, patch_dict)
    purged = sorted(rid for rid in present if record_of(after_patch, rid) is None)
    records_in = [[rid, sorted(present[rid].get("subrefs") or [])] for rid in sorted(present)]
    def changes(fn_: Any) -> bool:
        probe_ = json.loads(json.dumps(body_before))
        fn_(probe_)
        return probe_ != body_before
    # a carried transformation is RE-SENT: it is in the cycle's patch and still has something to change in the object
    resent = any(getattr(f, "func", f).__name__ in CARRIED_NAMES and changes(f) for f in patch.fns)
    impl = {"carried": resent, "watch": sorted(watch_called), "spawn": sorted(obs["spawn"] or []),
            "fins": [{"block_deletion": "fin+", "allow_deletion": "fin-"}.get(n_, n_) + ("" if a_ in (None, fin) else f"({a_})")
                     for n_, a_ in ((getattr(f, "func", f).__name__, (getattr(f, "keywords", None) or {}).get("finalizer"))
                                    for f in patch.fns) if n_ not in CARRIED_NAMES],
            "handle": sorted(changing_called) if handled else None,
            "touch": touched and not handled,        # (what the handling leaves in the patch is C02's: not compared)
            "purge": purged if not handled else [],  # (likewise: the purges of process_changing_cause are C02's/C03's)
            "delays": bool(obs["delays"])}
    lingering, hdelays = bool(obs["daemon_delays"]), bool(obs["handler_delays"])
    rec.evaluations += 1
    cs = obs["causes"]
    rec.count("cycle: changing cause reason", "-" if cs.changing_cause is None else cs.changing_cause.reason.value)
    rec.count("cycle: writes", "none" if not patch_dict and not fns and not touched else
              "+".join(x for x, on in (("carried", impl["carried"]), ("finalizer", bool(impl["fins"])), ("patch", bool(patch_dict)), ("touch", touched)) if on))
    rec.count("cycle: residues", f"lingering={int(lingering)} handler-delays={int(hdelays)} resumed={int(bool(pre_resumed))} carried={cmode or 0}")
    rec.count("cycle: progress records on the object / purged by the cycle", f"{len(present)} / {len(purged)}")
    rec.count("cycle: consistency", "deadline over" if step.get("timed") else "pre-proven")
    rec.count("cycle: daemons", "real" if real_daemons else "stubbed")
    replay = {"kind": "cycle", "case": case, "step": k, "impl": impl, "patch": patch_dict}

    # ---- the stealth clause, from the property: matched by no handler → nothing of the framework's is put on it
    labels = meta.get("labels", {})
    annotations = meta.get("annotations", {})

    def st_for(cls: str) -> dict:
        if cls == "changing" and cs.changing_cause is not None:
            c = cs.changing_cause
            old = None if c.old is None else json.loads(json.dumps(dict(c.old)))
            new = None if c.new is None else json.loads(json.dumps(dict(c.new)))
            return {"_cls": cls, "ch": True, "l": labels, "a": annotations, "b": body, "o": old, "n": new,
                    "r": c.reason.value, "i": bool(c.initial), "m": step["marked"]}
        return {"_cls": cls, "ch": cls == "changing", "l": labels, "a": annotations, "b": body, "o": None, "n": None,
                "r": "noop", "i": False, "m": step["marked"]}
    sts = {cls: st_for(cls) for cls in ("watching", "spawning", "changing")}
    # ---- the ORACLE's own reading of the object (not kopf's cause): the current value of a field is the object's, the
    # old value is the last-handled state's (what this harness wrote into the annotation: `stored`); kopf's essence of
    # the object must give the criteria the same values (the fields of the resource's handlers are part of it:
    # `get_extra_fields`, also outside spec -- "status.s")
    stored = step["stored"]
    ind_old = None if stored == NOOLD else (body_before if stored == "SAME" else followed_old if stored == "follow" else {"spec": spec_of(stored)})
    doc_sts = dict(sts)
    if cs.changing_cause is not None:
        doc_sts["changing"] = dict(sts["changing"], o=ind_old, n=body_before)
        for h in hs:
            if h["_cls"] == "changing" and h["f"] and (h["_sel"] is None or h["sel"]):
                seen_v = [doc_resolve(sts["changing"]["n"], h["f"]), MISSING if sts["changing"]["o"] is None else doc_resolve(sts["changing"]["o"], h["f"])]
                real_v = [doc_resolve(body_before, h["f"]), MISSING if ind_old is None else doc_resolve(ind_old, h["f"])]
                if (sts["changing"]["o"] is None) != (ind_old is None) or not all(
                        (a_ is MISSING and b_ is MISSING) or (a_ is not MISSING and b_ is not MISSING and strict_eq(a_, b_))
                        for a_, b_ in zip(seen_v, real_v)):
                    rec.oracle_fail(f"the criteria of handler {h['id']} on field {'.'.join(h['f'])} are decided on new/old = {seen_v}, "
                                    f"the object's current value / the last-handled one are {real_v}", replay,
                                    {"site": "processing._detect_causes", "shape": "a field criterion is decided on a value that is not the object's"})
    # ---- the finalizers after the cycle's requests: only the CONFIGURED name is the framework's to add or remove
    after_all = json.loads(json.dumps(body_before))
    for a_, fns_ in zip(obs["applied"], applied_fns):
        after_all = merge_patch(after_all, a_["patch"])
        for f_ in fns_:
            f_(after_all)
    fins0 = list(body_before.get("metadata", {}).get("finalizers") or [])
    fins1 = list((after_all.get("metadata") or {}).get("finalizers") or [])
    if [x for x in fins0 if x != fin] != [x for x in fins1 if x != fin]:
        rec.oracle_fail(f"finalizers {fins0} -> {fins1}: the framework's finalizer is {fin!r} (settings.persistence.finalizer), "
                        f"no other one is its to add or remove", replay,
                        {"site": "processing.process_resource_causes", "shape": "a finalizer other than the configured one is added or removed"})
    rec.count("cycle: finalizer name", "configured" if fin != DEFAULT_FINALIZER else "default")
    # ---- "for every event the set of handlers invoked is exactly the set whose declared criteria all hold", on the
    # whole cycle: on.event handlers (every event, DELETED included), daemons/timers handed to the spawner (not
    # for an object in deletion or gone), change handlers (soundness always; completeness when the cycle is one in
    # which kopf owes the invocation: see `owed`)
    verdicts = {h["id"]: doc_match(h, doc_sts[h["_cls"]]) for h in hs}
    if all(v is not None for v in verdicts.values()):
        def ids_of(cls: str, dev: frozenset = frozenset()) -> list:
            return sorted(h["id"] for h in hs if h["_cls"] == cls and doc_match(h, doc_sts[cls], dev)
                          and (cls != "changing" or doc_gate(h, doc_sts[cls])))
        want_w = ids_of("watching")
        if sorted(watch_called) != want_w:
            rec.oracle_fail(f"on.event handlers invoked for this {step['event']} event: {sorted(watch_called)}; their declared criteria "
                            f"select {want_w}", replay,
                            {"site": "processing.process_watching_cause", "shape": "the on.event handlers invoked are not those whose declared criteria hold"})
        if step["event"] != "DELETED":
            want_s = [] if step["marked"] else [i for i in ids_of("spawning") if i not in pre_stopped]
            if sorted(obs["spawn"] or []) != want_s:
                rec.oracle_fail(f"daemons/timers handed to the spawner: {sorted(obs['spawn'] or [])}; their declared criteria select {want_s}"
                                f"{' (the object is in deletion)' if step['marked'] else ''}", replay,
                                {"site": "processing.process_spawning_cause", "shape": "the daemons/timers spawned are not those whose declared criteria hold"})
        reason_ = sts["changing"]["r"]
        handler_reason = cs.changing_cause is not None and reason_ in ("create", "update", "delete", "resume")
        want_c = ids_of("changing") if handler_reason else []
        if len(set(changing_called)) != len(changing_called):
            rec.oracle_fail(f"a change handler was invoked twice in one cycle: {changing_called}", replay,
                            {"site": "processing.process_changing_cause", "shape": "a handler is invoked twice for one cause"})
        extra = sorted(set(changing_called) - set(want_c))
        if extra:
            sig = next((s for dev, s in DEVIATIONS if handler_reason and not set(changing_called) - set(ids_of("changing", dev))), None)
            rec.oracle_fail(f"change handlers {extra} were invoked for a {reason_} cause although their declared criteria (or their "
                            f"kind) do not hold: invoked {sorted(changing_called)}, the criteria select {want_c}", replay,
                            sig or {"site": "processing.process_changing_cause", "shape": "a change handler is invoked although a declared criterion fails"})
        # owed: the cycle is not given to a finalizer edit, does not exit early for a carried patch; the handler has
        # no progress record on the object (a started handler may be asleep or finished: C02's), is not a resuming
        # handler that has finished in this process already (/repo 6c4463d); all-at-once lifecycle (as passed in)
        owed = [i for i in want_c if i not in present and not (i in pre_resumed and any(h["id"] == i and h["i"] for h in hs))]
        if handler_reason and not carried and (handled or not impl["fins"]) and step["event"] != "DELETED":
            missing = sorted(set(owed) - set(changing_called))
            rec.count("cycle: change handlers owed / invoked", f"{min(len(owed), 3)} / {min(len(changing_called), 3)}")
            if missing:
                rec.oracle_fail(f"change handlers {missing} were not invoked for a {reason_} cause although their declared criteria "
                                f"hold (no progress record on the object, nothing carried, no finalizer cycle): invoked "
                                f"{sorted(changing_called)}, handled={handled}", replay,
                                {"site": "processing.process_changing_cause", "shape": "a change handler whose declared criteria hold is not invoked"})
    else:
        rec.count("oracle", "undefined (cycle: invoked = criteria)")
    object_level = [doc_prematch(h, doc_sts[h["_cls"]]) for h in hs]
    if all(v is not None for v in object_level):
        nobody = not any(object_level)
        rec.count("cycle: matched by no handler", nobody)
        if nobody:
            # "Objects matched by no handler are left untouched: no annotations, no finalizer." Judged on what is SENT
            # (every request of the cycle applied, in order, to a copy of the object: merge-patch, then the
            # transformation functions): nothing is called or spawned for the object, and the object afterwards is the
            # object before MINUS marks of the framework itself -- its finalizer, progress records of this
            # operator's handlers for this resource (and of the sub-handlers those records name) that were ON the
            # object. Nothing added, nothing changed, nothing of anybody else removed: taking one's own leftovers
            # off is what makes "no annotations, no finalizer" true; putting anything on is what it forbids.
            # (Since /repo ad4ec08 the code takes only its finalizer off: records are "its own" by NAME only, and
            # another deployment's records have the same names -- the two-operator oracle below reads the clause
            # literally for that set-up. This single-operator reading stays as it is: a repair that purges only what
            # this very process stored would conform to it.)
            owned = {h["id"] for h in hs if h["_cls"] == "changing" and (h["_sel"] is None or h["sel"])}
            own_recs = {rid for rid in present if rid in owned} | \
                {x for rid in present if rid in owned for x in (present[rid].get("subrefs") or [])}
            allowed: set[tuple] = set()
            for rid in own_recs:
                allowed |= {("metadata", "annotations", k_) for k_ in ann_storage.make_keys(rid, body=env.bodies.Body(body_before))}
                allowed.add(("status", "kopf", "progress", rid))
            containers = (("metadata", "annotations"), ("status", "kopf"), ("status", "kopf", "progress"))

            def sent(skip_fn: str | None = None, skip_touch: bool = False) -> tuple[bool, str]:
                """the object after the cycle's requests vs. before: (conforming?, why not)"""
                after = json.loads(json.dumps(body_before))
                for n_, (a_, fns_) in enumerate(zip(obs["applied"], applied_fns)):
                    if skip_touch and n_ >= 1:
                        continue
                    after = merge_patch(after, a_["patch"])
                    for f_ in fns_:
                        if getattr(f_, "func", f_).__name__ != skip_fn:
                            f_(after)
                fins0 = list(body_before.get("metadata", {}).get("finalizers") or [])
                fins1 = list(after.get("metadata", {}).get("finalizers") or [])
                if fins1 not in (fins0, [x for x in fins0 if x != fin]):
                    return False, f"finalizers {fins0} -> {fins1}"
                b0, b1 = json.loads(json.dumps(body_before)), after
                for b_ in (b0, b1):
                    b_.get("metadata", {}).pop("finalizers", None)
                ok_, removed = only_removals(b0, b1)
                if not ok_:
                    return False, "something was added or changed"
                # (containers emptied by the removals may go with them: the API drops empty annotations)
                strays = [p_ for p_ in removed if p_ not in allowed and not (
                    p_ in containers and all(q_ in allowed or q_ in containers for q_ in removed if q_[:len(p_)] == p_ and q_ != p_)
                    and any(q_ in allowed for q_ in removed if q_[:len(p_)] == p_))]
                return (not strays), f"removed although not an own progress record on the object: {strays}"
            conforming, why = sent()
            if conforming and own_fin and step["event"] != "DELETED" and fin in fins1:
                # "no finalizer": the framework's own finalizer does not stay on an object nothing matches
                conforming, why = False, f"the framework's finalizer {fin!r} is left on the object"
            unchanged = conforming and all(
                merge_patch(body_before, a_["patch"]) == body_before and not any(changes(f_) for f_ in fns_)
                for a_, fns_ in zip(obs["applied"], applied_fns))
            quiet = not called and not obs["spawn"]
            rec.count("cycle: unmatched object", ("own finalizer / " if own_fin else "") + (
                "nothing sent" if unchanged else
                "only own marks removed" if conforming else "WRITTEN TO"))
            if not conforming or not quiet:
                only_carried = quiet and not touched and "carried_user_fn" in [n_ for a_ in obs["applied"][:1] for n_ in a_["fns"]] \
                    and sent(skip_fn="carried_user_fn")[0]
                only_touch = quiet and touched and lingering and sent(skip_touch=True)[0]
                sig = FINDING_CARRIED if only_carried else FINDING_TOUCH if only_touch else next(
                    (s for dev, s in DEVIATIONS if any(doc_prematch(h, doc_sts[h["_cls"]], dev) for h in hs)), None)
                rec.oracle_fail(f"an object matched by no handler was touched: patch={patch_dict} fns={fns} touch-dummy={touched} "
                                f"invoked={called} spawned={obs['spawn']}: {why}",
                                replay, sig or {"site": "processing.process_resource_causes", "shape": "unmatched object touched"})
    else:
        rec.count("oracle", "undefined (cycle)")
    rec.nontrivial.add(f"cycle|{len(hs)}|{step['event']}|{int(own_fin)}{int(step['marked'])}|"
                       f"{'-' if cs.changing_cause is None else cs.changing_cause.reason.value}|{impl['fins']}|"
                       f"{impl['handle'] is not None}|{len(impl['watch'])}|{len(impl['spawn'])}|c{int(carried)}l{int(lingering)}"
                       f"d{int(hdelays)}r{int(bool(pre_resumed))}t{int(touched)}")
    # ---- the tie: the model's cycle on the same registry, causes, object flags and in-memory residues
    def side(cls: str) -> list:
        return [lean_h(h) for h in hs if h["_cls"] == cls]
    o = {"deleted": step["event"] == "DELETED", "ongoing": bool(step["marked"]), "blocked": own_fin, "carried": carried,
         "carriedOps": carried_ops, "lingering": lingering, "hdelays": hdelays, "resumed": pre_resumed,
         "records": records_in, "timed": bool(step.get("timed"))}
    driver_reqs.append(["C15.cycle", side("watching"), side("spawning"), side("changing"),
                        lean_c(sts["watching"]), lean_c(sts["spawning"]), lean_c(sts["changing"]), o, pre_stopped, VARIANT[0]])
    pending.append(("cycle effects", impl, replay))
    # ---- sub-handlers: every parent that ran declared them while running; kopf selected and invoked them
    sub_runs = split_subtrace(env.subtrace)
    released = bool(step["marked"]) and "fin-" in impl["fins"]
    for n_, h in by_param.items():
        if not h.get("_subs"):
            continue
        if n_ not in sub_runs:
            if any(p == n_ for _, p in called):
                raise RuntimeError("harness: a parent was invoked but left no trace")
            continue
        sb = h["_subs"]
        kind_ = case["handlers"][n_][1]
        judge_subs(env, rec, parent_kind=kind_, via=sb["via"], subs=sb["subs"], seen=sub_runs[n_], st=sts["changing"], judged=True,
                   replay=replay, reqs=driver_reqs, pending=pending, n_=n_, released=released, parent_field=bool(h["f"]),
                   parent_id=h["id"])
        if released and any(x[0] == "temp" for x in sub_runs[n_]["ran"]):
            rec.oracle_fail("the finalizer was released in the cycle in which a sub-handler of the deletion handler asked to be retried",
                            replay, {"site": "processing.process_resource_causes",
                                     "shape": "finalizer released while a sub-handler of the deletion handler is not finished"})
    rec.count("cycle: parents with sub-handlers that ran", len(sub_runs))
    # the own finalizer of the next event: what kopf itself queued now
    for f in impl["fins"]:
        own_fin = f == "fin+"
    # the last-handled state of the next event (`stored: follow`): the annotation kopf itself wrote, and the object it was
    # written for (the oracle's old values are THAT object's, not what the annotation says)
    for a_ in obs["applied"]:
        v_ = ((a_["patch"].get("metadata") or {}).get("annotations") or {}).get(LHC_KEY, MISSING)
        if v_ is not MISSING:
            case["_kopf_lhc"] = None if v_ is None else (v_, body_before)
    # the progress annotations of the next event (`records: follow`): what kopf itself wrote, cycle after cycle
    if step["event"] != "DELETED":
        keep = dict(case["_kopf_ann"]) if step.get("records") == "follow" else {}
        for a_ in obs["applied"]:
            for k_, v_ in ((a_["patch"].get("metadata") or {}).get("annotations") or {}).items():
                if k_.startswith("kopf.zalando.org/") and not k_.endswith(("/last-handled-configuration", "/touch-dummy")):
                    if v_ is None:
                        keep.pop(k_, None)
                    else:
                        keep[k_] = v_
        case["_kopf_ann"].clear()
        case["_kopf_ann"].update(keep)
    return own_fin


# =============================================================================================
# stacked registrations in a closed loop: ONE function under ONE id registered for several reasons
# (@kopf.on.update + @kopf.on.delete, @kopf.on.create + @kopf.on.resume, ...): "invoked once" per cause, and invoked
# at all for every cause its criteria hold for -- also when that cause supersedes another one while a sibling is
# still retrying (/repo f7d6401: the namesake's finished record is not inherited; C03-N3 seen from this property)
# =============================================================================================
FINDING_STACKED = {"site": "processing.process_changing_cause", "shape": "stacked registration (one function, one id, several reasons)"}
# C15-F10, the residual that /repo f7d6401 names itself ("not covered by this patch"): the function is ALSO registered
# for resuming, BEFORE the registration for the reason at hand: `_deduplicated` keeps the resuming one (no reason of
# its own), whose record -- the namesake's finished one -- is still re-purposed
FINDING_STACKED_RESUME = {"site": "processing.process_changing_cause",
                          "shape": "stacked registration, the resuming one first: it is the one _deduplicated keeps, its namesake's finished record is re-purposed",
                          "what": "the handler registered for the cause at hand is never invoked for it"}
STACKS = (("update", "delete"), ("create", "delete"), ("create", "update"), ("create", "resume"), ("update", "resume"),
          ("create", "update", "delete"), ("resume", "delete"), ("create", "update", "delete", "resume"))


def stacked_cases(rng: random.Random | None, n: int) -> list[dict]:
    """`stack`: the reasons the function `h` (id `h`) is registered for, in that order; `sibling`: another function
    (id `sib`) of one kind that asks to be retried `temp` times; `timeline`: what happens to the object -- `edit`
    (spec changes), `mark` (deletion requested), `restart` (the operator forgets its memory and lists the object) --
    when the operator has gone quiet, or with `!` as soon as a handler has been called for the previous step (the
    new cause supersedes the one still being handled); `listing`: the object is first seen by listing"""
    out = [{"stack": ["update", "delete"], "sibling": {"kind": "update", "temp": 9}, "timeline": ["edit", "mark!"], "listing": False},
           {"stack": ["create", "delete"], "sibling": {"kind": "create", "temp": 9}, "timeline": ["mark!"], "listing": False},
           {"stack": ["create", "resume"], "sibling": None, "timeline": ["edit", "restart", "mark"], "listing": True},
           {"stack": ["create", "update", "delete", "resume"], "sibling": {"kind": "update", "temp": 2},
            "timeline": ["edit", "restart", "edit", "mark"], "listing": False},
           {"stack": ["update", "resume"], "sibling": {"kind": "delete", "temp": 2}, "timeline": ["edit", "mark"], "listing": True},
           {"stack": ["delete", "resume+", "create"], "sibling": {"kind": "create", "temp": 3}, "timeline": ["mark!"], "listing": True}]
    while rng is not None and len(out) < n:
        stack = list(rng.choice(STACKS))
        rng.shuffle(stack)
        if "resume" in stack and rng.random() < 0.4:
            stack[stack.index("resume")] = "resume+"        # @kopf.on.resume(deleted=True)
        sib = None if rng.random() < 0.3 else {"kind": rng.choice(["create", "update", "update", "delete"]), "temp": rng.choice([1, 2, 3])}
        tl = [rng.choice(["edit", "edit", "restart", "restart!"] if sib else ["edit", "edit", "restart"]) for _ in range(rng.randint(0, 3))]
        last = rng.choice(["mark", "mark!", "mark!", None])
        if last == "mark!" and sib is not None:
            sib["temp"] = rng.choice([1, 3, 9])       # (only a superseded cause may be left unfinished)
        out.append({"stack": stack, "sibling": sib, "timeline": tl + ([last] if last else []), "listing": rng.random() < 0.3})
    return out[:n]


async def run_stacked_case(env: Env, rec: Rec, case: dict) -> None:
    import asyncio
    import copy
    P, A = env.processing, env.application
    settings = env.configuration.OperatorSettings()
    settings.posting.enabled = False
    fin = settings.persistence.finalizer
    registry = env.registries.OperatorRegistry()
    calls: list[dict] = []
    now = {"cycle": 0, "episode": 0}

    def make(name: str, temp: int) -> Any:
        async def fn(**kw: Any) -> None:
            calls.append({"fn": name, "reason": kw["reason"].value, "retry": kw["retry"], "param": kw["param"], **now})
            if kw["retry"] < temp:
                raise env.kopf.TemporaryError("come back later", delay=0.001)
        fn.__name__ = fn.__qualname__ = name
        return fn
    h = make("h", 0)
    for k in case["stack"]:               # stacked decorators: the same function object, the same id, one handler per reason
        getattr(env.kopf.on, k.rstrip("+"))(PLURAL, registry=registry, id="h", param=k, **({"deleted": True} if k == "resume+" else {}))(h)
    kinds = [k.rstrip("+") for k in case["stack"]]
    sib = case.get("sibling")
    if sib:
        getattr(env.kopf.on, sib["kind"])(PLURAL, registry=registry, id="sib", param="sib")(make("sib", sib["temp"]))
    body: dict[str, Any] = {"apiVersion": "kopf.dev/v1", "kind": "KopfExample",
                            "metadata": {"name": "obj", "namespace": "ns", "uid": "u1", "resourceVersion": "1"}, "spec": {"x": 0}}
    rv = [1]
    gone = [False]

    async def pac(**kw: Any) -> Any:
        before = copy.deepcopy(body)
        new = merge_patch(body, json.loads(json.dumps(dict(kw["patch"]))))
        for f_ in kw["patch"].fns:
            f_(new)
        if not (new.get("metadata") or {}).get("finalizers"):
            (new.get("metadata") or {}).pop("finalizers", None)
        if new == before:
            return (None, None) if not dict(kw["patch"]) else (str(rv[0]), None)
        rv[0] += 1
        new["metadata"]["resourceVersion"] = str(rv[0])
        body.clear()
        body.update(new)
        return str(rv[0]), None
    memories = env.inventory.ResourceMemories()
    memobase = env.ephemera.Memo()
    timeline = list(case["timeline"])
    episodes: list[dict] = [{"kind": "create", "initial": bool(case["listing"]), "superseded": False}]
    pending: Any = "listing" if case["listing"] else "ADDED"
    orig = A.patch_and_check
    A.patch_and_check = pac
    quiet = True
    try:
        for cyc in range(80):
            if pending is None:
                if gone[0] or not timeline:
                    break
                act = timeline.pop(0).rstrip("!")
                pending = _stacked_act(act, body, rv, episodes, now)
                if act == "restart":
                    memories = env.inventory.ResourceMemories()
            if "deletionTimestamp" in body["metadata"] and not body["metadata"].get("finalizers"):
                gone[0], pending = True, "DELETED"
            etype, pending = pending, None
            now["cycle"] = cyc
            seen = copy.deepcopy(body)
            n0 = len(calls)
            import warnings
            with warnings.catch_warnings():
                warnings.simplefilter("ignore")
                await P.process_resource_event(
                    lifecycle=env.lifecycles.all_at_once, indexers=env.indexing.OperatorIndexers(), registry=registry,
                    settings=settings, memories=memories, memobase=memobase, resource=env.resource,
                    raw_event={"type": None if etype == "listing" else etype, "object": seen},
                    event_queue=asyncio.Queue(), no_throttling=True, consistency_time=None)
            if etype == "DELETED":
                break
            if body != seen:
                pending = "MODIFIED"
            # a step marked `!` happens as soon as a handler has been called for the cause being handled
            if timeline and timeline[0].endswith("!") and len(calls) > n0 and not gone[0]:
                episodes[-1]["superseded"] = pending is not None
                act = timeline.pop(0).rstrip("!")
                pending = _stacked_act(act, body, rv, episodes, now)
                if act == "restart":
                    memories = env.inventory.ResourceMemories()
                    # a restart in the middle of a handling: the listing shows the open cause again, now `initial`
                    # (what a resuming handler that shares its record with a reason-bound namesake owes then is
                    # not judged; the following causes are)
                    episodes[-1]["murky"] = episodes[-2]["superseded"]
        else:
            quiet = False
    finally:
        A.patch_and_check = orig
    rec.evaluations += 1
    rec.traces += 1
    rec.count("stacked: reasons of the one function", "+".join(case["stack"]))
    rec.count("stacked: sibling", "none" if not sib else f"on.{sib['kind']} retried x{min(sib['temp'], 4)}{'+' if sib['temp'] > 4 else ''}")
    rec.count("stacked: timeline", ",".join(case["timeline"]) or "-")
    replay = {"kind": "stacked", "case": case, "calls": calls}
    problems: list[str] = []
    residual: list[bool] = []       # is every problem the known residual (C15-F10)?
    # (a) once per cycle: no function (under its one id) is called twice in one handling cycle
    for c_ in sorted({c["cycle"] for c in calls}):
        names = [c["fn"] for c in calls if c["cycle"] == c_]
        if len(set(names)) != len(names):
            problems.append(f"cycle {c_}: {names} -- one function under one id was invoked twice for one cause")
    # (b) a call's reason is one the function is registered for
    for c in calls:
        if c["fn"] == "h" and c["reason"] not in kinds and not ("resume" in kinds and any(ep.get("murky") for ep in episodes[:c["episode"] + 1])):
            problems.append(f"h was invoked for reason {c['reason']}, it is registered for {case['stack']}")
    # (c) exactly once per cause: for every cause the function is registered for (its criteria hold: there are no
    #     filters) it is invoked -- it succeeds at once -- exactly once; for the other causes not at all
    for e_, ep in enumerate(episodes):
        n_h = sum(1 for c in calls if c["fn"] == "h" and c["episode"] == e_)
        # (a creation is never "initial" -- causes.detect_changing_cause: "creation never mixes with resuming, even if
        #  an object is detected on startup"; a restart in a quiet moment shows a resuming cause: reason `resume`)
        declared = ep["kind"] in kinds
        if ep.get("murky"):
            if n_h > 1:
                problems.append(f"cause #{e_} (restart in the middle of a handling): h was invoked {n_h} times")
            continue
        want = 1 if declared and not ep.get("unseen") else 0
        rec.count("stacked: calls of the function per cause (wanted / got)", f"{ep['kind']}{'+initial' if ep['initial'] else ''}: {want} / {n_h}")
        if n_h != want and not (ep["superseded"] and n_h == 0 and not any(c["episode"] == e_ for c in calls)):
            problems.append(f"cause #{e_} ({ep['kind']}{', first sight' if ep['initial'] else ''}): h -- registered for {case['stack']} -- "
                            f"was invoked {n_h} times, wanted {want}")
            # the shape of C15-F10: not invoked at all, for a cause whose registration comes AFTER a resuming one, in a
            # process that has not yet handled the object to the end once: since it first saw the object by listing (at
            # its start, or after a restart) every cause was superseded before its handling ended
            resuming_first = any(k_ == "resume" for k_ in kinds[:kinds.index(ep["kind"])]) if ep["kind"] in kinds else False
            listings = [n_ for n_, x in enumerate(episodes[:e_]) if x["kind"] == "resume" or (n_ == 0 and case["listing"])]
            unsettled = bool(listings) and all(x["superseded"] for x in episodes[listings[-1]:e_])
            residual.append(want == 1 and n_h == 0 and resuming_first and unsettled)
        if sib and not ep["superseded"] and ep["kind"] == sib["kind"] and not ep.get("unseen"):
            n_s = sum(1 for c in calls if c["fn"] == "sib" and c["episode"] == e_)
            if n_s != sib["temp"] + 1:
                problems.append(f"cause #{e_} ({ep['kind']}): the sibling was invoked {n_s} times, wanted {sib['temp'] + 1}")
    if not quiet:
        problems.append("the operator did not go quiet within 80 cycles")
    rec.nontrivial.add(f"stacked|{'+'.join(case['stack'])}|{bool(sib) and sib['kind']}|{','.join(case['timeline'])}|{bool(problems)}")
    if problems:
        rec.oracle_fail("stacked registrations (one function, one id): " + "; ".join(problems[:4]), replay,
                        FINDING_STACKED_RESUME if residual and len(residual) == len(problems) and all(residual) else FINDING_STACKED)


def _stacked_act(act: str, body: dict, rv: list, episodes: list, now: dict) -> str:
    """a foreign action on the object; opens the next cause; returns the type of the event it makes"""
    marked = "deletionTimestamp" in body["metadata"]
    kind = {"edit": "update", "mark": "delete", "restart": "resume"}[act]
    if act == "edit":
        body["spec"]["x"] += 1
    elif act == "mark":
        body["metadata"]["deletionTimestamp"] = "2020-01-01T00:00:00Z"
    # an object that is gone at once (no finalizer) shows no deletion cause; an edit of a marked object is no update cause
    unseen = (act == "mark" and not body["metadata"].get("finalizers")) or (marked and act != "mark")
    if act != "restart":
        rv[0] += 1
        body["metadata"]["resourceVersion"] = str(rv[0])
    episodes.append({"kind": kind, "initial": act == "restart", "superseded": False, "unseen": unseen})
    now["episode"] = len(episodes) - 1
    return "listing" if act == "restart" else "MODIFIED"


# =============================================================================================
# (S) two operators, one cluster: the stealth clause seen from the OTHER operator (finding C15-F9: introduced by
# /repo 423b86f, fixed by its revert ad4ec08 -- these runs are its regression: reverting ad4ec08 makes them fail)
# =============================================================================================
FINDING_SHARDS = {"site": "processing.process_resource_causes (blind branch)", "shape": "writes to an object it never matched",
                  "what": "an operator patches away progress records that another operator (same handler ids, other filters) wrote"}


def shard_cases(rng: random.Random | None, n: int) -> list[dict]:
    """the same operator code deployed twice (same handler ids, default annotation prefix, no finalizer),
    each deployment filtered to its own share of the objects by a label / an annotation; one object per
    share; the handler asks to be retried `temp` times (delay `delay` s), at most `retries` times"""
    out = [{"by": "label", "kind": "create", "delay": 1, "retries": 3, "temp": 9, "objects": ["b"], "span": 4},
           {"by": "annotation", "kind": "update", "delay": 1, "retries": 2, "temp": 1, "objects": ["a", "b"], "span": 3}]
    while rng is not None and len(out) < n:
        out.append({"by": rng.choice(["label", "annotation"]), "kind": rng.choice(["create", "update"]),
                    "delay": rng.choice([1, 2, 4]), "retries": rng.choice([2, 3]), "temp": rng.choice([1, 2, 9]),
                    "objects": rng.choice([["b"], ["a", "b"], ["a", "b", "c"]]), "span": rng.choice([2, 3, 5])})
    return out[:n]


def _shards_sim(case: dict, repo: str) -> dict:
    """(child process) the real operators on the simulated cluster; returns the PATCH requests per sender and object"""
    import asyncio
    import sys
    if repo not in sys.path:
        sys.path.insert(0, repo)
    from harness.sim import fakeapi, runner, simloop
    import kopf
    from kopf._core.intents import registries
    calls: list = []

    def make_registry(shard: str) -> Any:
        reg = registries.OperatorRegistry()
        flt = {"labels": {"shard": shard}} if case["by"] == "label" else {"annotations": {"example.com/shard": shard}}
        deco = {"create": kopf.on.create, "update": kopf.on.update}[case["kind"]]

        @deco("kopfexamples", registry=reg, id="fn", retries=case["retries"], **flt)
        async def fn(retry: int, name: str, **_: Any) -> None:
            calls.append([asyncio.get_running_loop().time(), shard, name, retry])
            if retry < case["temp"]:
                raise kopf.TemporaryError("come back later", delay=case["delay"])
        return reg

    async def main() -> dict:
        cluster = fakeapi.Cluster()
        kex = fakeapi.KEX
        shards = ["a", "b"]

        def create() -> None:
            for o in case["objects"]:
                meta = {"labels": {"shard": o}} if case["by"] == "label" else {"annotations": {"example.com/shard": o}}
                cluster.create_raw(kex, "ns", f"obj-{o}", {"metadata": meta, "spec": {"x": 0}})
        ops = {sh: runner.Operator(cluster, make_registry(sh), runner.default_settings(), identity=f"op-{sh}") for sh in shards}
        for op in ops.values():
            await op.start(wait_ready=True)
        await asyncio.sleep(1)
        create()
        await asyncio.sleep(1)
        if case["kind"] == "update":
            for o in case["objects"]:
                cluster.edit(kex, "ns", f"obj-{o}", {"spec": {"x": 1}})
        await asyncio.sleep(case["span"])
        sent: dict = {}
        for r in cluster.requests:
            if r["method"] == "PATCH" and "/kopfexamples/" in r["path"]:
                who, obj = r["who"].split("#")[0], r["path"].rsplit("/", 1)[-1]
                sent.setdefault(who, {}).setdefault(obj, []).append(r["payload"])
        for op in ops.values():
            op.kill()
        return {"sent": sent, "calls": calls}
    return simloop.run_sim(main, wall_limit=50)


def _shards_child(conn: Any, case: dict, repo: str) -> None:
    try:
        conn.send(_shards_sim(case, repo))
    except BaseException as e:  # noqa: BLE001
        conn.send({"error": f"{type(e).__name__}: {e}"})


def run_shards_case(env: Env, rec: Rec, case: dict, repo: str) -> None:
    """in a forked child (the simulation patches kopf's clock and task bookkeeping; a stall is killed)"""
    import multiprocessing as mp
    ctx_ = mp.get_context("fork")
    a, b = ctx_.Pipe(duplex=False)
    p = ctx_.Process(target=_shards_child, args=(b, case, repo), daemon=True)
    p.start()
    out = a.recv() if a.poll(60) else None
    p.join(2)
    if p.is_alive():
        p.kill()
    if out is None or "error" in out:
        raise RuntimeError(f"harness: the two-operator simulation did not finish: {out}")
    rec.evaluations += 1
    rec.traces += 1
    rec.count("shards: filtered by / handler kind", f"{case['by']} / on.{case['kind']}")
    replay = {"kind": "shards", "case": case}
    calls_by = {}
    for _, sh, name, _ in out["calls"]:
        calls_by[(sh, name)] = calls_by.get((sh, name), 0) + 1
    # THE CLAUSE, literally: an object that none of an operator's handlers matches -- at no time in the run: the
    # shard mark never changes -- is left untouched by that operator: it sends NO request for it (there is nothing of
    # its own on that object to take off: it never put anything there), and calls nothing for it
    bad = []
    for sh in ("a", "b"):
        for o in case["objects"]:
            if o != sh:
                n_sent = len(out["sent"].get(f"op-{sh}", {}).get(f"obj-{o}", []))
                n_calls = calls_by.get((sh, f"obj-{o}"), 0)
                rec.count("shards: requests of an operator for an object of the other share", "none" if not n_sent else "SOME")
                if n_sent or n_calls:
                    first = (out["sent"].get(f"op-{sh}", {}).get(f"obj-{o}") or [None])[0]
                    bad.append(f"op-{sh} sent {n_sent} PATCH requests (first: {json.dumps(first)[:160]}) and made {n_calls} calls for obj-{o}")
    rec.nontrivial.add(f"shards|{case['by']}|{case['kind']}|{len(case['objects'])}|{bool(bad)}")
    if bad:
        own = {k: v for k, v in calls_by.items()}
        rec.oracle_fail("an operator wrote to an object that none of its handlers matches (it never did): " + "; ".join(bad) +
                        f"; the owner's handler was called {sorted(own.items())} times within {case['span']} s "
                        f"(delay={case['delay']} s, retries<={case['retries']})", replay, FINDING_SHARDS)


def model_effects(out: Any) -> Any:
    """the model's effect list → the same abstraction as the observed one"""
    if not (isinstance(out, list) and out and out[0] == "ok"):
        return out
    r: dict[str, Any] = {"carried": False, "watch": [], "spawn": [], "fins": [], "handle": None, "touch": False, "purge": [],
                         "delays": None}
    for e in out[1]:
        if e[0] == "carried":
            r["carried"] = True
        elif e[0] == "watch":
            r["watch"] = sorted(e[1])
        elif e[0] == "spawn":
            r["spawn"] = sorted(e[1])
        elif e[0] in ("fin+", "fin-"):
            r["fins"].append(e[0])
        elif e[0] == "handle":
            r["handle"] = sorted(e[1])
        elif e[0] == "touch":
            r["touch"] = True
        elif e[0] == "purge":
            r["purge"] = sorted(e[1])
        elif e[0] == "delays":
            r["delays"] = bool(e[1])
    return r


class DriverUnavailable(RuntimeError):
    """the Lean driver process itself does not run (toolchain / concurrent build): exit 2, not a verdict"""


def ask(driver: leanio.Driver, reqs: list) -> list:
    """driver.ask with retries: while another check rebuilds Kopf.Drv.All its .olean is briefly
    missing; wait for the build lock, rebuild, try again. A driver that still does not run is a
    harness error (exit 2), never a tie failure."""
    import time
    last: Exception | None = None
    for attempt in range(4):
        try:
            return driver.ask(reqs)
        except leanio.LeanError as e:
            last = e
            time.sleep(1 + 2 * attempt)
            leanio.lake_build(driver.build_targets())
    raise DriverUnavailable(f"Lean driver does not run: {last}; {getattr(last, 'log', '')[-500:]}")


def flush(rec: Rec, driver: leanio.Driver, reqs: list, pending: list) -> None:
    if not reqs:
        return
    outs = ask(driver, reqs)
    for (what, impl, replay), out in zip(pending, outs):
        if what.startswith("grid:"):
            compare_grid(rec, what[5:], impl, out)
            continue
        model = model_effects(out) if what == "cycle effects" else (out[1] if out and out[0] == "ok" else out)
        if what.startswith("Selector.check") and isinstance(model, list) and len(model) == 1:
            model = model[0]
        rec.compare(what, impl, model, replay)
    rec.traces += len(reqs)
    reqs.clear()
    pending.clear()


# =============================================================================================
# run / search / replay
# =============================================================================================
def _worker(args: tuple) -> Rec:
    """one shard of the full changing product (thorough tier)"""
    lo, hi, use_model, with_cross = args
    env = Env()
    rec = Rec()
    try:
        sts = std_changing_states()
        causes = [env.cause(st) for st in sts]
        wsts = std_watching_states()
        wcauses = [env.cause(st) for st in wsts]
        drv = leanio.Driver(["C15"])
        for a in range(lo, hi, 512):
            hs = [nth_changing_handler(k) for k in range(a, min(hi, a + 512))]
            eval_grid(env, rec, hs, sts, "changing handler x changing cause", use_model=use_model, driver=drv, causes=causes)
            if with_cross:
                eval_grid(env, rec, hs, wsts, "changing handler x watching cause", use_model=use_model, driver=drv, causes=wcauses)
    except Exception as e:  # pragma: no cover
        import traceback
        rec.complete = False
        rec.crashed = f"{type(e).__name__}: {e}\n{traceback.format_exc()[-1500:]}"
    return rec


def fixed_sweeps(env: Env, rec: Rec, use_model: bool = True, full: bool = True, rng: random.Random | None = None) -> None:
    q: tuple[list, list] = ([], [])
    kw: dict[str, Any] = dict(use_model=use_model, queue=q)
    # watching / spawning / indexing handlers on their own causes: the full product
    for cls in ("watching", "spawning", "indexing"):
        eval_grid(env, rec, plain_handler_product(cls), std_watching_states(cls), f"{cls} handler x {cls} cause",
                  sample_every=9973, **kw)
    # cross-class: a watching handler against changing causes (only the tie; the docs are silent)
    cross = plain_handler_product("watching")
    if not full:
        cross = (rng or random.Random(0)).sample(cross, 120)
    eval_grid(env, rec, cross, std_changing_states(), "watching handler x changing cause", **kw)
    # extended field alphabet: null values, is-None/truthy callbacks, the private token, odd paths
    ext = ext_field_handlers("changing")
    r_ = rng or random.Random(0)
    if not full:      # quick tier: every declaration with at most one of value=/old=/new= + a seeded sample of the rest
        one = lambda h: sum(h[k] is not None for k in ("v", "o", "n")) <= 1
        ext = [h for h in ext if one(h)] + r_.sample([h for h in ext if not one(h)], 900)
    eval_grid(env, rec, ext, ext_field_states(), "extended field criteria", **kw)
    wst = [state("watching", body_extra={"spec": sp}) for sp in ({}, {"f": "x"}, {"f": None}, {"f": {"deep": 1}}, {"f": 1}, "scalar")]
    eval_grid(env, rec, ext_field_handlers("watching"), wst, "extended field criteria (watching)", **kw)
    # falsy-but-present values and criteria: '', 0, False, [], {} (complete product, both tiers)
    for what, fhs, fsts in falsy_cases():
        if not full and len(fhs) > 1000:   # (the complete product is the thorough tier's; quick: as above, 1/3 of the rest)
            fhs = [h for h in fhs if one(h)] + r_.sample([h for h in fhs if not one(h)], 600)
        eval_grid(env, rec, fhs, fsts, what, sample_every=39989, **kw)
    # "the field actually changed" over bool/number twins (/repo 8d1358b), complete product, both tiers
    for what, bhs, bsts, with_model in boolnum_cases():
        eval_grid(env, rec, bhs, bsts, what, **(kw if with_model else dict(kw, use_model=False)))
    # extended metadata alphabet: two keys, empty strings, absent metadata
    mh, ms = ext_meta_cases()
    for cls in ("changing", "watching", "spawning"):
        sub = [h for h in mh if h["_cls"] == cls]
        sts = ms if cls == "changing" else [dict(st, _cls=cls, ch=False, o=None, n=None) for st in ms]
        eval_grid(env, rec, sub, sts, "extended metadata criteria", **kw)
    if use_model:
        flush(rec, leanio.Driver(["C15"]), q[0], q[1])


def run_corpus(env: Env, rec: Rec) -> None:
    import asyncio
    drv = leanio.Driver(["C15"])
    reqs: list = []
    pending: list = []
    for name, data in load_corpus(ID):
        rec.count("corpus", name)
        run_case(env, rec, data, reqs, pending, drv)
    flush(rec, drv, reqs, pending)


def run_case(env: Env, rec: Rec, data: dict, reqs: list, pending: list, drv: leanio.Driver | None, use_model: bool = True) -> None:
    import asyncio
    kind = data.get("kind")
    if kind == "pair":
        eval_grid(env, rec, [data["handler"]], [data["state"]], "corpus/replay pair", use_model=use_model and drv is not None,
                  queue=(reqs, pending))
    elif kind == "select":
        c = data["case"]
        c = dict(c, handlers=[tuple(x) for x in c["handlers"]])
        run_select_case(env, rec, c, reqs, pending)
    elif kind == "dedup":
        run_dedup_case(env, rec, data["keys"], reqs, pending)
    elif kind == "subselect":
        asyncio.run(run_subselect_case(env, rec, data["case"], reqs, pending))
    elif kind == "selector":
        run_selectors(env, rec, reqs, pending)
    elif kind == "cycle":
        c = data["case"]
        c = dict(c, handlers=[tuple(x) for x in c["handlers"]])
        asyncio.run(run_cycle_case(env, rec, c, reqs, pending))
    elif kind == "served":
        run_served_case(env, rec, data["case"])
    elif kind == "rediscover":
        asyncio.run(run_rediscover_case(env, rec, data["case"], reqs, pending))
    elif kind == "shards":
        run_shards_case(env, rec, data["case"], REPO[0])
    elif kind == "stacked":
        asyncio.run(run_stacked_case(env, rec, data["case"]))
    else:
        raise ValueError(f"unknown case kind {kind!r}")


REPO = ["/repo"]      # the code under test (set from ctx.repo by run/search/replay; the simulation's child imports it)
VARIANT: list = [None]  # code_variant(REPO[0])


def _set_repo(ctx: Ctx) -> None:
    REPO[0] = str(ctx.repo)
    try:
        VARIANT[0] = code_variant(ctx.repo)
    except ExtractError:
        VARIANT[0] = [False, False, True, True]     # (an unknown shape: the extraction has failed already; the head's model)


def run(ctx: Ctx) -> None:
    import asyncio
    import sys
    import time
    t0 = [time.time()]

    def lap(what: str) -> None:
        if os.environ.get("VERIF_C15_TIMING"):
            print(f"[C15 timing] {what}: {time.time() - t0[0]:.1f}s", file=sys.stderr)
        t0[0] = time.time()
    _set_repo(ctx)
    env = Env()
    rec = Rec()
    rng = ctx.rng
    drv = leanio.Driver(["C15"])
    run_corpus(env, rec)
    lap("corpus")
    exhaustive = ctx.tier == "thorough" and float(os.environ.get("VERIF_SCALE", "1")) >= 1
    fixed_sweeps(env, rec, full=ctx.tier == "thorough", rng=rng)
    lap("fixed sweeps")
    reqs: list = []
    pending: list = []
    q = (reqs, pending)

    # ---- the changing product ------------------------------------------------------------------
    sts = std_changing_states()
    if exhaustive:
        import multiprocessing as mp
        nproc = min(16, os.cpu_count() or 1)
        step = -(-N_CHANGING_PRODUCT // (nproc * 4))
        shards = [(a, min(N_CHANGING_PRODUCT, a + step), True, True) for a in range(0, N_CHANGING_PRODUCT, step)]
        with mp.get_context("fork").Pool(nproc) as pool:
            recs = pool.map(_worker, shards, chunksize=1)
        for r in recs:
            if r.crashed:
                raise RuntimeError("a shard of the exhaustive enumeration crashed (harness error): " + r.crashed)
            r.merge_into(ctx)
        ctx.exhaustive = all(r.complete for r in recs) and sum(b - a for a, b, _, _ in shards) == N_CHANGING_PRODUCT
    else:
        n = max(1, ctx.budget(40000, 40000) // len(sts))
        ks = sorted(rng.sample(range(N_CHANGING_PRODUCT), min(n, N_CHANGING_PRODUCT)))
        hs = [nth_changing_handler(k) for k in ks]
        eval_grid(env, rec, hs, sts, "changing handler x changing cause", queue=q, sample_every=4999)
        ks2 = rng.sample(range(N_CHANGING_PRODUCT), min(60, N_CHANGING_PRODUCT))
        eval_grid(env, rec, [nth_changing_handler(k) for k in ks2], std_watching_states(), "changing handler x watching cause", queue=q)
        ctx.exhaustive = False

    lap("changing product")
    # ---- random larger label maps / patterns -----------------------------------------------------
    for hs_, sts_ in random_large_cases(rng, ctx.budget(40, 400)):
        eval_grid(env, rec, hs_, sts_, "random larger maps", queue=q)

    # ---- registries, dedup, cycles ---------------------------------------------------------------
    for case in kind_value_sweep():
        run_select_case(env, rec, case, reqs, pending)
    for _ in range(ctx.budget(2000, 30000)):
        run_select_case(env, rec, random_select_case(rng), reqs, pending)
    for _ in range(ctx.budget(300, 3000)):
        keys = [[rng.randrange(3), rng.choice(["a", "b", "c"])] for _ in range(rng.randint(0, 8))]
        run_dedup_case(env, rec, keys, reqs, pending)
    run_selectors(env, rec, reqs, pending)
    for case in served_cases():
        run_served_case(env, rec, case)
    flush(rec, drv, reqs, pending)
    lap("registries/dedup/selectors")

    async def rediscoveries() -> None:
        for case in rediscover_scenarios():
            await run_rediscover_case(env, rec, case, reqs, pending)
        for _ in range(ctx.budget(200, 6000)):
            await run_rediscover_case(env, rec, random_rediscover_case(rng), reqs, pending)
    asyncio.run(rediscoveries())
    flush(rec, drv, reqs, pending)
    lap("re-discovery histories")

    async def subregistries() -> None:
        for case in sub_sweep():
            await run_subselect_case(env, rec, case, reqs, pending)
        for _ in range(ctx.budget(1200, 15000)):
            await run_subselect_case(env, rec, random_subselect_case(rng), reqs, pending)
    asyncio.run(subregistries())
    flush(rec, drv, reqs, pending)
    lap("sub-registries")

    async def cycles() -> None:
        for case in subcycle_scenarios() + leftover_scenarios():
            await run_cycle_case(env, rec, case, reqs, pending)
        for _ in range(ctx.budget(100, 2000)):
            await run_cycle_case(env, rec, random_leftover_sequence(rng), reqs, pending)
        for _ in range(ctx.budget(300, 4000)):
            await run_cycle_case(env, rec, random_subcycle_case(rng), reqs, pending)
        for case in related_fields_scenarios():
            await run_cycle_case(env, rec, case, reqs, pending)
        for _ in range(ctx.budget(120, 2000)):
            await run_cycle_case(env, rec, random_related_fields_sequence(rng), reqs, pending)
        for _ in range(ctx.budget(1050, 20000)):       # (1500 before the re-discovery histories, 1300 before the related-fields sequences came: the quick tier's wall is kept)
            await run_cycle_case(env, rec, random_cycle_case(rng), reqs, pending)
        # consecutive events on the same in-memory records with kopf's REAL daemon spawning/stopping
        for _ in range(ctx.budget(40, 600)):
            await run_cycle_case(env, rec, random_sequence_case(rng), reqs, pending)
    asyncio.run(cycles())
    flush(rec, drv, reqs, pending)
    lap("cycles")

    # ---- stacked registrations (one function, one id, several reasons) in a closed loop: calls per cause
    async def stacked() -> None:
        for case in stacked_cases(rng, ctx.budget(120, 2500)):
            await run_stacked_case(env, rec, case)
    asyncio.run(stacked())
    lap("stacked")
    # ---- two operators on one cluster (whole-operator simulation, in child processes)
    for case in shard_cases(rng, ctx.budget(3, 40)):
        run_shards_case(env, rec, case, REPO[0])
    lap("two operators")
    rec.merge_into(ctx)
    ctx.extra["changing_product_size"] = N_CHANGING_PRODUCT
    ctx.extra["changing_states"] = len(sts)


def search(ctx: Ctx, broken: list) -> None:
    """A proof/tie is broken and the oracle saw nothing in run(): oracle-only, larger budget — the
    complete changing product (it is finite) and 10x the registry/cycle samples, biased to the
    handler/state of the first disagreement."""
    import asyncio
    import multiprocessing as mp
    _set_repo(ctx)
    env = Env()
    rec = Rec()
    for b in broken:
        inp = (b.replay or {}).get("input") if isinstance(b.replay, dict) else None
        if isinstance(inp, dict) and inp.get("kind") in ("pair", "select", "dedup", "cycle", "subselect", "stacked", "shards", "served", "rediscover"):
            try:
                run_case(env, rec, inp, [], [], None, use_model=False)
            except Exception:
                pass
    if not rec.oracle:
        fixed_sweeps(env, rec, use_model=False)
    if not rec.oracle:
        nproc = min(16, os.cpu_count() or 1)
        step = -(-N_CHANGING_PRODUCT // (nproc * 2))
        shards = [(a, min(N_CHANGING_PRODUCT, a + step), False, False) for a in range(0, N_CHANGING_PRODUCT, step)]
        with mp.get_context("fork").Pool(nproc) as pool:
            for r in pool.map(_worker, shards, chunksize=1):
                r.tie.clear()
                r.merge_into(ctx)
    if not rec.oracle and not any(f.kind == "oracle" for f in ctx.failures):
        rng = random.Random(f"C15-search-{ctx.seed}")
        reqs: list = []
        pending: list = []
        for case in kind_value_sweep():
            run_select_case(env, rec, case, reqs, pending)
        for _ in range(15000):
            run_select_case(env, rec, random_select_case(rng), reqs, pending)
        for _ in range(3000):
            run_dedup_case(env, rec, [[rng.randrange(3), rng.choice("abc")] for _ in range(rng.randint(0, 8))], reqs, pending)

        async def cycles() -> None:
            for case in rediscover_scenarios():
                await run_rediscover_case(env, rec, case, reqs, pending)
            for _ in range(3000):
                await run_rediscover_case(env, rec, random_rediscover_case(rng), reqs, pending)
            for case in sub_sweep():
                await run_subselect_case(env, rec, case, reqs, pending)
            for _ in range(8000):
                await run_subselect_case(env, rec, random_subselect_case(rng), reqs, pending)
            for case in subcycle_scenarios() + leftover_scenarios():
                await run_cycle_case(env, rec, case, reqs, pending)
            for _ in range(1500):
                await run_cycle_case(env, rec, random_leftover_sequence(rng), reqs, pending)
            for _ in range(3000):
                await run_cycle_case(env, rec, random_subcycle_case(rng), reqs, pending)
            for case in related_fields_scenarios():
                await run_cycle_case(env, rec, case, reqs, pending)
            for _ in range(1200):
                await run_cycle_case(env, rec, random_related_fields_sequence(rng), reqs, pending)
            for _ in range(12000):
                await run_cycle_case(env, rec, random_cycle_case(rng), reqs, pending)
            for _ in range(300):
                await run_cycle_case(env, rec, random_sequence_case(rng), reqs, pending)
            for case in stacked_cases(rng, 1500):
                await run_stacked_case(env, rec, case)
        asyncio.run(cycles())
        if not rec.oracle:
            for case in shard_cases(rng, 12):
                run_shards_case(env, rec, case, REPO[0])
    rec.tie.clear()
    rec.merge_into(ctx)


def replay(ctx: Ctx, data: dict) -> None:
    _set_repo(ctx)
    env = Env()
    rec = Rec()
    drv = leanio.Driver(["C15"])
    reqs: list = []
    pending: list = []
    case = data.get("replay", data.get("first", data))
    if isinstance(case, dict) and "input" in case and "kind" not in case:
        case = case["input"]
    run_case(env, rec, case, reqs, pending, drv)
    flush(rec, drv, reqs, pending)
    rec.merge_into(ctx)
