"""C07 — whole-operator simulation runner with per-event delivery control and barrier instrumentation.

Extends `harness.sim.scenario.Sim` locally (nothing in harness/sim is modified):
 * `sc["c07"]`: {"latency": ticks, "resp_latency": ticks, "own_delay": ticks, "foreign_delay": ticks,
   "jitter": [ticks...], "reactive": [{"nth": n, "offsets": [ticks...]}]}
   - request latency (`Cluster.latency`) and an extra response latency for PATCHes of the watched kind;
   - echo delay of the operator's OWN writes vs. foreign writes (+ a jitter sequence for foreign ones);
     per-watch FIFO order is kept by the fake API as Kubernetes keeps it (checked by the C07 harness);
   - reactive foreign edits: `offsets` ticks after the n-th own write was applied.
   - `"rv"`: how the server numbers its versions (they are opaque strings to a client; the fake API's own default is
     101, 102, 103, …: one decimal width for a whole history): {"start": n — the counter before the first object of the
     history, "strides": [gaps, cyclic — other objects of a real cluster consume versions in between], "jumps":
     [{"nth": n} — right before the n-th PATCH request of the operator (after a slipped-in foreign write) the counter
     leaps to the end of its decimal width: the next version is the first one that is one digit longer]}.
 * extra observation (module attributes patched inside a context manager, restored after):
   - `queueing.worker`: one record per worker life (arrivals into the backlog, dequeues, exit time);
   - `processing.process_resource_causes`: patch emptiness at the entry, stream pressure, consistency_time;
   - `processing.aiotime` (used there for the barrier sleep only): start, end, result of the sleep;
   - `processing.finalizers`: patch emptiness when the finalizer decision is taken (= at the barrier);
   - `ChangingRegistry.prematch/requires_finalizer`, `SpawningRegistry.requires_finalizer`: their results;
   - `processing.process_changing_cause`: entry time;
   - every API request is tagged with the worker cycle that issued it (None: daemons/timers/others);
   - `daemons.daemon_killer`: only to get hold of the operator's `operator_paused` ToggleSet (as C09 does);
   - `processing.process_resource_event` (outside observe's wrapper): what `memory.remaining_patch` carries when the
     cycle begins (the labels of the scripted transformation functions) and the label the object shows — whether the
     carried functions still have something to do is decided here from the script's semantics, not by kopf's code;
   - the delays `process_spawning_cause`, `process_changing_cause` and `process_resource_causes` return (what the
     last one returns beyond the delays of the two stages is the waiting delay of fix 30557a0).
 * pausing (what the peering does to a lower-priority operator; here a toggle of our own in that set):
   timeline ops `[t, "pause"]` / `[t, "resume"]`, and `sc["c07"]["pauses"]`: [{"on": "write" | "sleep" | "barrier",
   "nth": n, "anchor": "start" | "deadline", "plan": [[ticks, on?], ...]}] — relative to the n-th own write, the n-th
   sleeping change-handler call, the begin (or the deadline) of the n-th barrier sleep. The value of
   `operator_paused.is_on()` is sampled where the code reads it: when the finalizer decision is taken (no
   suspension point from there to the read if no sleep is taken) and when the barrier sleep returns.
Run as a module it is the subprocess worker: scenarios on stdin, one JSON result line each.
"""
from __future__ import annotations

import asyncio
import contextlib
import contextvars
import copy
import json
import os
import subprocess
import sys
from concurrent.futures import ThreadPoolExecutor
from pathlib import Path
from typing import Any, Iterator

from ..sim import observe, scenario, simloop

ROOT = Path(__file__).resolve().parent.parent.parent
TICK = 1.0 / 64


class Sim07(scenario.Sim):
    def __init__(self, sc: dict):
        super().__init__(sc)
        c7 = sc.get("c07", {})
        self.cluster.latency = int(c7.get("latency", 1)) * TICK
        self.resp_latency = int(c7.get("resp_latency", 0)) * TICK
        self.own_delay = int(c7.get("own_delay", 0)) * TICK
        self.foreign_delay = int(c7.get("foreign_delay", 0)) * TICK
        self.jitter = [int(j) * TICK for j in c7.get("jitter", [])]
        self._jit_i = 0
        self.reactive = [dict(r) for r in c7.get("reactive", [])]
        # re-listings / reconnects of the watch, timed relative to what the operator does:
        #   {"on": "sleep", "nth": n, "offset": ticks, "how": h}  — `offset` after the n-th sleeping handler call began
        #   {"on": "write", "nth": n, "offset": ticks, "how": h}  — `offset` after the n-th own write was applied
        # how: "410" | "eof" | "conn" (queued behind the pending deliveries of the stream, as fakeapi.break_watches does),
        #      "410-now" | "eof-now" (the stream is cut at once: undelivered events of the old stream are lost;
        #      kopf re-watches from the last version it saw, resp. re-lists after a compaction).
        self.breaks = [dict(b) for b in c7.get("breaks", [])]
        self.pauses = [dict(b) for b in c7.get("pauses", [])]
        self.toggleset: Any = None          # the operator's `operator_paused`
        self._pause_toggle: Any = None      # our own toggle in it
        self._pause_chain: Any = None       # toggling is serialised: requests take effect in the order they were made
        self.pause_log: list[dict] = []     # when the state really flipped
        self.barrier_sleeps = 0
        self.sleep_calls = 0
        self.own_writes = 0
        self.marked_writes = 0
        self.foreign_counter = 1000
        self._own = False
        self.own_requests = 0
        self.rv_plan = dict(c7.get("rv") or {})
        self.rv_jumps = [dict(j) for j in self.rv_plan.get("jumps", [])]
        if self.rv_plan:
            self._install_rv_plan()
        self.lives: list[dict] = []
        self.deliveries: list[dict] = []
        cl = self.cluster
        orig_apply_new = cl._apply_new

        def apply_new(key: tuple, new: dict, sub: Any, foreign: bool = False) -> dict:
            prev = self._own
            self._own = not foreign
            try:
                return orig_apply_new(key, new, sub, foreign)
            finally:
                self._own = prev

        # scripted handler action ["fn", label, next]: the handler appends a transformation function to the
        # patch (`patch.fns`) — applied as a JSON patch guarded by the resourceVersion; after a 422 such
        # user functions are carried over in `memory.remaining_patch` (the framework's own finalizer
        # edits no longer are, fix 1c8f3dd), so the next iteration starts with a non-empty patch.
        orig_perform = self.obs._perform

        async def perform(action: Any, rec: dict, kwargs: dict) -> Any:
            if isinstance(action, list) and action and action[0] == "sleep" and rec.get("kind") in ("create", "update", "delete", "resume"):
                self.sleep_calls += 1
                self._schedule_breaks("sleep", self.sleep_calls)
                self._schedule_pauses("sleep", self.sleep_calls)
                for r in self.reactive:          # foreign edits while the handler sleeps: queued behind it
                    if r.get("on") == "sleep" and r.get("nth") == self.sleep_calls:
                        for off in r.get("offsets", []):
                            asyncio.get_event_loop().call_later(int(off) * TICK, self._foreign_edit, str(kwargs.get("name") or "a"))
            while isinstance(action, list) and action and action[0] == "fn":
                label = str(action[1])
                p = kwargs.get("patch")
                if p is not None:
                    def fn(body: Any, label: str = label) -> None:
                        body.setdefault("metadata", {}).setdefault("labels", {})["c07fn"] = label
                    fn.c07_label = label  # type: ignore[attr-defined]
                    p.fns.append(fn)
                action = action[2] if len(action) > 2 else "ok"
            return await orig_perform(action, rec, kwargs)

        self.obs._perform = perform  # type: ignore[method-assign]
        cl._apply_new = apply_new  # type: ignore[method-assign]
        cl.echo_delay = self._echo07
        cl.before_request.append(self._tag)
        cl.after_write.append(self._after_write)

    def _echo07(self, w: Any, etype: str, body: dict) -> float:
        if w.res.key != self.kex.key:
            return 0.0
        if self._own:
            d = self.own_delay
        else:
            d = self.foreign_delay
            if self.jitter:
                d += self.jitter[self._jit_i % len(self.jitter)]
                self._jit_i += 1
        self.deliveries.append({"rv": body["metadata"].get("resourceVersion"), "own": self._own, "etype": etype,
                                "t_emit": asyncio.get_event_loop().time(), "delay": d})
        return d

    def _install_rv_plan(self) -> None:
        """The server's numbering of its versions: where the counter starts, which gaps it leaves (nothing in harness/sim
        is modified: the versions handed out so far — the two namespaces of `Cluster.__init__` — are re-based, the counter
        is wrapped)."""
        cl = self.cluster
        start = self.rv_plan.get("start")
        if start is not None:
            base = 100                     # fakeapi.Cluster: `self.rv = 100` before anything is stored
            shift = int(start) - base

            def re_based(body: dict) -> None:
                body["metadata"]["resourceVersion"] = str(int(body["metadata"]["resourceVersion"]) + shift)

            if int(start) < 1 or cl.horizon and any(cl.horizon.values()):
                raise ValueError("rv plan: the counter starts at 1 or above, before any compaction")
            for body in cl.objects.values():
                re_based(body)
            for k, entries in cl.log.items():
                cl.log[k] = [(rv + shift, et, snap) for rv, et, snap in entries]
                for _, _, snap in cl.log[k]:
                    re_based(snap)
            for versions in cl.history.values():
                for v in versions:
                    re_based(v["body"])
            cl.rv += shift
        strides = [int(g) for g in self.rv_plan.get("strides", [1])] or [1]
        if any(g < 1 for g in strides):
            raise ValueError("rv plan: strides are >= 1")
        orig_next = cl._next_rv
        n = [0]

        def next_rv() -> int:
            cl.rv += strides[n[0] % len(strides)] - 1
            n[0] += 1
            return orig_next()

        cl._next_rv = next_rv  # type: ignore[method-assign]

    def _tag(self, req: dict) -> None:
        rec = observe._cycle.get()
        req["cycle"] = rec["i"] if rec is not None else None
        if self.rv_jumps and req.get("method") == "PATCH" and "/kopfexamples/" in req.get("path", ""):
            self.own_requests += 1
            for j in self.rv_jumps:
                if j.get("nth") == self.own_requests and not j.get("done"):
                    j["done"] = True
                    cl = self.cluster
                    cl.rv = max(cl.rv, 10 ** len(str(cl.rv)) - 1)     # the next version is one digit longer
                    self.mark("rv-jump", rv=cl.rv)

    def _after_write(self, req: dict, out: dict | None) -> None:
        loop = asyncio.get_event_loop()
        req["t_applied"] = loop.time()
        req["applied_rv"] = (out or {}).get("metadata", {}).get("resourceVersion")
        if "/kopfexamples/" not in req["path"]:
            return
        self.own_writes += 1
        self._schedule_breaks("write", self.own_writes)
        self._schedule_pauses("write", self.own_writes)
        if ((out or {}).get("metadata") or {}).get("deletionTimestamp"):
            self.marked_writes += 1
            for r in self.reactive:     # foreign edits of a terminating object, around the framework's writes
                if r.get("on") == "marked" and r.get("nth") == self.marked_writes:
                    name = req["path"].rstrip("/").split("/kopfexamples/")[1].split("/")[0]
                    for off in r.get("offsets", []):
                        loop.call_later(int(off) * TICK, self._foreign_edit, name)
        for r in self.reactive:
            if r.get("on", "write") == "write" and r.get("nth") == self.own_writes:
                name = req["path"].rstrip("/").split("/kopfexamples/")[1].split("/")[0]
                for off in r.get("offsets", []):
                    loop.call_later(int(off) * TICK, self._foreign_edit, name)

    def _schedule_breaks(self, on: str, nth: int) -> None:
        loop = asyncio.get_event_loop()
        for b in self.breaks:
            if b.get("on") == on and b.get("nth") == nth and not b.get("done"):
                b["done"] = True
                loop.call_later(int(b.get("offset", 0)) * TICK, self._break, str(b.get("how", "410")))

    def _schedule_pauses(self, on: str, nth: int, deadline: float | None = None) -> None:
        loop = asyncio.get_event_loop()
        for b in self.pauses:
            if b.get("on") == on and b.get("nth") == nth and not b.get("done"):
                b["done"] = True
                base = 0.0
                if b.get("anchor") == "deadline" and deadline is not None:
                    base = max(0.0, deadline - loop.time())
                for off, state in b.get("plan", []):
                    loop.call_later(max(0.0, base + int(off) * TICK), self.request_pause, bool(state))

    def request_pause(self, on: bool) -> None:
        prev = self._pause_chain
        self.mark("pause" if on else "resume")

        async def go() -> None:
            if prev is not None:
                await asyncio.wait({prev})
            ts = self.toggleset
            if ts is None:
                self.pause_log.append({"t": asyncio.get_event_loop().time(), "on": on, "noop": True})
                return
            if self._pause_toggle is None:
                self._pause_toggle = await ts.make_toggle(on, name="verif-pause")
            else:
                await self._pause_toggle.turn_to(on)
            self.pause_log.append({"t": asyncio.get_event_loop().time(), "wall": self.now(), "on": on})

        self._pause_chain = asyncio.ensure_future(go())

    def apply_op(self, op: list) -> None:
        if op[0] in ("pause", "resume"):
            self.request_pause(op[0] == "pause")
            return
        super().apply_op(op)

    def _break(self, how: str) -> None:
        cl = self.cluster
        if how.startswith("410"):
            cl.compact(self.kex)
        if how.endswith("-now"):
            for w in list(cl.watches):
                if not w.closed and w.res.key == self.kex.key:
                    w.close()
        else:
            cl.break_watches(self.kex, how)
        self.mark("op", op=["break", how])

    def _foreign_edit(self, name: str) -> None:
        self.foreign_counter += 1
        self.cluster.edit(self.kex, "ns", name, {"spec": {"x": self.foreign_counter}})
        self.mark("op", op=["edit", name, {"spec": {"x": self.foreign_counter}}], reactive=True)

    async def start_operator(self, name: str = "op", **kw: Any) -> Any:
        op = await super().start_operator(name, **kw)
        orig = op.session.request
        lat = self.resp_latency

        async def request(*a: Any, **k: Any) -> Any:
            resp = await orig(*a, **k)
            method = str(k.get("method") or (a[0] if a else "")).upper()
            url = str(k.get("url") or (a[1] if len(a) > 1 else ""))
            if lat and method == "PATCH" and "/kopfexamples/" in url:
                await asyncio.sleep(lat)
            return resp

        op.session.request = request  # type: ignore[method-assign]
        return op


def _rv_of(item: Any) -> Any:
    if isinstance(item, dict):
        return item.get("object", {}).get("metadata", {}).get("resourceVersion")
    return "EOS"


@contextlib.contextmanager
def installed07(sim: Sim07) -> Iterator[None]:
    from kopf._cogs.aiokits import aiotime
    from kopf._cogs.structs import finalizers
    from kopf._core.engines import daemons
    from kopf._core.intents import registries
    from kopf._core.reactor import processing, queueing

    orig_killer = daemons.daemon_killer

    async def daemon_killer(**kw: Any) -> Any:
        sim.toggleset = kw["operator_paused"]
        return await orig_killer(**kw)

    cyc = observe._cycle
    # (a missing attribute — the function was renamed, inlined, moved — is not this harness's crash: what cannot be
    # observed is reported by c07.abstract as a broken tie)
    missing = [n for n in ("process_resource_causes", "process_changing_cause", "process_watching_cause", "process_spawning_cause",
                           "aiotime", "finalizers") if not hasattr(processing, n)]

    async def _absent(**kw: Any) -> Any:
        raise RuntimeError("an unobservable attribute of kopf._core.reactor.processing was called by the harness")

    orig_worker = queueing.worker
    orig_pre = processing.process_resource_event                            # observe's wrapper (installed before us)
    carried_var: contextvars.ContextVar[dict | None] = contextvars.ContextVar("verif_c07_carried", default=None)
    orig_prc = getattr(processing, "process_resource_causes", _absent)
    orig_pcc = getattr(processing, "process_changing_cause", _absent)       # observe's wrapper (installed before us)
    orig_pwc = getattr(processing, "process_watching_cause", _absent)
    orig_psc = getattr(processing, "process_spawning_cause", _absent)
    orig_aiotime = getattr(processing, "aiotime", None)
    orig_finalizers = getattr(processing, "finalizers", None)
    orig_prematch = registries.ChangingRegistry.prematch
    orig_creq = registries.ChangingRegistry.requires_finalizer
    orig_sreq = registries.SpawningRegistry.requires_finalizer

    def info() -> dict | None:
        rec = cyc.get()
        return rec.get("c07") if rec is not None else None

    async def worker(**kw: Any) -> Any:
        key = kw["key"]
        res, uid = key
        if getattr(res, "plural", None) != sim.kex.plural:
            return await orig_worker(**kw)
        loop = asyncio.get_running_loop()
        stream = kw["streams"][key]
        q = stream.backlog
        life: dict[str, Any] = {"uid": str(uid), "t_start": loop.time(), "arrivals": [], "gets": [], "t_end": None,
                                "idle_timeout": kw["settings"].queueing.idle_timeout}
        sim.lives.append(life)
        pr = stream.pressure
        for item in list(getattr(q, "_queue", [])):
            life["arrivals"].append([loop.time(), _rv_of(item), bool(pr.is_set())])
        orig_put, orig_get, orig_get_nowait = q.put, q.get, q.get_nowait

        async def put(item: Any) -> Any:
            # [time, version | "EOS", was the stream pressure raised with it?] — the watcher sets the pressure
            # right before every put (since fix f370f06 also before the end-of-stream marker)
            life["arrivals"].append([loop.time(), _rv_of(item), bool(pr.is_set())])
            return await orig_put(item)

        async def get() -> Any:
            life["in_get"] = True          # Queue.get() itself ends in self.get_nowait()
            try:
                item = await orig_get()
            finally:
                life["in_get"] = False
            life["gets"].append([loop.time(), _rv_of(item)])
            return item

        def get_nowait() -> Any:
            # called directly: the worker's timed-out wait that found the backlog non-empty (fix d07cc0b)
            item = orig_get_nowait()
            if not life.get("in_get"):
                life["gets"].append([loop.time(), _rv_of(item)])
                life["nowait"] = life.get("nowait", 0) + 1
            return item

        q.get_nowait = get_nowait  # type: ignore[method-assign]
        q.put = put  # type: ignore[method-assign]
        q.get = get  # type: ignore[method-assign]
        try:
            return await orig_worker(**kw)
        except BaseException as e:  # noqa: BLE001
            life["error"] = type(e).__name__
            raise
        finally:
            life["t_end"] = loop.time()
            life.pop("in_get", None)

    async def process_resource_event(**kw: Any) -> Any:
        # What the cycle starts with: the transformations carried over from a rejected (422) JSON-patch, and whether
        # they still have anything to do on the object as the event shows it. All scripted functions set the label
        # `c07fn` (the last one wins): they yield an operation iff the object does not show that label already.
        info: dict[str, Any] = {"carried": None, "ops": None}
        try:
            raw_body = kw["raw_event"]["object"]
            m = kw["memories"]._items.get(raw_body.get("metadata", {}).get("uid") or "")
            rp = m.remaining_patch if m is not None else None
            info["carried"] = rp is not None
            if rp is not None:
                labels = [getattr(f, "c07_label", None) for f in rp.fns]
                shown = ((raw_body.get("metadata") or {}).get("labels") or {}).get("c07fn")
                info["labels"], info["shown"] = labels, shown
                if labels and all(l is not None for l in labels) and not dict(rp):
                    info["ops"] = labels[-1] != shown
        except Exception as e:  # noqa: BLE001
            info["error"] = repr(e)
        tok = carried_var.set(info)
        try:
            return await orig_pre(**kw)
        finally:
            carried_var.reset(tok)

    async def process_resource_causes(**kw: Any) -> Any:
        rec = cyc.get()
        if rec is None:
            return await orig_prc(**kw)
        loop = asyncio.get_running_loop()
        p = kw.get("stream_pressure")
        rec["c07"] = inf = {"patch_init_empty": not kw["patch"], "pressure_entry": bool(p.is_set()) if p is not None else None,
                            "consistency_time": kw.get("consistency_time"), "t_in": loop.time(), "prematch": None,
                            "reqfin": [], "patch_mid_empty": None, "blocked": None, "ongoing": None, "pressure_mid": None,
                            "t_mid": None, "sleep": None, "pcc_t": None, "matched": None, "t_out": None,
                            "paused_in": None, "paused_mid": None, "t_watch0": None, "t_watch1": None,
                            "t_spawn0": None, "t_spawn1": None, "mid_at": None,
                            "carried": carried_var.get(), "spawn_delays": None, "changing_delays": None, "delays_out": None,
                            "remaining_at_entry": getattr(kw.get("memory"), "remaining_patch", None) is not None}
        op = kw.get("operator_paused")
        inf["paused_in"] = bool(op.is_on()) if op is not None else None
        rec["_patch"] = kw["patch"]
        rec["_pressure"] = p
        rec["_paused"] = op
        try:
            out = await orig_prc(**kw)
            inf["matched"] = bool(out[1])
            inf["t_out"] = loop.time()
            inf["delays_out"] = [float(d) for d in out[0]]
            return out
        finally:
            rec.pop("_patch", None)
            rec.pop("_pressure", None)
            rec.pop("_paused", None)

    async def process_changing_cause(**kw: Any) -> Any:
        inf = info()
        if inf is not None:
            inf["pcc_t"] = asyncio.get_running_loop().time()
        out = await orig_pcc(**kw)
        if inf is not None:
            inf["changing_delays"] = [float(d) for d in (out or [])]
        return out

    def sample_mid(rec: dict, where: str, force: bool) -> None:
        # The state the barrier finds: taken when the last low-level stage has ended (raw-event handlers, spawning);
        # when neither exists, when the finalizer decision is taken. From any of these points to the consistency
        # block there is no suspension point, and nothing that touches the merge-patch or the pressure.
        inf = rec["c07"]
        if not force and inf["t_mid"] is not None:
            return
        pr = rec.get("_pressure")
        op = rec.get("_paused")
        inf["patch_mid_empty"] = not rec["_patch"]
        inf["pressure_mid"] = bool(pr.is_set()) if pr is not None else None
        inf["t_mid"] = asyncio.get_running_loop().time()
        inf["paused_mid"] = bool(op.is_on()) if op is not None else None
        inf["mid_at"] = where

    async def process_watching_cause(**kw: Any) -> Any:
        rec = cyc.get()
        if rec is None or "c07" not in rec or "_patch" not in rec:
            return await orig_pwc(**kw)
        rec["c07"]["t_watch0"] = asyncio.get_running_loop().time()
        out = await orig_pwc(**kw)
        rec["c07"]["t_watch1"] = asyncio.get_running_loop().time()
        sample_mid(rec, "watching", True)
        return out

    async def process_spawning_cause(**kw: Any) -> Any:
        rec = cyc.get()
        if rec is None or "c07" not in rec or "_patch" not in rec:
            return await orig_psc(**kw)
        rec["c07"]["t_spawn0"] = asyncio.get_running_loop().time()
        rec["c07"]["spawn_before_sleep"] = rec["c07"]["sleep"] is None
        out = await orig_psc(**kw)
        rec["c07"]["t_spawn1"] = asyncio.get_running_loop().time()
        rec["c07"]["spawn_delays"] = [float(d) for d in (out or [])]
        if rec["c07"]["sleep"] is None and rec["c07"]["pcc_t"] is None:
            sample_mid(rec, "spawning", True)
        return out

    class _AioTime:
        def __getattr__(self, name: str) -> Any:
            return getattr(aiotime, name)

        @staticmethod
        async def sleep(delays: Any, wakeup: Any = None) -> Any:
            loop = asyncio.get_running_loop()
            inf = info()
            s = {"t0": loop.time(), "delay": delays if isinstance(delays, (int, float)) else repr(delays),
                 "pressure": bool(wakeup.is_set()) if wakeup is not None else None}
            if inf is not None:
                inf["sleep"] = s
                sim.barrier_sleeps += 1
                ct = inf.get("consistency_time")
                sim._schedule_pauses("barrier", sim.barrier_sleeps, deadline=ct)
            out = await aiotime.sleep(delays, wakeup=wakeup)
            s["t1"] = loop.time()
            s["timed_out"] = out is None
            rec = cyc.get()
            op = rec.get("_paused") if rec is not None else None
            s["paused_end"] = bool(op.is_on()) if op is not None else None   # what the code reads next (no await in between)
            return out

    class _Finalizers:
        def __getattr__(self, name: str) -> Any:
            return getattr(finalizers, name)

        @staticmethod
        def is_deletion_ongoing(*a: Any, **k: Any) -> bool:
            out = finalizers.is_deletion_ongoing(*a, **k)
            inf = info()
            if inf is not None:
                inf["ongoing"] = bool(out)
            return out

        @staticmethod
        def is_deletion_blocked(*a: Any, **k: Any) -> bool:
            out = finalizers.is_deletion_blocked(*a, **k)
            rec = cyc.get()
            if rec is not None and "c07" in rec:
                rec["c07"]["blocked"] = bool(out)
                if "_patch" in rec:
                    sample_mid(rec, "finalizers", False)
            return out

    def prematch(self: Any, cause: Any) -> bool:
        out = orig_prematch(self, cause)
        inf = info()
        if inf is not None:
            inf["prematch"] = bool(out)
        return out

    def creq(self: Any, *a: Any, **k: Any) -> bool:
        out = orig_creq(self, *a, **k)
        inf = info()
        if inf is not None:
            inf["reqfin"].append(bool(out))
        return out

    def sreq(self: Any, *a: Any, **k: Any) -> bool:
        out = orig_sreq(self, *a, **k)
        inf = info()
        if inf is not None:
            inf["reqfin"].append(bool(out))
        return out

    queueing.worker = worker  # type: ignore[assignment]
    processing.process_resource_event = process_resource_event  # type: ignore[assignment]
    daemons.daemon_killer = daemon_killer  # type: ignore[assignment]
    wrappers = {"process_resource_causes": process_resource_causes, "process_changing_cause": process_changing_cause,
                "process_watching_cause": process_watching_cause, "process_spawning_cause": process_spawning_cause,
                "aiotime": _AioTime(), "finalizers": _Finalizers()}
    originals = {"process_resource_causes": orig_prc, "process_changing_cause": orig_pcc, "process_watching_cause": orig_pwc,
                 "process_spawning_cause": orig_psc, "aiotime": orig_aiotime, "finalizers": orig_finalizers}
    for n, w in wrappers.items():
        if n not in missing:
            setattr(processing, n, w)
    registries.ChangingRegistry.prematch = prematch  # type: ignore[method-assign]
    registries.ChangingRegistry.requires_finalizer = creq  # type: ignore[method-assign]
    registries.SpawningRegistry.requires_finalizer = sreq  # type: ignore[method-assign]
    try:
        yield
    finally:
        queueing.worker = orig_worker  # type: ignore[assignment]
        processing.process_resource_event = orig_pre  # type: ignore[assignment]
        daemons.daemon_killer = orig_killer  # type: ignore[assignment]
        for n, o in originals.items():
            if n not in missing:
                setattr(processing, n, o)
        registries.ChangingRegistry.prematch = orig_prematch  # type: ignore[method-assign]
        registries.ChangingRegistry.requires_finalizer = orig_creq  # type: ignore[method-assign]
        registries.SpawningRegistry.requires_finalizer = orig_sreq  # type: ignore[method-assign]


def _slim(tr: dict) -> dict:
    """Keep what the C07 check reads (cycle bodies and histories are large)."""
    cycles = []
    for c in tr.get("cycles", []):
        cycles.append({k: c.get(k) for k in ("i", "inc", "t0", "t1", "loop_t0", "event_type", "uid", "name", "rv",
                                             "consistency_time", "invoked", "events_invoked", "result_rv", "error", "c07")}
                      | {"reason": (c.get("cause") or {}).get("reason"), "has_cause": c.get("cause") is not None,
                         "x": ((c.get("body") or {}).get("spec") or {}).get("x"),
                         "marked": bool(((c.get("body") or {}).get("metadata") or {}).get("deletionTimestamp")),
                         "apply": None if c.get("apply") is None else {k: c["apply"].get(k) for k in ("rv", "t", "t_end", "delays", "fns")},
                         "remaining_before": (c.get("mem_before") or {}).get("remaining_patch")})
    reqs = []
    for r in tr.get("requests", []):
        if r.get("method") == "PATCH" and "/kopfexamples/" in r.get("path", ""):
            reqs.append({k: r.get(k) for k in ("t", "wall", "who", "path", "ctype", "response", "cycle", "t_applied", "applied_rv",
                                               "target_uid")}
                        | {"result_rv": ((r.get("result") or {}).get("metadata") or {}).get("resourceVersion")
                           if isinstance(r.get("result"), dict) else None})
    hist = {}
    for k, versions in tr.get("history", {}).items():
        if k.startswith("kopfexamples/"):
            hist[k] = [{"t": v["t"], "event": v["event"], "rv": v["body"]["metadata"].get("resourceVersion"),
                        "uid": v["body"]["metadata"].get("uid")} for v in versions]
    calls = [{k: c.get(k) for k in ("t", "t_end", "id", "kind", "uid", "rv", "retry", "reason", "outcome", "n")} for c in tr.get("calls", [])]
    return {"cycles": cycles, "patches": reqs, "history": hist, "calls": calls, "marks": tr.get("marks"),
            "sim_error": tr.get("sim_error")}


def run_scenario07(sc: dict, wall_limit: float = 40.0) -> dict:
    if not all(simloop.dyadic(e[0]) for e in sc.get("timeline", [])):
        raise ValueError("non-dyadic time in the scenario")
    holder: dict[str, Any] = {}

    async def main() -> dict:
        sim = Sim07(copy.deepcopy(sc))
        holder["sim"] = sim
        with observe.installed(sim.obs), installed07(sim):
            return await sim.run()

    try:
        tr = simloop.run_sim(main, wall_limit=wall_limit)
    except (simloop.SimDeadlock, simloop.SimStall) as e:
        sim = holder.get("sim")
        tr = sim.obs.trace() if sim is not None else {}
        tr["sim_error"] = f"{type(e).__name__}: {e}"
    sim = holder.get("sim")
    out = _slim(tr)
    out["lives"] = sim.lives if sim is not None else []
    out["deliveries"] = sim.deliveries if sim is not None else []
    out["pause_log"] = sim.pause_log if sim is not None else []
    return out


# ---- subprocess pool (same protocol as harness.sim.pool, with this module as the worker) -----------
def _run_batch(items: list[tuple[int, dict]], wall: float, results: dict[int, dict], tie: bool = True) -> None:
    pending = list(items)
    env = dict(os.environ)
    env["PYTHONPATH"] = f"{ROOT}:{env.get('KOPF_REPO', '/repo')}"
    env["PYTHONHASHSEED"] = "0"
    while pending:
        payload = "".join(json.dumps({"i": i, "sc": sc}) + "\n" for i, sc in pending)
        try:
            p = subprocess.run(["timeout", "-s", "KILL", str(int(wall * (len(pending) + 2) + 120)),
                                sys.executable, "-m", "harness.props.sim_c07", str(wall), "tie" if tie else "notie"], input=payload,
                               capture_output=True, text=True, cwd=str(ROOT), env=env)
        except Exception as e:  # noqa: BLE001
            for i, _ in pending:
                results[i] = {"i": i, "harness_error": f"worker could not run: {e!r}"}
            return
        done = set()
        for line in p.stdout.splitlines():
            if line.startswith("{"):
                r = json.loads(line)
                results[r["i"]] = r
                done.add(r["i"])
        rest = [(i, sc) for i, sc in pending if i not in done]
        if not rest:
            return
        if p.returncode == 0 and len(rest) == len(pending):
            for i, _ in rest:
                results[i] = {"i": i, "harness_error": "worker produced no output", "tb": p.stderr[-2000:]}
            return
        i0, _sc0 = rest[0]
        tail = p.stderr[p.stderr.rfind(f"@@BEGIN {i0}"):][-6000:]
        results[i0] = {"i": i0, "stall": True, "returncode": p.returncode, "stderr": tail}
        pending = rest[1:]


def run_many(scenarios: list[dict], wall: float = 40.0, jobs: int | None = None, batch: int = 16, tie: bool = True) -> list[dict]:
    """One result per scenario: {"digest": oracle findings + histograms + abstracted model runs} |
    {"stall": True, ...} | {"harness_error": ...}."""
    jobs = jobs or int(os.environ.get("VERIF_JOBS", "0")) or min(16, os.cpu_count() or 4)
    items = list(enumerate(scenarios))
    batch = max(1, min(batch, (len(items) + jobs - 1) // jobs))
    batches = [items[k:k + batch] for k in range(0, len(items), batch)]
    results: dict[int, dict] = {}
    with ThreadPoolExecutor(max_workers=jobs) as ex:
        list(ex.map(lambda b: _run_batch(b, wall, results, tie), batches))
    return [results.get(i, {"i": i, "harness_error": "missing"}) for i in range(len(scenarios))]


def main() -> None:
    from . import c07
    wall = float(sys.argv[1]) if len(sys.argv) > 1 else 40.0
    tie = not (len(sys.argv) > 2 and sys.argv[2] == "notie")
    for line in sys.stdin:
        line = line.strip()
        if not line:
            continue
        item = json.loads(line)
        sys.stderr.write(f"@@BEGIN {item['i']}\n")
        sys.stderr.flush()
        try:
            out = {"i": item["i"], "digest": c07.digest(item["sc"], run_scenario07(item["sc"], wall_limit=wall), tie)}
        except Exception as e:  # noqa: BLE001
            import traceback
            out = {"i": item["i"], "harness_error": f"{type(e).__name__}: {e}", "tb": traceback.format_exc()[-3000:]}
        sys.stdout.write(json.dumps(out, default=repr) + "\n")
        sys.stdout.flush()


if __name__ == "__main__":
    main()
