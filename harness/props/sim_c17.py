"""C17, part S — the start-up gate observed END TO END on the real operator.

One scenario = a real `kopf.operator()` (harness/sim/runner.Operator) against the fake API server with
2-3 custom resource kinds, objects that exist BEFORE the operator starts, per-kind LIST latencies, slow
index functions, and — besides `@kopf.index` — every kind of handler the property names:
`@kopf.on.event`, `@kopf.on.create/resume/update` (change handlers), `@kopf.daemon`, `@kopf.timer`.

Nothing of kopf is wrapped or patched here: the stream is the real `watching.infinite_watch` over the
fake API (where LISTED is emitted), the kinds are found by the real discovery/`revise_resources` (which
kinds count as indexed), the tasks are spawned by the real orchestrator. The only observations are made
by the scripted handler functions themselves:

  * `["index-start"|"index-end", kind, name, t]` — by the index functions;
  * `["start", htype, kind, name, t, seen]` — by every other handler at its very first statement, where
    `seen` = what its OWN kwargs show: for every index `{key: [values…]}`, read through the read-only
    views it was given (`kwargs[index_id]`).

`oracle_boot` (in c17.py) states the property over these: when any change handler, daemon, timer (or
on-event handler) starts, every object of every indexed kind that existed when the operator started
(and was not deleted meanwhile) has been through its index function, and the handler SEES its value.
"""
from __future__ import annotations

import asyncio
from typing import Any

GROUP, VERSION = "kopf.dev", "v1"


def run_boot(sc: dict, wall_limit: float = 60.0) -> dict:
    from harness.sim import fakeapi, runner, simloop

    log: list[list] = []
    errors: list[str] = []

    list_no: dict[str, int] = {}

    class SlowListSession(fakeapi.FakeSession):
        """LIST requests of a kind take `list_delay[kind]` longer (a big or slow collection); the first
        `list_errors[kind]` of them are answered 503 after that time (kopf retries them with its back-offs).
        Every LIST of a generated kind is logged from the SERVER's side: `list-start`, and then `list-end`
        (answered 200, with the number of items), `list-error` (answered 503) or `list-abandoned` (the client
        gave the request up before the answer: cancelled)."""

        async def request(self, method: str, url: str, *a: Any, **kw: Any) -> Any:
            import urllib.parse
            u = urllib.parse.urlparse(url)
            if method.upper() == "GET" and "watch=true" not in (u.query or ""):
                routed = self.cluster.route(u.path)
                if routed is not None and routed[2] is None and routed[0].plural in defs:
                    kind = routed[0].plural
                    loop = asyncio.get_running_loop()
                    list_no[kind] = list_no.get(kind, 0) + 1
                    log.append(["list-start", kind, loop.time()])
                    try:
                        d = sc.get("list_delay", {}).get(kind, 0)
                        if d:
                            await asyncio.sleep(d)
                        if list_no[kind] <= int(sc.get("list_errors", {}).get(kind, 0)):
                            log.append(["list-error", kind, loop.time()])
                            return self._track(fakeapi.FakeResponse(503, fakeapi._status(503, "Injected", "injected 503", None)))
                        resp = await super().request(method, url, *a, **kw)
                    except asyncio.CancelledError:
                        log.append(["list-abandoned", kind, loop.time()])
                        raise
                    n_items = len((resp.payload or {}).get("items", [])) if resp.status == 200 else None
                    log.append(["list-end" if resp.status == 200 else "list-error", kind, loop.time(), n_items])
                    return resp
            return await super().request(method, url, *a, **kw)

    defs: dict[str, Any] = {}

    async def main() -> dict:
        import kopf
        loop = asyncio.get_running_loop()
        defs.update({k["name"]: fakeapi.ResourceDef(GROUP, VERSION, k["name"], k["name"].capitalize(), namespaced=True)
                     for k in sc["kinds"]})
        peered = bool(sc.get("peering"))
        cluster = fakeapi.Cluster([fakeapi.NAMESPACES, fakeapi.CRDS] + ([fakeapi.CLUSTER_PEERING] if peered else [])
                                  + list(defs.values()))

        def ghost(present: bool) -> None:
            """A foreign operator of a higher priority shows up in / leaves the peering object: the REAL peering
            (process_peering_event) turns the operator's pause toggle on / off."""
            import datetime
            rec = ({"priority": 9999, "lifetime": 3600,
                    "lastseen": simloop.WALL.now(tz=datetime.timezone.utc).isoformat()} if present else None)
            cluster.edit(fakeapi.CLUSTER_PEERING, None, "default", {"status": {"boss": rec}})

        if peered:
            cluster.create_raw(fakeapi.CLUSTER_PEERING, None, "default", {})
            if sc["peering"].get("paused_at_start"):
                ghost(True)
        for o in sc["objects"]:
            meta: dict[str, Any] = {"labels": {"grp": "a"}}
            if o.get("handled_before"):
                # handled by a previous incarnation of the operator: its resume handlers are due (not the creation ones)
                import json
                meta["annotations"] = {"kopf.zalando.org/last-handled-configuration": json.dumps(
                    {"spec": {"v": o["v"]}, "metadata": {"labels": {"grp": "a"}}}, separators=(",", ":")) + "\n"}
            cluster.create_raw(defs[o["kind"]], "ns", o["name"], {"spec": {"v": o["v"]}, "metadata": meta})

        reg = kopf.OperatorRegistry()
        index_ids = [f"idx_{k['name']}" for k in sc["kinds"] if k["indexed"]]

        def seen_of(kwargs: dict) -> dict:
            out: dict[str, Any] = {}
            for iid in index_ids:
                ix = kwargs.get(iid)
                if ix is None:
                    out[iid] = None           # the handler was not given this index at all
                    continue
                out[iid] = {str(k): sorted(ix[k], key=repr) for k in ix}
            return out

        def mk_index(kind: str) -> Any:
            async def index_fn(name: str, spec: Any, **_: Any) -> Any:
                log.append(["index-start", kind, name, loop.time()])
                d = sc.get("index_delay", {}).get(f"{kind}/{name}", 0)
                if d:
                    await asyncio.sleep(d)
                log.append(["index-end", kind, name, loop.time()])
                return {name: spec.get("v")}
            return index_fn

        def mk_plain(kind: str, htype: str) -> Any:
            async def handler(name: str, **kwargs: Any) -> None:
                log.append(["start", htype, kind, name, loop.time(), seen_of(kwargs)])
                d = sc.get("handler_delay", 0)
                if d:
                    await asyncio.sleep(d)
            return handler

        def mk_daemon(kind: str) -> Any:
            async def daemon(name: str, stopped: Any, **kwargs: Any) -> None:
                log.append(["start", "daemon", kind, name, loop.time(), seen_of(kwargs)])
                await stopped.wait()
            return daemon

        for k in sc["kinds"]:
            kn = k["name"]
            if k["indexed"]:
                kopf.index(GROUP, VERSION, kn, id=f"idx_{kn}", registry=reg)(mk_index(kn))
            for h in k["handlers"]:
                if h == "event":
                    kopf.on.event(GROUP, VERSION, kn, id=f"ev_{kn}", registry=reg)(mk_plain(kn, "event"))
                elif h in ("create", "resume", "update"):
                    getattr(kopf.on, h)(GROUP, VERSION, kn, id=f"{h}_{kn}", registry=reg)(mk_plain(kn, h))
                elif h == "daemon":
                    kopf.daemon(GROUP, VERSION, kn, id=f"dm_{kn}", registry=reg, cancellation_timeout=1.0)(mk_daemon(kn))
                elif h == "timer":
                    kopf.timer(GROUP, VERSION, kn, id=f"tm_{kn}", registry=reg, interval=4.0,
                               initial_delay=sc.get("timer_initial_delay") or None)(mk_plain(kn, "timer"))
                else:
                    raise ValueError(h)

        settings = runner.default_settings(**sc.get("settings", {}))
        if peered:
            op = runner.Operator(cluster, reg, settings, identity="op", clusterwide=True, standalone=False,
                                 priority=0, peering_name="default")
        else:
            op = runner.Operator(cluster, reg, settings, identity="op", clusterwide=True, standalone=True)
        op.session = SlowListSession(cluster, identity=op.session.identity)
        await op.start()
        log.append(["operator-started", loop.time()])
        t0 = loop.time()
        for t, what, kind, name, arg in sorted(sc.get("timeline", []), key=lambda x: x[0]):
            d = t0 + t - loop.time()
            if d > 0:
                await asyncio.sleep(d)
            if what == "create":
                if cluster.get(defs[kind], "ns", name) is None:
                    cluster.create_raw(defs[kind], "ns", name, {"spec": {"v": arg}, "metadata": {"labels": {"grp": "a"}}})
            elif what == "edit":
                cluster.edit(defs[kind], "ns", name, {"spec": {"v": arg}})
            elif what == "delete":
                cluster.mutate(defs[kind], "ns", name, lambda b: b["metadata"].pop("finalizers", None))
                cluster.delete(defs[kind], "ns", name)
            elif what == "pause":
                ghost(True)
            elif what == "resume":
                ghost(False)
            else:
                raise ValueError(what)
            log.append(["op", what, kind, name, loop.time(), arg])
        d = t0 + float(sc.get("end", 12.0)) - loop.time()
        if d > 0:
            await asyncio.sleep(d)
        log.append(["end", loop.time()])
        if op.alive:
            r = await op.stop(timeout=120.0)
            if r is not None:
                errors.append(f"operator stopped with {r!r}")
        else:
            errors.append(f"operator died: {op.task.exception()!r}" if op.task is not None and op.task.done()
                          and not op.task.cancelled() else "operator died")
        return {"log": log, "errors": errors}

    try:
        return simloop.run_sim(main, wall_limit=wall_limit)
    except (simloop.SimDeadlock, simloop.SimStall) as e:
        return {"log": log, "errors": errors, "sim_error": f"{type(e).__name__}: {e}"}
