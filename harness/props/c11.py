"""C11 — handler error policy: retry delays, permanence, retries/timeout limits.

Tie:
 (D) a bounded-exhaustive grid through the REAL `execution.execute_handler_once` +
     `HandlerState.with_outcome` and through `execute_handlers_once` + `State.with_outcomes`
     (gate `awakened`) with a stub handler under virtual time, compared with the Lean model
     (`C11.step`), outcome and next persisted record, times as exact ticks;
 (S) closed-loop attempt sequences on the real code under virtual time, compared event by event
     with the model's fold (`C11.runAbs` / `C11.loop`):
       change   — the processing cycle of `process_changing_cause` (State.from_storage → with_purpose
                  → with_handlers → execute_handlers_once → with_outcomes → store on a real progress
                  storage over a dict body), woken exactly / early / late / at once, with operator
                  restarts = a brand-new event loop (new basetime) on the stored body;
       pair     — the same with two handlers in one cycle (outcomes merged after the whole batch);
       sub      — a parent handler calling the real `kopf.execute(handlers=…)` with two sub-handlers;
       activity — the real `activities.run_activity`;
       daemon   — the real `daemons._daemon`;
       timer    — the real `daemons._timer` (several retry series, one per interval);
       proc     — change / pair / sub histories through the real `processing.process_changing_cause` with a real
                  registry, incl. STACKED registrations (one function & id for two reasons, the second cause
                  superseding the first): one series per registration the code selected.
The oracle (`oracle_point`, `oracle_sequence`) is written from the property text over the observed
(virtual time, retry kwarg, raised kind, outcome, stored record) and never looks at the model.

All harness times are multiples of 16 ticks (2**-6 s = 15625 µs): exact in floats, in kopf's
microsecond datetimes and in the ISO-8601 strings of the storage.
"""
from __future__ import annotations

import asyncio
import contextlib
import copy
import datetime
import itertools
import json
import logging
import os
import random
import time
from typing import Any, Iterator

from .. import leanio
from ..core import Ctx
from ..sim import simloop

ID = "C11"
LEVEL = "proof"
ENGINES = ["lean-model", "purediff", "kopfsim"]
STRENGTH = "partial"   # whole-history clauses only under named guards; three open findings F2 F3 F6 (see LEVEL_TEXT)
LEVEL_TEXT = (
    "Lean theorems by induction over the script (no bounds). UNGUARDED: per execution, for all limits/records/"
    "times — temporary and default-mode errors are retried with exactly the requested delay/backoff unless a limit "
    "is provably reached, permanent(-mode) errors end the handler, ignored-mode errors count as success, the "
    "function is not called iff a limit is reached, a fresh record is invoked iff wait < T and 0 < N; in EVERY "
    "environment (stale event bodies, lost patches, kills between call and patch, lifecycle skips, restarts "
    "anywhere) each invocation is within the limits of the record version it was shown and the gate is respected "
    "on that version; in-memory loops (activities, daemons, timer series: record continuity is a fact there): "
    "spacing, at most N, none at runtime >= T, never sleep past T, end with a failure record when the function "
    "keeps failing; one _timer task over its whole life: whole-series refinement to the loop, timeout/spacing "
    "laws, a failed series is the last (derived from the gate; C11-F1 fixed by af4d77a); the parent's retry "
    "delay is the earliest remaining delay of its unfinished children. "
    "GUARDED (_partial, guard = record continuity: every cycle starts from the record its last attempt "
    "produced; sufficient, not necessary): for change handlers and sub-handlers every later attempt starts no "
    "sooner than merge + delay, at most N invocations, none at runtime >= T, finished handlers never run, the "
    "retry number counts own attempts, a 'retries' verdict only after N invocations. FALSE of the code without "
    "the guard — open finding C11-F2 (by design: call-then-patch is not atomic; 4 Lean witnesses replayed on the "
    "code) — so the clause 'also across operator restarts / every restart position' holds for restarts between "
    "completed cycles only. timeout_failed_for_good_partial ('never sleeps past T') under a sufficient guard "
    "(retry outcomes merged at once, no pending children), both halves shown necessary by witnesses. "
    "FALSE clause recorded as open finding with a Lean witness: C11-F3 for change handlers and sub-handlers the "
    "timeout is counted from the record's creation, not from the first attempt (a handler behind a slow sibling, "
    "or waiting for its turn under asap, is failed with zero invocations); for timers the clause holds since "
    "9118944 (timer_first_of_series_invoked, unguarded). C11-F4 (failed timer re-spawned) is repaired by a6c10de: "
    "timer_respawn_failure_is_last covers the timer's whole existence across re-spawns, daemon_respawn_final_is_last a "
    "daemon's (a task that ended on its own is never spawned again). The timer's life is modelled with the object being "
    "changed at any time (per-iteration idleUntil): a running series is never restarted by the wait for idleness "
    "(timer_retry_steps). initial_delay= is not part of the timeout (initial_delay_not_counted). The self-driven loops give "
    "up only on a finished record (loop_stops_only_when_finished). A stored record is usable whatever the spelling of its "
    "timestamps: without a UTC offset (older releases) it is treated exactly as the same record with +00:00 (naive_is_utc, "
    "stored_is_step, unguarded; C11-F5 fixed by e01f630 — naive_record_never_retried_witness, naive_delayed_raises_forever, "
    "naive_started_raises are regressions of the variant before the repair, stepStoredRaw). The LOCAL TIME ZONE of the operator's "
    "process (TZ, /etc/localtime) plays no role: the instants a stored record denotes, hence the gate, the limits and the whole "
    "execution on it, are the same in every zone and for every spelling (zone_irrelevant, stored_zone_irrelevant, unguarded; the zone "
    "is a parameter of the model that the code's reader provably ignores); the variant that reads offset-less timestamps as local time "
    "(astimezone/timestamp()/default_timezone=local: stepStoredLocal) equals the code in a UTC process and on what kopf writes itself "
    "(local_step_same_in_utc, local_same_on_aware) and breaks the delay clause east of UTC and the timeout clause west of it "
    "(local_zone_east_wakes_sleeper, local_zone_west_hides_timeout, two *_witness theorems = the seeded shapes). 'A handler' in 'with retries=N a "
    "handler is invoked at most N times' is ONE REGISTRATION (one decorator with its own limits, bound to its reason) within the "
    "handling of one cause: for one function registered under one id for two reasons the count, the clock and the delay start "
    "anew when the second cause supersedes the first — CONFORMING, and what the code does for top-level handlers since f7d6401 "
    "(namesake_retries_bound_partial, namesake_starts_from_scratch: each registration within its own N, the function up to "
    "N1+N2 times in all; a handler without a reason of its own — resuming mix-in — is one handler for every cause and goes on). "
    "FALSE of the code one level down, open finding C11-F6: the SUB-handlers of such a stacked parent still take over the records "
    "of the superseded cause (first invocation with retry=k, failed by retries after fewer than N — even zero — invocations, or "
    "never called because their namesake had finished; namesake_inherits_refused_witness, replayed: corpus F6). ORACLE/TIE ONLY: several-handler activities and the parent/child "
    "composition (S tie + oracle), 'recorded as failed for good' as an event for change handlers (needs a next "
    "cycle: C03). Tied to the code by a grid on the real execute_handler_once/with_outcome (complete in "
    "thorough) and closed-loop sequences on the real processing cycle (all_at_once and asap; stale/lost/kill "
    "steps also for sub-handlers), kopf.execute, run_activity, _daemon, _timer (with idle), spawn/match_daemons.")
TIE = ("D: bounded-exhaustive grid on the real execute_handler_once / execute_handlers_once / with_outcome "
       "(exhaustive in thorough); S: closed-loop attempt sequences under virtual time with restarts, stale "
       "event bodies, lost patches and kills between call and patch (change handlers, handler pairs under "
       "all_at_once and under the default asap lifecycle, sub-handlers via kopf.execute incl. the children's "
       "delay), run_activity (one handler: the loop; several handlers with interleaving retries: one fold per "
       "handler, records of handlers not executed in an iteration must stay untouched), _daemon, _timer (whole "
       "life, idle iterations included, with and without idle=, with initial_delay=, the object changed at scripted "
       "moments incl. inside a retry series), a timer or a daemon through the real process_spawning_cause / _runner "
       "re-spawn layer (filters toggled by when=), change handlers and pairs also through the REAL "
       "process_changing_cause with a real registry (resuming handlers, initial=True; one function registered under one id "
       "for two reasons with the second cause superseding the first: every registration's series against its own model run "
       "from scratch, a stacked parent's sub-handlers as one inherited run), sub-handlers passed to "
       "kopf.execute() or registered in the parent's body and executed implicitly, the parent failing on its own; the legacy grid and "
       "40 % of all histories in a process whose local time zone is NOT UTC (TZ + tzset: 7 zones east/west/fractional/extreme/DST; model "
       "op stepStoredIn with the zone's offset), half of the change/pair/sub histories with the stored records re-spelled between two "
       "operator processes (no offset = older release, Z, other offsets); the "
       "model is given what the function WOULD still do: a loop that gives up early is a divergence")
THEOREMS = [("Kopf.Props.C11", "Kopf.C11." + n) for n in [
    # one execution
    "temp_retried", "perm_final", "ignored_done", "arbitrary_by_mode", "limits_refuse", "fresh_invoked_iff",
    # every environment
    "env_invocation_within_seen_limits", "env_gate_respected", "run_is_continuous_env",
    "kill_mid_exceeds_retries_witness", "stale_view_breaks_delay_witness", "lost_patch_exceeds_timeout_witness",
    "stale_view_reruns_finished_witness",
    # with record continuity
    "finished_never_runs_partial", "delay_respected_partial", "delay_respected_succ_partial", "final_is_last_partial",
    "retries_bound_partial", "retries_bound_scratch_partial", "retries_bound_tight",
    "timeout_bound_partial", "timeout_refuses", "timeout_failed_for_good_partial", "timeout_sleep_past_witness",
    "timeout_sleep_past_lag_witness", "timed_out_before_first_invocation_witness",
    "retry_counts_own_attempts_partial", "retries_verdict_only_after_N_partial",
    # progress
    "loop_ends_failed_retries", "loop_ends_failed_timeout",
    # in-memory loops, timers, sub-handlers
    "loop_is_run", "loop_retries_bound", "loop_timeout_bound", "loop_delay_respected", "loop_never_sleeps_past_timeout",
    "timer_failed_never_runs", "timer_failure_is_last", "timer_retry_lt", "timer_retry_steps",
    "timer_invocations_bound", "timer_series_is_loop", "timer_timeout_bound", "timer_delay_respected",
    "timer_first_of_series_invoked", "timer_respawn_failure_is_last", "children_delay_is_earliest",
    # white-box round: the loop gives up only on a finished record; initial_delay=; a daemon across re-spawns;
    # records with foreign spellings of their timestamps (finding C11-F5)
    "loop_stops_only_when_finished", "loop_retries_when_due", "initial_delay_not_counted", "loop_finished_is_last",
    "daemon_respawn_final_is_last", "stored_aware_is_step",
    # C11-F5 repaired by e01f630: every spelling is the aware one; the naive_* theorems are regressions of the
    # variant before the repair (stepStoredRaw)
    "naive_is_utc", "stored_is_step", "raw_aware_is_stored", "naive_record_never_retried_witness",
    "naive_delayed_raises_forever", "naive_started_raises",
    # the local time zone of the operator's process plays no role (seed C11g: naive timestamps read as local time)
    "zone_irrelevant", "stored_zone_irrelevant", "local_shifts_naive", "local_same_on_aware", "local_step_same_in_utc",
    "local_zone_east_wakes_sleeper", "local_zone_retried_too_soon_witness", "local_zone_invoked_after_timeout_witness",
    "local_zone_west_hides_timeout",
    # stacked registrations (one function, one id, two reasons; f7d6401)
    "namesake_retries_bound_partial", "namesake_starts_from_scratch", "namesake_inherits_refused_witness",
    # the record in several places of the object (MultiProgressStorage / the default smart storage; C11h)
    "multi_fetch_first", "multi_fetch_none", "store_then_fetch", "places_run_is_run", "upgrade_run_is_run",
    "upgrade_retries_bound_partial", "merged_fetch_exceeds_retries_witness", "merged_fetch_breaks_delay_witness",
]]
RULE = ("grid: errors mode x default mode x timeout {None,0,10s,70s} x runtime band (before / look-ahead "
        "boundary -1q / boundary / T-1q / T / after) x call duration x retries {None,0,1,4} x stored retries "
        "{0,1,3,4,5} x raised kind with delay {None,0,2s,-2s} / backoff {None,0,2s}, plus a gate grid over "
        "record shapes (fresh / delayed past / == now / future / success / failure), plus a day grid (ages around "
        "and beyond whole days, timeouts of 0.5 s .. 2 days, delays > 1 day; always complete); histories: random "
        "limits, scripts of (raised kind, delay, duration), wake policy per cycle (exact / early / late / at once / "
        "restart with downtime), activities with two handlers whose retries interleave, pairs under all_at_once or "
        "asap, for change handlers, pairs and sub-handlers also environment steps (stale body k versions back / "
        "lost patch / kill between call and patch), timers with and without idle= (idle below and above the "
        "timeout), timers and daemons with initial_delay= (below and above the timeout), timers whose object is changed "
        "1-8 times while they live, timers and daemons stopped by a filter mismatch and re-spawned through the real "
        "process_spawning_cause, 30 % of change/pair histories through the real process_changing_cause (reasons create/"
        "update/resume, initial=True handlers; half of them with STACKED registrations: one id, two reasons — create/update then "
        "delete, or the resuming mix-in with on-update in either registry order — own limits per registration, the second cause "
        "after 1-4 cycles), 25 % of the sub-handler histories through it as well (70 % under a stacked parent), "
        "sub-handlers explicit or implicit with a parent that fails by itself, "
        "TemporaryError without delay= (the documented 60 s), a legacy grid (1080 points: stored records with TZ-naive / Z / "
        "offset timestamps; always complete) + the zone grid (2520 points: 7 process time zones x naive/partly naive/+02:00 spellings x "
        "record shapes x ages on both sides of the timeout; always complete), 40 % of the histories of every kind in a non-UTC process "
        "zone, 50 % of change/pair/sub histories with every progress record on the object re-spelled at each restart (1-3 spellings in "
        "turn; 60 % of them with an extra restart within the first three cycles = an upgrade in the middle of a retry series), 30 % long flavour (day-scale times, fractional timeouts), seven driver kinds; a case is distinct & non-trivial when its abstraction (limits "
        "class, raised kind, which branch the outcome took, gate) is new and not the plain-success path"
        "; 35 % of change/pair/sub histories with the progress storage RECONFIGURED between operator processes (17 supported pairs + 3 "
        "triples of smart / annotations / status / Multi[annotations,status] / Multi[status,annotations], the switch early in a retry "
        "series) and/or the status stanza no longer persisted from cycle k: records of one handler in several places, not all current"
)
TRUSTED = [
    "SimLoop virtual time + wall clock shim (harness/sim/simloop.py); times are multiples of 2**-6 s so that "
    "float seconds, microsecond datetimes and ISO strings are exact (rounding of timestamps is never exercised)",
    "the process time zone is varied with os.environ['TZ'] + time.tzset() inside the check's process (restored after every point / "
    "history); for the while the wall clock shim's datetime.now() WITHOUT tz= returns the local digits as the real one does "
    "(simloop's own shim returns UTC digits: faithful only in a UTC process); zones are POSIX TZ strings (no tzdata needed)",
    "the stub handler stands for user code: it raises the scripted exception after sleeping the scripted duration",
    "the closed loop around the change handlers re-implements the 12 lines of process_changing_cause that "
    "call State.from_storage/with_purpose/with_handlers/execute_handlers_once/with_outcomes/store and applies "
    "the produced merge-patch to a dict body (no API server, no purge/extras/re-purposing: C02's subject; the histories "
    "with `proc` run the real process_changing_cause instead, with the cause handed to it by the harness); when "
    "the next cycle happens, which version of the body it is shown and whether its patch lands is the adversary's choice",
]
ASSUMPTIONS = [
    "where a progress record stands on the object and which place has precedence is taken from docs/configuration.rst "
    "(annotation kopf.zalando.org/{id}, status.kopf.progress.{id}; 'the first found state will be used when reading, i.e. the first "
    "storage has precedence'): the harness reads the event body along these sentences itself (READS / own_fetch), never through the "
    "configured storage's fetch(); the real fetch() is tied to the model's multiFetch by the driver op C11.fetch. A reconfiguration is "
    "generated only when the documentation supports it (valid_reconfiguration: the new configuration looks first where the previous "
    "one wrote); lost status writes only where the annotations are read first and not through the real process_changing_cause "
    "(its purge would be lost too and the leftover read as a fallback by the next handling: the environment's doing)",
    "asyncio.CancelledError and non-Exception BaseExceptions escalate out of execute_handler_once and are not "
    "outcomes (out of the property's scope)",
    "kopf has no per-invocation timeout: `timeout=` is only checked before a call and in the look-ahead",
    "a timer starts a new retry series only after a succeeded one; a series that failed for good is the last "
    "thing the timer invokes, in its task (af4d77a) and across re-spawns (a6c10de: forever_stopped); the re-spawn "
    "histories run the real process_spawning_cause (selection with excluded=forever_stopped) and _runner",
    "'is retried' as progress: for the self-driven loops the oracle requires the last outcome of a loop that ended on its "
    "own to be final; for change handlers a cycle that reports the handling as done (no delays; the real cycle purges "
    "the progress) must not leave a top-level handler whose last outcome was a retry (histories without stale/lost/kill "
    "steps). A sub-handler is abandoned when its parent fails for good: the parent's verdict",
    "the oracle requires a stored record to be usable whatever the spelling of its timestamps (same instants; a timestamp "
    "without an offset is UTC: what the older releases wrote); an exception escaping on a TZ-naive one is reported under "
    "C11-F5's signature (fixed by e01f630: a violation again), any other escaping exception is a violation",
    "ambient environment: the property does not mention the process's time zone, so the oracle requires every clause in every "
    "zone; the re-implemented cycle's oracle takes the record a cycle starts from (started, delayed, count) from the harness's OWN "
    "reading of the event body (offset-less = UTC), not from the code's HandlerState, so a misreading by the code is judged, not "
    "inherited (the real-process_changing_cause histories still take it from the code's state: stacked registrations legitimately "
    "drop records there; their whole-history clauses use observed times only). NOT varied, judged irrelevant to the clauses: locale "
    "(isoformat/iso8601 do not consult it), PYTHONHASHSEED (outcomes are keyed by handler id in insertion-ordered dicts; cannot be "
    "changed inside a running process), asyncio debug mode, DST transitions inside a history (the DST zone is used at its winter offset)",
    "'a handler' = one registration: one decorator application with its own errors/retries/timeout/backoff, bound to its "
    "reason, counted within the handling of one cause (the limits belong to the handler object, and two stacked decorators "
    "may give different ones). One function registered under one id for two reasons is two handlers; when the second cause "
    "supersedes the first, the second registration's count, timeout clock and delay start anew (conforming; f7d6401), and the "
    "first one's pending retry is dropped with its cause (supersession, not the error policy). The oracle splits what it "
    "observes under one id into the series of the registrations the code selected (by the handler object executed) and checks "
    "every clause per series, each against its own limits (a resuming handler — initial=True — is for 'the operator has "
    "started': where a NEW operator process ran a finished one again, a new series begins; in one process never); "
    "a first turn on a foreign record has no excuse there (a violation: "
    "failed-by-retries-too-early, retry-kwarg-sequence, …). A handler without a reason (resuming mix-in, on.field, plain "
    "reason=None) is one handler whatever the cause: one series. The same reading applied to the sub-handlers of a stacked "
    "parent gives the open finding C11-F6 (the code carries their records over)",
    "the spacing guarantee is relative to the moment the outcome was merged (now of with_outcome), which is "
    "not earlier than the end of the call",
    "record continuity (every cycle starts from the record the handler's last attempt produced) is the guard of "
    "the whole-history theorems named _partial; it is sufficient, not necessary (a lost patch of a refused "
    "attempt, or a stale view equal to the current record, is harmless). Without it the clauses are false of the "
    "code: open finding C11-F2 (by design), four Lean witnesses replayed on the real code (corpus 40-43). The "
    "oracle checks every clause on every history; a failure at a point where the observed record chain is "
    "broken is reported under C11-F2's signature, anywhere else it is a violation",
    "timeout_failed_for_good_partial ('the handler never sleeps past its timeout') is proved under the SUFFICIENT "
    "guard: every retry outcome is merged at once (lag 0) and the handler is not a parent waiting for "
    "sub-handlers; each half is necessary (timeout_sleep_past_witness, timeout_sleep_past_lag_witness); the exact "
    "condition is the invariant 'every retry outcome has merged + delay < started + T', which the in-memory loops "
    "satisfy unconditionally (loop_never_sleeps_past_timeout). The oracle checks the clause under that guard",
    "the timeout clause is checked by the oracle as the property words it ('T after the first attempt'): a "
    "handler failed by timeout without any invocation is reported under C11-F3's signature (timeouts <= 0 are "
    "treated as degenerate and not reported)",
    "one monotone clock: now = basetime + loop.time() with basetime = utcnow() - loop.time(); clock skew or steps "
    "between operator instances (before/after a restart) are outside the model and the harness",
    "lifecycles: a cycle in which the handler is awake but not selected (asap, one_by_one) is the model step "
    "`skipped`: no attempt, but a NEW record is stored (its `started` begins there; with finding C11-F3 the "
    "handler can then be failed by timeout without an invocation); for an existing record it is time passing. "
    "The harness runs pairs under all_at_once and asap; randomized/shuffled are not exercised",
    "'is recorded as failed for good' as an event is proved for the self-driven in-memory loops; for change "
    "handlers it needs a next cycle, which is the environment's (C03's subject)",
    "a record whose stored spelling differs from kopf's own is RE-STORED (normalised to +00:00) by every cycle that reads it, "
    "executed or not (State.store: as_in_storage() != _origin); for the current body that is the same record (same instants) and "
    "the model's idle cycle stays a no-op on the instants. Shown a STALE body, such an idle cycle writes the stale record over a "
    "newer one (with kopf's own spelling an idle cycle on a stale body writes nothing): an aggravation of the by-design finding "
    "C11-F2 that the model (runEnv: idle cycles store nothing) does not have; the generator therefore never combines re-spelled "
    "records with stale/lost/kill steps (observed once as a model/code divergence, no oracle failure)",
    "not modelled: idle-only timers (no interval), callable `initial_delay=`, nested sub-handlers and kopf.execute called twice in one parent call, non-zero "
    "patch_and_check latency in _daemon/_timer (the stub's patch is empty), a cause flipping back (A, B, A again), "
    "more than two registrations under one id",
    "handler ids are distinct (outcomes are keyed by id)",
]

TPS = 1024
Q = 16
EPOCH = simloop.EPOCH


class NonDyadic(Exception):
    pass


class BusyLoop(Exception):
    """The in-memory driver executed over and over at one virtual instant: it does not sleep."""


class Escaped(Exception):
    """An exception came out of the kopf code under test (it must turn handler errors into outcomes)."""

    def __init__(self, where: str, exc: BaseException) -> None:
        super().__init__(f"{where} raised {type(exc).__name__}: {exc}")
        self.where = where
        self.exc = exc


def sec(t: int | None) -> float | None:
    return None if t is None else t / TPS


def tk(x: float | None) -> int | None:
    if x is None:
        return None
    v = float(x) * TPS
    if v != int(v):
        raise NonDyadic(f"{x!r} s is not a whole number of ticks")
    return int(v)


def dt_ticks(d: datetime.datetime | None) -> int | None:
    if d is None:
        return None
    if d.tzinfo is None:
        d = d.replace(tzinfo=datetime.timezone.utc)
    delta = d - EPOCH
    us = delta // datetime.timedelta(microseconds=1)
    n, r = divmod(us * TPS, 10 ** 6)
    if r:
        raise NonDyadic(f"{d.isoformat()} is not a whole number of ticks")
    return n


def now_ticks() -> int:
    return tk(simloop.WALL.now_s())


# =================================================================================================
# The ambient environment of the operator's process: its local time zone (TZ, /etc/localtime).
# Nothing in the property mentions it, so nothing observable may depend on it — but Python reads a
# TZ-naive datetime as LOCAL time wherever it has to place it by itself (astimezone(), timestamp(),
# now() without tz=), and the stored records of the older releases are naive. The check's own process
# runs in UTC (as containers and CI do), where local == UTC and such a dependency is invisible.
# =================================================================================================

UTC = datetime.timezone.utc
# POSIX TZ strings (sign inverted): east and west of UTC, whole and fractional hours, the extremes, one with DST
ZONES = ["<+05>-5", "<-05>5", "<+0545>-5:45", "<-0330>3:30", "<+14>-14", "<-12>12", "CET-1CEST,M3.5.0,M10.5.0/3"]
_ZONE_TICKS: dict[str, int] = {}


@contextlib.contextmanager
def process_zone(tz: str | None) -> Iterator[None]:
    """Run with the given local time zone of the process (None: leave it as the machine has it). The wall
    clock shim is made faithful for the while: `datetime.now()` WITHOUT tz= gives the local digits."""
    if not tz:
        yield
        return
    old = os.environ.get("TZ")
    shim = simloop._ShimDateTime
    old_now = shim.__dict__.get("now")

    def now(cls: Any, tz: Any = None) -> datetime.datetime:
        if tz is not None:
            return simloop.WALL.now(tz)
        return simloop.WALL.now(UTC).astimezone().replace(tzinfo=None)

    os.environ["TZ"] = tz
    time.tzset()
    shim.now = classmethod(now)    # type: ignore[assignment]
    try:
        yield
    finally:
        if old_now is not None:
            shim.now = old_now      # type: ignore[assignment]
        if old is None:
            os.environ.pop("TZ", None)
        else:
            os.environ["TZ"] = old
        time.tzset()


def zone_ticks(tz: str | None) -> int:
    """The offset of the zone's local time from UTC (east positive) at the harness' epoch, in ticks."""
    if not tz:
        return 0
    if tz not in _ZONE_TICKS:
        with process_zone(tz):
            _ZONE_TICKS[tz] = int(time.localtime(EPOCH.timestamp()).tm_gmtoff) * TPS
    return _ZONE_TICKS[tz]


def respell_ts(v: str, spelling: str, key: str) -> str:
    """The same instant, spelled differently (a string without an offset is UTC: what the older releases wrote).
    Never goes through the local time zone of the process."""
    t = datetime.datetime.fromisoformat(v)
    t = t.replace(tzinfo=UTC) if t.tzinfo is None else t.astimezone(UTC)
    base = t.replace(tzinfo=None).isoformat(timespec="microseconds")
    if spelling == "naive" or spelling == f"naive-{key}":
        return base
    if spelling == "Z":
        return base + "Z"
    if spelling[0] in "+-" and spelling != "+00:00":
        hh, mm = int(spelling[1:3]), int(spelling[4:6])
        off = datetime.timedelta(hours=hh, minutes=mm) * (1 if spelling[0] == "+" else -1)
        return t.astimezone(datetime.timezone(off)).isoformat(timespec="microseconds")
    return base + "+00:00"


def respell_record(d: dict, spelling: str) -> dict:
    out = dict(d)
    for key in ("started", "stopped", "delayed"):
        if isinstance(out.get(key), str):
            out[key] = respell_ts(out[key], spelling, key)
    return out


def respell_body(body: dict, spelling: str) -> dict:
    """Every progress record on the object (annotations and/or status), its timestamps spelled as somebody
    else would have written them: an older release (no offset), another tool (Z, other offsets)."""
    body = copy.deepcopy(body)
    anns = (body.get("metadata") or {}).get("annotations") or {}
    for k, v in list(anns.items()):
        try:
            d = json.loads(v)
        except (TypeError, ValueError):
            continue
        if isinstance(d, dict) and any(x in d for x in ("started", "stopped", "delayed")):
            anns[k] = json.dumps(respell_record(d, spelling), separators=(",", ":"))
    progress = ((body.get("status") or {}).get("kopf") or {}).get("progress") or {}
    for k, d in list(progress.items()):
        if isinstance(d, dict):
            progress[k] = respell_record(d, spelling)
    return body


def spelling_offsets(spelling: str) -> list:
    """The UTC offsets (ticks; None: none at all) of [started, stopped, delayed] under a spelling."""
    if spelling.startswith("naive"):
        return [None if spelling in ("naive", f"naive-{k}") else 0 for k in ("started", "stopped", "delayed")]
    if spelling[0] in "+-":
        off = (int(spelling[1:3]) * 3600 + int(spelling[4:6]) * 60) * TPS * (1 if spelling[0] == "+" else -1)
        return [off, off, off]
    return [0, 0, 0]


class K:
    """kopf modules, imported late (through PYTHONPATH=$KOPF_REPO)."""
    loaded = False

    @classmethod
    def load(cls) -> None:
        if cls.loaded:
            return
        from kopf._cogs.configs import configuration, progress
        from kopf._cogs.structs import bodies, ephemera, patches, references
        from kopf._core.actions import execution, lifecycles, progression
        from kopf._core.engines import activities, daemons, indexing
        from kopf._core.intents import causes, handlers, registries, stoppers
        from kopf._core.reactor import inventory, processing, subhandling
        for k, v in list(locals().items()):
            if k != "cls":
                setattr(cls, k, v)
        cls.loaded = True
        cls.logger = logging.getLogger("verif.c11")
        cls.logger.disabled = True
        logging.getLogger("kopf").disabled = True
        logging.getLogger("kopf.activities").disabled = True
        for name in ("startup", "cleanup", "authentication", "probe"):
            logging.getLogger(f"kopf.activities.{name}").disabled = True


MODES = {None: None, "ignored": "IGNORED", "temporary": "TEMPORARY", "permanent": "PERMANENT"}


def k_mode(m: str | None) -> Any:
    return None if m is None else getattr(K.execution.ErrorsMode, MODES[m])


class ArbitraryA(Exception):
    pass


ARBITRARY = [ValueError, KeyError, RuntimeError, ArbitraryA, ZeroDivisionError, OSError]


DEFAULT_TEMPORARY_DELAY = 60 * 1024     # docs/errors.rst: "The default delay for temporary errors is hard-coded to 60 seconds"


def norm_x(x: list) -> list:
    """What the function ASKED for: `TemporaryError("…")` without `delay=` asks for the documented 60 s."""
    if len(x) > 1 and x[1] == "default":
        return [x[0], DEFAULT_TEMPORARY_DELAY]
    return list(x)


def make_exc(x: list, n: int = 0) -> BaseException | None:
    kind = x[0]
    if kind == "ok":
        return None
    if kind == "temporary" and x[1] == "default":
        return K.execution.TemporaryError("scripted temporary, no delay= given")
    if kind == "temporary":
        return K.execution.TemporaryError("scripted temporary", delay=sec(x[1]))
    if kind == "permanent":
        return K.execution.PermanentError("scripted permanent")
    if kind == "arbitrary":
        return ARBITRARY[n % len(ARBITRARY)]("scripted arbitrary")
    if kind == "children":
        return K.execution.HandlerChildrenRetry("scripted children", delay=sec(x[1]))
    raise ValueError(f"unknown raised kind {x!r}")


def exc_class(e: BaseException | None, raised: BaseException | None) -> str:
    if e is None:
        return "none"
    if e is raised:
        return "raised"
    if isinstance(e, K.execution.HandlerTimeoutError):
        return "timeout"
    if isinstance(e, K.execution.HandlerRetriesError):
        return "retries"
    return "other:" + type(e).__name__


def out_json(o: Any, invoked: bool, raised: BaseException | None) -> dict:
    return {"invoked": invoked, "final": bool(o.final), "delay": tk(o.delay), "exc": exc_class(o.exception, raised)}


def rec_of_state(hs: Any) -> dict:
    """The persisted fields of a real HandlerState, through its own `as_in_storage()`."""
    return rec_of_stored(hs.as_in_storage())


def rec_of_stored(d: dict | None) -> dict | None:
    if d is None:
        return None

    def ts(v: str | None) -> int | None:
        return None if v is None else dt_ticks(datetime.datetime.fromisoformat(v))
    return {"started": ts(d.get("started")), "stopped": ts(d.get("stopped")), "delayed": ts(d.get("delayed")),
            "retries": d.get("retries") or 0, "success": bool(d.get("success")), "failure": bool(d.get("failure"))}


def lim_json(l: dict) -> dict:
    return {"errors": l.get("errors"), "timeout": l.get("timeout"), "retries": l.get("retries"), "backoff": l.get("backoff")}


def env_json(default_errors: str, default_backoff: int) -> dict:
    return {"default_errors": default_errors, "default_backoff": default_backoff}


def mk_settings(default_backoff: int | None = None, storage: str = "smart") -> Any:
    settings = K.configuration.OperatorSettings()
    if default_backoff is not None:
        settings.execution.default_backoff = sec(default_backoff)
    if storage == "annotations":
        settings.persistence.progress_storage = K.progress.AnnotationsProgressStorage()
    elif storage == "status":
        settings.persistence.progress_storage = K.progress.StatusProgressStorage()
    elif storage == "multi":
        settings.persistence.progress_storage = K.progress.MultiProgressStorage([
            K.progress.AnnotationsProgressStorage(), K.progress.StatusProgressStorage()])
    elif storage == "multi-rev":
        settings.persistence.progress_storage = K.progress.MultiProgressStorage([
            K.progress.StatusProgressStorage(), K.progress.AnnotationsProgressStorage()])
    elif storage != "smart":
        raise ValueError(storage)
    return settings


# Where a handler's progress record stands on the object, per docs/configuration.rst ("Handling progress"): the
# annotations `kopf.zalando.org/{id}` (A) and the status field `status.kopf.progress.{id}` (S); a storage of several
# places: "all are written to in sync, but the first found state will be used when reading, i.e. the first storage has
# precedence"; the default ("smart"): "annotations, plus read-only from the status stanza, with annotations taking
# precedence over the status". The harness reads the object BY ITSELF along these sentences (never through the
# configured storage's own fetch()): what a cycle starts from is judged, not inherited.
READS = {"smart": "AS", "multi": "AS", "multi-rev": "SA", "status": "S", "annotations": "A"}
WRITES = {"smart": "A", "multi": "AS", "multi-rev": "AS", "status": "S", "annotations": "A"}


def read_place(place: str, hid: str, body: dict) -> dict | None:
    if place == "A":
        raw = ((body.get("metadata") or {}).get("annotations") or {}).get("kopf.zalando.org/" + hid.replace("/", "."))
        return None if raw is None else json.loads(raw)
    return (((body.get("status") or {}).get("kopf") or {}).get("progress") or {}).get(hid)


def own_fetch(storage_kind: str, hid: str, body: dict) -> dict | None:
    for place in READS[storage_kind]:
        got = read_place(place, hid, body)
        if got is not None:
            return got
    return None


def valid_reconfiguration(kinds: list[str]) -> bool:
    """A sequence of storage configurations (one per operator process) that the documentation supports: every new
    configuration finds the records of the previous one where it looks FIRST among the places that may hold a record
    (else the operator's owner has told it to prefer a place with leftovers, or none: not kopf's fault)."""
    ever: set[str] = set()
    for prev, new in zip(kinds, kinds[1:]):
        ever |= set(WRITES[prev])
        first = next((pl for pl in READS[new] if pl in ever), None)
        if first is None or first not in WRITES[prev]:
            return False
    return True


def mk_handler(kind: str, hid: str, fn: Any, l: dict, **extra: Any) -> Any:
    common = dict(fn=fn, id=hid, param=None, errors=k_mode(l.get("errors")), timeout=sec(l.get("timeout")),
                  retries=l.get("retries"), backoff=sec(l.get("backoff")))
    if kind == "plain":
        return K.execution.Handler(**common)
    if kind == "activity":
        return K.handlers.ActivityHandler(**common, activity=K.causes.Activity.STARTUP)
    res = dict(selector=K.references.Selector("kopfexamples"), labels=None, annotations=None, when=extra.get("when"),
               field=None, value=None)
    if kind == "changing":
        return K.handlers.ChangingHandler(**common, **res, old=None, new=None, field_needs_change=None,
                                          initial=extra.get("initial"), deleted=None, requires_finalizer=None,
                                          reason=K.causes.Reason(extra["reason"]) if extra.get("reason") else None)
    if kind == "daemon":
        return K.handlers.DaemonHandler(**common, **res, requires_finalizer=None, initial_delay=sec(extra.get("initial_delay")),
                                        cancellation_backoff=None, cancellation_timeout=None, cancellation_polling=None)
    if kind == "timer":
        return K.handlers.TimerHandler(**common, **res, requires_finalizer=None, initial_delay=sec(extra.get("initial_delay")),
                                       sharp=extra.get("sharp"), idle=sec(extra.get("idle")), interval=sec(extra.get("interval")))
    raise ValueError(kind)


# =================================================================================================
# The oracle: the property text over implementation-level observations. No Lean anywhere here.
# =================================================================================================

def effective_mode(l: dict, default_errors: str) -> str:
    return l["errors"] if l.get("errors") is not None else default_errors


def effective_backoff(l: dict, default_backoff: int) -> int:
    return l["backoff"] if l.get("backoff") is not None else default_backoff


def oracle_attempt(l: dict, default_errors: str, default_backoff: int, a: dict) -> list[tuple[str, str]]:
    """One observed call of execute_handler_once on an awake handler.
    a: time, started (of the record), retry, invoked, x (raised, if invoked), end (call end), out, rec (after).
    Returns [(shape, message)] for every clause of the property that this single attempt breaks."""
    bad: list[tuple[str, str]] = []
    out, rec = a["out"], a["rec"]
    if rec is None:
        return [("record-missing-after-attempt", f"the attempt at {a['time']} (retry={a['retry']}) left no record: "
                 "its outcome was not merged into the handler's state")]
    N, T = l.get("retries"), l.get("timeout")
    runtime0 = a["time"] - a["started"]
    # limits: with retries=N at most N invocations (the retry kwarg counts the previous attempts);
    # with timeout=T no attempt starts later than T after the first one
    if a["invoked"] and N is not None and a["retry"] >= N:
        bad.append(("invoked-beyond-retries", f"invoked with retry={a['retry']} although retries={N}"))
    if a["invoked"] and T is not None and runtime0 > T:
        bad.append(("invoked-after-timeout", f"invoked {runtime0} ticks after the start although timeout={T}"))
    if not a["invoked"]:
        # refusing to call is only legitimate when a limit is reached, and then it is failed for good
        reached = (N is not None and a["retry"] >= N) or (T is not None and runtime0 >= T)
        if not reached:
            bad.append(("not-invoked-without-limit", "an awake handler within its limits was not invoked"))
        if not (out["final"] and out["exc"] != "none" and rec["failure"] and not rec["success"]):
            bad.append(("limit-not-recorded-as-failure", "limits are hit but the record is not a failure for good"))
        return bad
    x = a["x"]
    kind = x[0]
    mode = effective_mode(l, default_errors)
    runtime1 = a["end"] - a["started"]

    def futile(delay: int) -> bool:
        # a retry is pointless when the count is used up or the next attempt could not start before T
        return (N is not None and a["retry"] + 1 >= N) or (T is not None and runtime1 + max(0, delay) >= T)

    def must_retry(delay_req: int | None, what: str) -> None:
        d0 = delay_req or 0
        if out["final"]:
            if not futile(d0):
                bad.append((f"{what}-not-retried", f"{what} error ended the handler although no limit is reached"))
            elif not (rec["failure"] and out["exc"] != "none"):
                bad.append((f"{what}-limit-not-failure", f"{what} error at the limits is not recorded as failure"))
        else:
            if out["delay"] != delay_req:
                bad.append((f"{what}-wrong-delay", f"{what} error retried with delay {out['delay']} instead of {delay_req}"))
            if rec["success"] or rec["failure"]:
                bad.append((f"{what}-retry-finished", "a retried handler is recorded as finished"))
            want = None if delay_req is None else a["merged"] + delay_req
            if rec["delayed"] != want:
                bad.append((f"{what}-wrong-delayed", f"record delayed={rec['delayed']} instead of {want}"))

    if kind == "ok":
        if not (out["final"] and out["exc"] == "none" and rec["success"] and not rec["failure"]):
            bad.append(("success-not-recorded", "a successful call is not recorded as success"))
    elif kind == "temporary":
        must_retry(x[1], "temporary")
    elif kind == "children":
        if out["final"] or out["delay"] != x[1]:
            bad.append(("children-not-retried", "pending sub-handlers did not lead to a retry with their delay"))
    elif kind == "permanent" or (kind == "arbitrary" and mode == "permanent"):
        if not (out["final"] and out["exc"] != "none" and rec["failure"] and not rec["success"]):
            bad.append((f"{kind}-{mode}-not-final" if kind == "arbitrary" else "permanent-not-final",
                        "a permanent(-mode) error did not end the handler as failed"))
    elif kind == "arbitrary" and mode == "ignored":
        if not (out["final"] and out["exc"] == "none" and rec["success"] and not rec["failure"]):
            bad.append(("ignored-not-done", "an arbitrary error in ignored mode does not count as done"))
    elif kind == "arbitrary":
        must_retry(effective_backoff(l, default_backoff), "arbitrary")
    if rec["retries"] != a["retry"] + 1:
        bad.append(("retries-not-counted", f"record retries={rec['retries']} after attempt number {a['retry']}"))
    return bad


F2_SHAPE = "re-invoked on a record that does not continue the handler's last attempt"
F3_SHAPE = "timed-out-before-first-invocation"
F4_SHAPE = "failed-timer-respawned"
F6_SHAPE = "sub-handlers-of-a-stacked-parent-inherit-the-superseded-cause's-progress"


def continues(prev: dict | None, e: dict) -> bool:
    """Did the execution/cycle `e` start from the record the handler's previous attempt produced
    (from a fresh record, for the first one)? Observed, not taken from the scenario."""
    seen = e.get("seen")
    if prev is None:
        if seen is not None:
            return seen["retries"] == 0 and seen["delayed"] is None and not (seen["success"] or seen["failure"])
        return e.get("retry", 0) == 0
    if prev.get("rec") is None:
        return False
    if seen is not None:
        return seen == prev["rec"]
    return e.get("retry") == prev["rec"]["retries"] and e.get("started") == prev["rec"]["started"]


def oracle_sequence(l: dict, default_errors: str, default_backoff: int, events: list[dict],
                    from_scratch: bool = True, broken_shape: str | None = None) -> list[tuple[str, str]]:
    """A whole observed history of one handler (one retry series): events are
    {"ev": "attempt", time, started, retry, invoked, x, end, merged, out, rec[, seen]} |
    {"ev": "idle", time, done[, seen]} | {"ev": "skipped", time} | {"ev": "restarted", time}.
    Every clause of the property is checked on every history. A failure of a whole-history clause at a
    point where the handler was shown a record that does not continue its own last attempt (stale event
    body, lost patch, kill between the handler call and the patch) is reported under the signature of
    the known finding C11-F2; everywhere else it is a plain violation. `broken_shape`: under which shape
    such a failure is reported (default: C11-F2's; "" = there is no excuse, the history has no stale/lost/kill
    steps, a broken chain is the code's own doing: the plain shape)."""
    bad: list[tuple[str, str]] = []
    if broken_shape is None:
        broken_shape = F2_SHAPE
    atts = [e for e in events if e["ev"] == "attempt"]
    inv = [a for a in atts if a["invoked"]]
    for a in atts:
        bad += oracle_attempt(l, default_errors, default_backoff, a)
    if any(a["rec"] is None for a in atts):
        return bad
    N, T = l.get("retries"), l.get("timeout")
    mode = effective_mode(l, default_errors)
    # where was the chain of records broken?
    broken_upto: list[bool] = []          # broken_upto[i]: some link up to attempt i is broken
    link_ok: list[bool] = []
    prev = None
    anyb = False
    for a in atts:
        ok = continues(prev, a) if (prev is not None or from_scratch) else True
        link_ok.append(ok)
        anyb = anyb or not ok
        broken_upto.append(anyb)
        prev = a

    def idx(a: dict) -> int:
        return next(i for i, x in enumerate(atts) if x is a)

    def report(shape: str, msg: str, broken: bool) -> None:
        if broken and broken_shape == F2_SHAPE:
            bad.append((F2_SHAPE, f"[{shape}] {msg} — the handler had been shown a record that does not continue its "
                        "last attempt (stale body / lost patch / kill between call and patch)"))
        elif broken and broken_shape:
            bad.append((broken_shape, f"[{shape}] {msg} — the handler's first turn for this cause was on the record its "
                        "namesake left from the superseded cause"))
        else:
            bad.append((shape, msg))

    if N is not None and len(inv) > max(N, 0):
        k = idx(inv[max(N, 0)])
        report("more-invocations-than-retries", f"{len(inv)} invocations with retries={N}", broken_upto[k])
    if inv and T is not None:
        late = [a for a in inv if a["time"] - inv[0]["time"] > T]
        if late:
            report("invocation-later-than-timeout", f"an invocation started {late[0]['time'] - inv[0]['time']} "
                   f"ticks after the first one, timeout={T}", broken_upto[idx(late[0])])
    if from_scratch:
        for i, a in enumerate(inv):
            if a["retry"] != i:
                report("retry-kwarg-sequence", f"invocation #{i} got retry={a['retry']}", broken_upto[idx(a)])
                break
        # failed for good BY RETRIES only after N invocations of its own
        done_inv = 0
        for k, a in enumerate(atts):
            done_inv += 1 if a["invoked"] else 0
            if a["out"]["exc"] == "retries" and N is not None and done_inv < N:
                report("failed-by-retries-too-early", f"recorded as failed by retries={N} after only {done_inv} "
                       "invocation(s)", broken_upto[k])
                break
        # "timeout=T … after the FIRST one": failed by timeout only after a first invocation
        for k, a in enumerate(atts):
            if a["invoked"]:
                break
            if a["out"]["exc"] == "timeout" and T is not None and T > 0:
                if broken_upto[k] and broken_shape:
                    report("timed-out-before-first-invocation", "failed by timeout without a first invocation", True)
                else:
                    bad.append((F3_SHAPE, f"recorded as failed by timeout={T} at {a['time']} ({a['time'] - a['started']} ticks "
                                "after its record was created) without ever having been invoked: the timeout is "
                                "counted from the creation of the record, not from the first attempt"))
                break
    for e in events:
        if e["ev"] == "idle" and e.get("rec_before") is not None and e.get("rec_after") != e.get("rec_before"):
            bad.append(("record-changed-without-execution", f"the handler was not executed at {e['time']} but its record "
                        f"changed: {e['rec_before']} -> {e['rec_after']}"))
            break
    # spacing and finality, over consecutive attempts
    for k, (a, b) in enumerate(zip(atts, atts[1:])):
        brk = not link_ok[k + 1]
        if a["out"]["final"] or a["rec"]["success"] or a["rec"]["failure"]:
            report("attempt-after-final", f"another attempt at {b['time']} after a final outcome at {a['time']}", brk)
            continue
        if not a["invoked"]:
            continue
        x = a["x"]
        need = None
        if x[0] in ("temporary", "children"):
            need = x[1]
        elif x[0] == "arbitrary" and mode == "temporary":
            need = effective_backoff(l, default_backoff)
        if need is not None and b["time"] < a["end"] + need:
            report("retried-too-soon", f"{x[0]} error at {a['end']} asked for {need} ticks, "
                   f"next attempt already at {b['time']}", brk)
    # sleeping cycles must not be due; awake ones are attempts by construction (or, under a lifecycle
    # that runs one handler per cycle, "skipped": the property does not say which due handler runs first);
    # "after which it is recorded as failed for good": when outcomes are merged at once and no
    # sub-handlers are pending, a cycle at runtime >= T must find the handler finished
    last = None
    plain = True
    for e in events:
        if e["ev"] == "attempt":
            plain = plain and (e["merged"] == e["end"] or e["out"]["final"]) and not (e["invoked"] and e["x"][0] == "children")
            last = e
            continue
        if e["ev"] != "idle" or last is None:
            continue
        brk = e.get("seen") is not None and e["seen"] != last["rec"]
        if not e["done"] and T is not None and plain and e["time"] - last["rec"]["started"] >= T:
            report("sleeps-past-timeout", f"at {e['time']} the handler is {e['time'] - last['rec']['started']} ticks old "
                   f"(timeout={T}), not finished and not due although nothing delayed the merge of its outcomes", brk)
        if not e["done"]:
            d = last["rec"]["delayed"]
            if d is None or e["time"] >= d:
                report("due-handler-skipped", f"the handler was due at {d} but skipped at {e['time']}", brk)
        elif not (last["rec"]["success"] or last["rec"]["failure"]):
            report("unfinished-reported-done", "handler counted as done without a final record", brk)
    return bad


F1_SHAPE = "failed-timer-invoked-again"


def oracle_timer_life(l: dict, series: list[list[dict]]) -> list[tuple[str, str]]:
    """The property over the whole life of one timer (docs/timers.rst: "For PermanentError, the timer
    stops forever and is not retried"): once a series is recorded as failed for good, the function
    is never invoked again; hence also at most N invocations in total with retries=N."""
    bad: list[tuple[str, str]] = []
    failed_at = None
    prev_last = None
    for series_events in series:
        atts = [e for e in series_events if e["ev"] == "attempt"]
        if prev_last is not None and atts and prev_last.get("rec") and not prev_last["rec"]["success"] \
                and not prev_last["rec"]["failure"]:
            # retries=N / the requested delay are promises about ONE series of attempts: starting over
            # (retry=0, a new `started`, no `delayed`) in the middle of it voids all of them
            bad.append(("series-restarted-unfinished", f"the attempt at {prev_last['time']} asked for a retry "
                        f"(retry={prev_last['retry']}), the next execution at {atts[0]['time']} starts a new series with "
                        f"retry={atts[0]['retry']}: the retry count, the timeout clock and the requested delay are forgotten"))
            break
        if atts:
            prev_last = atts[-1]
        if failed_at is not None and any(e["invoked"] for e in atts):
            first = next(e for e in atts if e["invoked"])
            bad.append((F1_SHAPE, f"the timer was recorded as failed for good at {failed_at} and its function "
                        f"was invoked again at {first['time']} with retry={first['retry_kwarg']}"))
            break
        if failed_at is None and atts and atts[-1].get("rec") and atts[-1]["rec"]["failure"]:
            failed_at = atts[-1]["merged"]
    return bad


def oracle_series_clock(kind: str, atts: list[dict]) -> list[tuple[str, str]]:
    """"timeout=T: no attempt starts later than T after the FIRST one": in a self-driven loop (one
    handler; activity, daemon, every series of a timer) nothing stands between the creation of the
    series' record and its first execution, so the clock the limits are counted from (`started`)
    must be the moment of the first attempt — not the spawn, not the start of an `initial_delay=`
    or of the wait for the object to become idle."""
    a = atts[0]
    if a["retry"] == 0 and a["started"] != a["gate"]:
        return [("series-clock-before-first-attempt", f"the first attempt of the {kind}'s series is at {a['gate']}, "
                 f"but its timeout is counted from {a['started']} ({a['gate'] - a['started']} ticks earlier)")]
    return []


def signature(shape: str, site: str) -> dict:
    if shape == F1_SHAPE:
        return {"site": "daemons._timer", "shape": F1_SHAPE}
    if shape == F2_SHAPE:
        return {"site": "processing.process_changing_cause", "shape": F2_SHAPE}
    if shape == F3_SHAPE:
        if site in ("timer", "respawn", "daemon"):
            # a self-driven loop creates the series' record at its first execution (timers: since 9118944,
            # after the idle wait): there the finding is repaired and the clause is a plain requirement
            return {"site": site, "shape": F3_SHAPE + " in a self-driven loop"}
        return {"site": "execution.execute_handler_once", "shape": F3_SHAPE}
    if shape == F4_SHAPE:
        return {"site": "daemons.spawn_daemons", "shape": F4_SHAPE}
    if shape == F5_SHAPE:
        return {"site": "progression.HandlerState.from_storage", "shape": F5_SHAPE}
    if shape == F6_SHAPE:
        return {"site": "subhandling.execute", "shape": F6_SHAPE}
    return {"site": site, "shape": shape}


# =================================================================================================
# Part D — the grid
# =================================================================================================

T10, T70 = 10 * TPS, 70 * TPS
D2 = 2 * TPS
NRET = 4
DEFAULT_BACKOFF = 60 * TPS


def grid_points() -> Iterator[dict]:
    err_combos = [(None, "temporary"), (None, "ignored"), ("ignored", "temporary"),
                  ("temporary", "temporary"), ("permanent", "temporary")]
    raised = ([["ok"], ["permanent"]] + [["temporary", d] for d in (None, 0, D2, -D2, "default")]
              + [["children", d] for d in (None, 0, D2)] + [["arbitrary"]])
    bands = {None: [0, 5 * TPS], 0: [0, 5 * TPS],
             T10: [0, T10 - D2 - Q, T10 - D2, T10 - Q, T10, T10 + 3 * TPS],
             T70: [0, T70 - DEFAULT_BACKOFF - Q, T70 - DEFAULT_BACKOFF, T70 - D2 - Q, T70 - D2, T70 - Q, T70, T70 + 3 * TPS]}
    for (errors, default_errors), timeout in itertools.product(err_combos, [None, 0, T10, T70]):
        for runtime, dur in itertools.product(bands[timeout], [0] if timeout in (None, 0) else [0, TPS]):
            for retries, stored in itertools.product([None, 0, 1, NRET], [0, 1, NRET - 1, NRET, NRET + 1]):
                for x in raised:
                    for backoff in ([None, 0, D2] if x[0] == "arbitrary" else [None]):
                        yield {"errors": errors, "default_errors": default_errors, "timeout": timeout,
                               "runtime": runtime, "dur": dur, "retries": retries, "stored": stored,
                               "x": x, "backoff": backoff, "shape": "fresh", "default_backoff": DEFAULT_BACKOFF}
    # the gate: record shapes that decide `awakened`
    for shape, timeout, retries, stored, x in itertools.product(
            ["past", "now", "future", "success", "failure", "failure-future", "fresh"],
            [None, T10], [None, 1], [0, 1], [["ok"], ["temporary", D2], ["arbitrary"]]):
        yield {"errors": None, "default_errors": "temporary", "timeout": timeout, "runtime": (T10 + 3 * TPS) if timeout else 5 * TPS,
               "dur": 0, "retries": retries, "stored": stored, "x": x, "backoff": D2, "shape": shape,
               "default_backoff": 3 * TPS}


DAY = 86400 * TPS
HOUR = 3600 * TPS


def day_points() -> Iterator[dict]:
    """Ages around and beyond whole days, timeouts of a day and more, fractional timeouts, delays of
    more than a day: `timedelta.seconds`-style slips (days dropped, fractions truncated) and any
    other unit confusion show up only here. Small enough to be run completely in every tier."""
    raised = [["ok"], ["temporary", D2], ["temporary", TPS // 2], ["temporary", HOUR], ["temporary", DAY + 60 * TPS],
              ["children", DAY + 60 * TPS], ["arbitrary"], ["permanent"]]
    for timeout in [TPS // 2, 2 * TPS + TPS // 4, HOUR, DAY, 90000 * TPS, 2 * DAY]:
        half = (timeout // 2) // Q * Q
        runtimes = sorted({r for r in [
            0, timeout - TPS // 2, timeout - Q, timeout, timeout + Q, timeout + TPS // 2, timeout + TPS - Q, timeout + TPS,
            DAY - Q, DAY, DAY + Q, DAY + 300 * TPS, DAY + half, 2 * DAY - Q, 2 * DAY, 2 * DAY + 300 * TPS, 3 * DAY + half]
            if r >= 0})
        for runtime, x in itertools.product(runtimes, raised):
            for backoff in ([None, D2] if x[0] == "arbitrary" else [None]):
                for dur in ([0, TPS] if x[0] in ("temporary", "arbitrary") and runtime < timeout else [0]):
                    yield {"errors": None, "default_errors": "temporary", "timeout": timeout, "runtime": runtime,
                           "dur": dur, "retries": None, "stored": 1, "x": x, "backoff": backoff, "shape": "fresh",
                           "default_backoff": DEFAULT_BACKOFF}
    # no timeout at all, but an old record and long delays: nothing may overflow or wrap
    for runtime, x in itertools.product([DAY - Q, DAY + 300 * TPS, 400 * DAY], raised):
        yield {"errors": None, "default_errors": "temporary", "timeout": None, "runtime": runtime, "dur": 0,
               "retries": 3, "stored": 1, "x": x, "backoff": None, "shape": "fresh", "default_backoff": DEFAULT_BACKOFF}


SPELLINGS = ["naive", "naive-started", "naive-delayed", "Z", "+02:00", "-07:30"]
F5_SHAPE = "tz-naive-stored-timestamp-escapes"


def legacy_points() -> Iterator[dict]:
    """Records as somebody else wrote them: the timestamps without a UTC offset (what the kopf releases
    before the TZ-aware clock stored, `datetime.utcnow().isoformat()`, and what kopf's own tests feed),
    with `Z`, or in another time zone — same instants, other spellings. Few, always all of them."""
    for spelling, shape, timeout, (retries, stored), x in itertools.product(
            SPELLINGS, ["fresh", "past", "now", "future", "success"], [None, T10, T70], [(None, 1), (4, 1), (1, 1), (1, 0)],
            [["ok"], ["temporary", D2], ["arbitrary"]]):
        yield {"errors": None, "default_errors": "temporary", "timeout": timeout, "runtime": 5 * TPS, "dur": 0,
               "retries": retries, "stored": stored, "x": x, "backoff": D2, "shape": shape,
               "default_backoff": 3 * TPS, "spelling": spelling}
    # the same in processes whose local time is not UTC: east / west, fractional, extreme, with DST. A record
    # that sleeps must sleep, one that is due must be executed, one beyond its timeout must be refused, whatever
    # the zone (ages on both sides of the timeout: a reader that takes the naive digits as local time moves
    # `started`/`delayed` by the zone's offset — hours — in either direction)
    for zone, spelling, shape, timeout, (retries, stored), x in itertools.product(
            ZONES, ["naive", "naive-started", "naive-delayed", "+02:00"], ["fresh", "past", "now", "future", "success"],
            [None, T10], [(None, 1), (4, 1)], [["ok"], ["temporary", D2], ["arbitrary"]]):
        for runtime in ([5 * TPS] if timeout is None else [5 * TPS, timeout + 3 * TPS]):
            yield {"errors": None, "default_errors": "temporary", "timeout": timeout, "runtime": runtime, "dur": 0,
                   "retries": retries, "stored": stored, "x": x, "backoff": D2, "shape": shape,
                   "default_backoff": 3 * TPS, "spelling": spelling, "zone": zone}


def respell(d: dict, spelling: str) -> dict:
    """The same record (as `as_in_storage()` gives it), its timestamps spelled differently."""
    return respell_record(d, spelling)


def point_limits(p: dict) -> dict:
    return {"errors": p["errors"], "timeout": p["timeout"], "retries": p["retries"], "backoff": p["backoff"]}


def point_key(p: dict, res: dict) -> str:
    out = res.get("out") or {}
    return leanio.canon([p["errors"], p["default_errors"], p["timeout"] is None, p["timeout"] == 0, p["retries"],
                         p["stored"], p["x"][0], str(p["x"][1]) if len(p["x"]) > 1 else None, p["backoff"], p["shape"],
                         res.get("awake"), out.get("invoked"), out.get("final"), out.get("exc"), out.get("delay") is None,
                         (p["runtime"] + p["dur"]) >= (p["timeout"] or 0), p.get("spelling"), p.get("zone")])


async def eval_point(p: dict, via_batch: bool, settings_cache: dict) -> dict:
    """Run one grid point on the real code, in a process with the point's local time zone."""
    with process_zone(p.get("zone")):
        return await _eval_point(p, via_batch, settings_cache)


async def _eval_point(p: dict, via_batch: bool, settings_cache: dict) -> dict:
    """Run one grid point on the real code; returns {"rec0", "now", "awake", "out", "end", "rec", "invoked"}."""
    settings = settings_cache.get(p["default_backoff"])
    if settings is None:
        settings = settings_cache[p["default_backoff"]] = mk_settings(p["default_backoff"])
    loop = asyncio.get_running_loop()
    calls: list[dict] = []
    raised_exc = make_exc(p["x"], p["stored"] + p["runtime"])

    async def fn(**kw: Any) -> None:
        calls.append({"t": now_ticks(), "retry": kw["retry"]})
        if p["dur"]:
            await asyncio.sleep(sec(p["dur"]))
        if raised_exc is not None:
            raise raised_exc

    handler = mk_handler("plain", "h", fn, point_limits(p))
    cause = K.execution.Cause(logger=K.logger)
    basetime = K.progression._get_basetime()
    now_dt = basetime + datetime.timedelta(seconds=loop.time())
    now = now_ticks()

    def off(t: int) -> datetime.datetime:
        return now_dt + datetime.timedelta(seconds=sec(t))
    shape = p["shape"]
    kw: dict[str, Any] = dict(active=True, basetime=basetime, started=off(-p["runtime"]), retries=p["stored"])
    if shape == "past":
        kw["delayed"] = off(-TPS)
    elif shape == "now":
        kw["delayed"] = off(0)
    elif shape in ("future", "failure-future"):
        kw["delayed"] = off(Q)
    if shape == "success":
        kw.update(success=True, stopped=off(-TPS))
    if shape in ("failure", "failure-future"):
        kw.update(failure=True, stopped=off(-TPS))
    hs = K.progression.HandlerState(**kw)
    rec0 = rec_of_state(hs)
    if p.get("spelling"):
        stored = respell(hs.as_in_storage(), p["spelling"])
        hs = K.progression.HandlerState.from_storage(K.progress.ProgressRecord(**stored), basetime=basetime).as_active()
    default_errors = k_mode(p["default_errors"])
    res: dict[str, Any] = {"rec0": rec0, "now": now}
    try:
        if via_batch:
            state = K.progression.State({handler.id: hs}, basetime=basetime)
            outcomes = await K.execution.execute_handlers_once(
                lifecycle=K.lifecycles.all_at_once, settings=settings, handlers=[handler], cause=cause, state=state,
                default_errors=default_errors)
            res["awake"] = handler.id in outcomes
            if res["awake"]:
                o = outcomes[handler.id]
                hs2 = state.with_outcomes(outcomes)[handler.id]
            elif calls:
                res["awake"] = "called-without-outcome"
        else:
            res["awake"] = bool(hs.awakened)
            if res["awake"]:
                o = await K.execution.execute_handler_once(settings=settings, handler=handler, cause=cause, state=hs,
                                                           default_errors=default_errors)
                hs2 = hs.with_outcome(o)
    except Exception as e:
        res["awake"] = f"escaped-exception:{type(e).__name__}"
        if p.get("spelling"):
            res["awake"] = "raised"
            res["escaped"] = type(e).__name__
    if res["awake"] is True:
        res["invoked"] = bool(calls)
        res["out"] = out_json(o, bool(calls), raised_exc)
        res["end"] = now_ticks()
        res["rec"] = rec_of_state(hs2)
        res["retry_kwarg"] = calls[0]["retry"] if calls else None
        res["calls"] = len(calls)
    else:
        res["done"] = bool(hs.finished)
    return res


def point_request(p: dict, res: dict) -> list:
    if p.get("zone"):
        return ["C11.stepStoredIn", zone_ticks(p["zone"]), env_json(p["default_errors"], p["default_backoff"]),
                lim_json(point_limits(p)), res["rec0"], spelling_offsets(p["spelling"]), res["now"], p["dur"], norm_x(p["x"])]
    if p.get("spelling"):
        sp = p["spelling"]
        return ["C11.stepStored", env_json(p["default_errors"], p["default_backoff"]), lim_json(point_limits(p)),
                res["rec0"], sp in ("naive", "naive-started"), sp in ("naive", "naive-delayed"),
                res["now"], p["dur"], norm_x(p["x"])]
    return ["C11.step", env_json(p["default_errors"], p["default_backoff"]), lim_json(point_limits(p)),
            res["rec0"], res["now"], p["dur"], norm_x(p["x"])]


def point_impl(res: dict) -> dict:
    if res["awake"] is True:
        return {"awake": True, "out": res["out"], "end": res["end"], "rec": res["rec"]}
    if res["awake"] == "raised":
        return {"awake": "raised"}
    return {"awake": res["awake"], "done": res["done"]}


def oracle_point(ctx: Ctx, p: dict, res: dict, via: str) -> bool:
    """The property on one grid point. Returns True when it holds."""
    rec0 = res["rec0"]
    finished = rec0["success"] or rec0["failure"]
    sleeping = (not finished) and rec0["delayed"] is not None and rec0["delayed"] > res["now"]
    bad: list[tuple[str, str]] = []
    if res["awake"] is not True:
        if res["awake"] == "raised":
            # a record this operator (or a predecessor) has stored must be usable after a restart
            naive = p["spelling"].startswith("naive")
            bad.append((F5_SHAPE if naive and res.get("escaped") == "TypeError" else "escaped-exception",
                        f"the cycle raised {res.get('escaped')} on a stored record whose timestamps are spelled "
                        f"'{p['spelling']}' ({'without a UTC offset, as older kopf releases wrote them' if naive else 'same instants'}): "
                        "the handler is neither executed nor ever retried"))
        elif res["awake"] is not False:
            bad.append((str(res["awake"]).split(":")[0], f"no outcome was reported: {res['awake']}"))
        elif not (finished or sleeping):
            bad.append(("due-handler-skipped", "an unfinished handler whose delay has passed was not executed"))
    else:
        if finished:
            bad.append(("finished-handler-executed", "a handler recorded as finished was executed again"))
        if sleeping:
            bad.append(("retried-too-soon", "a handler was executed before its `delayed` moment"))
        if res["calls"] > 1:
            bad.append(("called-twice", "one execution called the function more than once"))
        a = {"time": res["now"], "started": rec0["started"], "retry": rec0["retries"], "invoked": res["invoked"],
             "x": norm_x(p["x"]), "end": res["end"], "merged": res["end"], "out": res["out"], "rec": res["rec"]}
        bad += oracle_attempt(point_limits(p), p["default_errors"], p["default_backoff"], a)
        if res["invoked"] and res["retry_kwarg"] != rec0["retries"]:
            bad.append(("retry-kwarg", f"retry kwarg {res['retry_kwarg']} != stored retries {rec0['retries']}"))
    for shape, msg in bad:
        where = f"{via}, process TZ={p['zone']}, stored timestamps spelled '{p['spelling']}'" if p.get("zone") else via
        ctx.oracle_fail(f"grid point ({where}): {msg}", {"part": "grid", "point": p, "via": via, "impl": point_impl(res)},
                        signature(shape, "execute_handler_once" if via == "direct" else "execute_handlers_once"))
    return not bad


async def run_grid(ctx: Ctx, points: list[dict], use_model: bool = True) -> None:
    cache: dict = {}
    reqs, impls, inputs = [], [], []
    for p in points:
        vias = ["batch"] if (p["shape"] != "fresh" or p.get("spelling")) else ["direct", "batch"]
        for via in vias:
            res = await eval_point(p, via == "batch", cache)
            oracle_point(ctx, p, res, via)
            out = res.get("out") or {}
            trivial = res["awake"] is True and p["x"][0] == "ok" and out.get("invoked") and p["timeout"] is None and p["retries"] is None
            ctx.case(key=point_key(p, res), nontrivial=not trivial,
                     sample={"grid_point": p, "impl": point_impl(res)} if ctx.evaluations % 2999 == 0 and len(ctx.samples) < 3 else None)
            ctx.count("grid.raised", p["x"][0])
            ctx.count("grid.mode", f"{p['errors']}/{p['default_errors']}")
            ctx.count("grid.branch", (f"awake={res['awake']}" if res["awake"] is not True else
                                      f"invoked={out['invoked']} final={out['final']} exc={out['exc']}"))
            ctx.count("grid.via", via)
            if p.get("spelling"):
                ctx.count("grid.zone", f"{p.get('zone') or 'UTC'} (local = UTC{zone_ticks(p.get('zone')) / TPS / 3600:+g} h)")
            reqs.append(point_request(p, res))
            impls.append(point_impl(res))
            inputs.append({"part": "grid", "point": p, "via": via})
    ctx.traces += len(reqs)
    if not use_model or not reqs:
        return
    outs = ctx.driver.ask(reqs)
    for inp, impl, out in zip(inputs, impls, outs):
        model = out[1] if out and out[0] == "ok" else out
        ctx.compare("C11 grid point", impl, model, inp)


# =================================================================================================
# Part S — closed-loop histories
# =================================================================================================

def merge_patch(target: Any, patch: Any) -> Any:
    """RFC 7386, as the API server applies kopf's merge-patches."""
    if not isinstance(patch, dict):
        return copy.deepcopy(patch)
    if not isinstance(target, dict):
        target = {}
    for k, v in patch.items():
        if v is None:
            target.pop(k, None)
        else:
            target[k] = merge_patch(target.get(k), v)
    return target


class Script:
    """The scripted behaviour of one stub handler: [(raised, dur)], then success for ever."""

    def __init__(self, items: list) -> None:
        self.items = [(list(x), int(d)) for x, d in items]
        self.i = 0
        self.calls: list[dict] = []

    def peek(self) -> tuple[list, int]:
        x, dur = self.items[self.i] if self.i < len(self.items) else (["ok"], 0)
        return norm_x(x), dur

    def rest(self) -> list:
        """What the function would still do if it were called again (then success for ever)."""
        return [[norm_x(x), dur] for x, dur in self.items[self.i:]] + [[["ok"], 0]]

    def make_fn(self, before: Any = None) -> Any:
        async def fn(**kw: Any) -> None:
            x, dur = self.peek()
            n = self.i
            raw = self.items[n][0] if n < len(self.items) else x
            self.i += 1
            call = {"t": now_ticks(), "retry": kw["retry"], "x": x, "dur": dur, "exc": make_exc(raw, n)}
            self.calls.append(call)
            if before is not None:
                before(call)
            if dur:
                await asyncio.sleep(sec(dur))
            call["end"] = now_ticks()
            if call["exc"] is not None:
                raise call["exc"]
        return fn


def gen_limits(rng: random.Random, long: bool = False) -> dict:
    if long:
        # fractional timeouts, an hour, a day and more
        return {"errors": rng.choice([None, None, None, "temporary", "permanent"]),
                "timeout": rng.choice([TPS // 2, 2 * TPS + TPS // 4, 3 * TPS + 3 * TPS // 4, 600 * TPS, HOUR, HOUR,
                                       DAY, 90000 * TPS, 2 * DAY, None]),
                "retries": rng.choice([None, None, None, 3, 5]),
                "backoff": rng.choice([None, TPS // 2, 2 * TPS, HOUR // 2, DAY + 60 * TPS])}
    return {"errors": rng.choice([None, None, "ignored", "temporary", "permanent"]),
            "timeout": rng.choice([None, None, None, 0, TPS, 3 * TPS, 5 * TPS, 8 * TPS, 20 * TPS, 90 * TPS]),
            "retries": rng.choice([None, None, 0, 1, 2, 3, 3, 5]),
            "backoff": rng.choice([None, 0, TPS // 2, 2 * TPS, 7 * TPS])}


def gen_raised(rng: random.Random, children: bool, long: bool = False) -> list:
    r = rng.random()
    delays = [None, 0, Q, TPS // 2, TPS, 2 * TPS, 3 * TPS, 5 * TPS, -TPS]
    if long:
        delays = [Q, TPS // 4, TPS // 2, TPS, 60 * TPS, 60 * TPS, 1800 * TPS, DAY - Q, DAY + 60 * TPS, 2 * DAY + TPS // 2, 5 * TPS]
    if r < 0.03 and not long:
        return ["temporary", "default"]       # TemporaryError("…") without delay=: the documented 60 s
    if r < 0.38:
        return ["temporary", rng.choice(delays)]
    if r < 0.70:
        return ["arbitrary"]
    if r < 0.78:
        return ["permanent"]
    if r < 0.90 and children:
        return ["children", rng.choice(delays[:-1])]
    return ["ok"]


def gen_script(rng: random.Random, children: bool = True, long: bool = False) -> list:
    n = rng.choice([1, 2, 3, 3, 4, 5, 6, 8])
    return [[gen_raised(rng, children, long), rng.choice([0, 0, 0, 0, Q, TPS, 3 * TPS])] for _ in range(n)]


def gen_plan(rng: random.Random, n: int = 12, long: bool = False) -> list:
    plan = []
    qs = TPS // Q   # quanta per second
    for _ in range(n):
        r = rng.random()
        if long and r < 0.45:
            # operator downtime / late events of about a day and more, fractions of a second late
            late = rng.choice([DAY // Q - 1, DAY // Q, DAY // Q + 300 * qs, DAY // Q + 1800 * qs, 2 * DAY // Q,
                               2 * DAY // Q + 300 * qs, 3600 * qs, qs // 2, qs + qs // 2, 2 * qs + 3 * qs // 4])
            plan.append([rng.choice(["restart", "restart", "late"]), late])
            continue
        if r < 0.50:
            plan.append(["exact"])
        elif r < 0.65:
            plan.append(["early", rng.choice([1, 1, 2, 8, 64])])
        elif r < 0.78:
            plan.append(["late", rng.choice([1, 2, 64, 640])])
        elif r < 0.84:
            plan.append(["zero"])
        else:
            plan.append(["restart", rng.choice([0, 1, 8, 64, 640, 6400])])
    return plan


def gen_history(rng: random.Random, kind: str | None = None) -> dict:
    h = gen_history_plain(rng, kind)
    gen_ambient(rng, h)
    return h


def gen_ambient(rng: random.Random, h: dict) -> None:
    """What surrounds the operator and is none of the property's business: the local time zone of its process
    (every kind of history), and — where records outlive a process: change handlers, pairs, sub-handlers — who
    wrote the stored records the next process finds: an older release (timestamps without an offset), another
    tool (Z, other offsets). An upgrade in the middle of a retry series is made likely."""
    if rng.random() < 0.4:
        h["zone"] = rng.choice(ZONES)
    if "plan" in h and not h.get("env") and rng.random() < 0.5:
        # (not together with stale event bodies: see ASSUMPTIONS, "re-stored by every cycle")
        h["respell"] = [rng.choice(["naive", "naive", "naive", "naive-started", "naive-delayed", "Z", "+02:00", "-07:30", "+00:00"])
                        for _ in range(rng.choice([1, 1, 2, 3]))]
        if rng.random() < 0.6:
            long = h.get("flavour") == "long"
            down = rng.choice([0, 1, 64, 640, 6400] + ([3600 * 64, 86400 * 64] if long else []))
            h["plan"].insert(rng.choice([0, 0, 1, 2]), ["restart", down])
    if "plan" in h and not h.get("env") and rng.random() < 0.35:
        gen_reconfigured(rng, h)


# every supported pair; of the triples only those in which every place read before the complete one holds nothing but
# current records (a record is re-stored only when it changes: after a middle process a place may hold a part of them)
RECONFIGURATIONS = [k for k in itertools.product(sorted(READS), repeat=2) if valid_reconfiguration(list(k)) and len(set(k)) > 1] + \
    [("status", "multi", "smart"), ("status", "multi-rev", "smart"), ("annotations", "multi", "smart")]


def gen_reconfigured(rng: random.Random, h: dict) -> None:
    """Records of one handler in SEVERAL places of the object, not all of them current: the operator is restarted
    with another progress storage in the middle of a retry series (the upgrade from the status-only releases to the
    default annotations+status-fallback one; a transitional MultiProgressStorage before or after; every sequence of
    the five configurations that the documentation supports: `valid_reconfiguration`), and/or the API server stops
    persisting the status stanza at some cycle while the annotations go on (only where the annotations are read
    first). What the lower-priority place still holds is then an OLDER record of the same handler."""
    long = h.get("flavour") == "long"
    if rng.random() < 0.8:
        kinds = list(rng.choice(RECONFIGURATIONS))
        if rng.random() < 0.4:
            kinds = rng.choice([["status", "smart"], ["status", "multi"], ["multi", "smart"], ["status", "multi", "smart"]])
        h["storages"] = kinds
        h["storage"] = kinds[0]
        have = [i for i, st in enumerate(h["plan"][:4]) if st[0] == "restart"]
        for _ in range(max(0, len(kinds) - 1 - len(have))):
            down = rng.choice([0, 1, 64, 640] + ([3600 * 64] if long else []))
            h["plan"].insert(rng.choice([0, 0, 1, 2]), ["restart", down])
    else:
        h["storage"] = "multi"
    # (not through the real process_changing_cause: its purge of a finished handling would be lost on the status as
    # well, and the leftover then read as a fallback record of the NEXT handling — the environment's doing)
    if not h.get("proc") and all(READS[k][0] == "A" for k in (h.get("storages") or [h["storage"]])) and rng.random() < (0.5 if h.get("storages") else 1.0):
        h["status_lost_from"] = rng.choice([0, 1, 1, 2, 3])
    if rng.random() < 0.7:
        # the series is still open when the places diverge: the function fails in its first calls, within its limits
        k = rng.choice([2, 3, 4])
        for hd in h["handlers"]:
            if hd["id"] == "p":
                continue
            hd["script"] = [[rng.choice([["temporary", rng.choice([Q, TPS, 3 * TPS])], ["temporary", TPS], ["arbitrary"]]), 0]
                            for _ in range(k)] + hd["script"]
            if rng.random() < 0.7:
                hd["limits"].update(errors=rng.choice([None, "temporary"]), retries=rng.choice([None, k, k + 1, k + 2]),
                                    timeout=rng.choice([None, None, 90 * TPS, DAY]))


def gen_history_plain(rng: random.Random, kind: str | None = None) -> dict:
    kind = kind or rng.choice(["change"] * 5 + ["pair"] * 2 + ["sub"] * 2 + ["activity", "daemon", "timer", "timer", "respawn"])
    long = rng.random() < 0.3
    if long:
        # same kinds, but ages/downtimes/delays around and beyond whole days and fractional timeouts
        _rng = rng
        gl, gs, gp = gen_limits, gen_script, gen_plan
        return _gen_history(rng, kind, lambda r: gl(r, True), lambda r, c=True: gs(r, c, True),
                            lambda r: gp(r, 12, True), "long")
    return _gen_history(rng, kind, gen_limits, gen_script, gen_plan, "short")


def _gen_history(rng: random.Random, kind: str, gen_limits: Any, gen_script: Any, gen_plan: Any, flavour: str) -> dict:
    h: dict[str, Any] = {"kind": kind, "flavour": flavour, "storage": rng.choice(["smart", "annotations", "status"]),
                         "default_backoff": rng.choice([DEFAULT_BACKOFF, DEFAULT_BACKOFF, 3 * TPS, TPS]),
                         "t0": rng.choice([0, Q, 5 * TPS, 1000 * TPS + 48])}
    inmem = kind in ("activity", "daemon", "timer", "respawn")
    if kind == "sub":
        plim = gen_limits(rng) if flavour == "long" and rng.random() < 0.7 else rng.choice([{}, {}, gen_limits(rng)])
        h["handlers"] = [{"id": "p", "limits": plim, "script": []},
                         {"id": "p/s1", "limits": gen_limits(rng), "script": gen_script(rng, False)},
                         {"id": "p/s2", "limits": gen_limits(rng), "script": gen_script(rng, False)}]
        h["handlers"][0]["limits"] = lim_json(h["handlers"][0]["limits"])
        # sub-handlers registered in the parent's body (@kopf.subhandler) and executed by kopf when the parent
        # returns, or passed to kopf.execute() by the parent itself; the parent may fail on its own as well
        h["implicit"] = rng.random() < 0.5
        if rng.random() < 0.5:
            own = [[["temporary", rng.choice([None, 0, Q, TPS, 3 * TPS, 5 * TPS])], 0], [["arbitrary"], 0], [["ok"], 0], [["ok"], 0]]
            h["handlers"][0]["script"] = [copy.deepcopy(rng.choice(own)) for _ in range(rng.choice([1, 2, 3, 5]))]
    else:
        n = 2 if kind == "pair" else 1
        h["handlers"] = [{"id": f"h{i + 1}", "limits": gen_limits(rng), "script": gen_script(rng, not inmem)}
                         for i in range(n)]
    if kind == "activity" and rng.random() < 0.6:
        # two handlers whose retries interleave: A asks for long delays, B is re-invoked during A's sleep
        slow = [[["temporary", rng.choice([3 * TPS, 5 * TPS, 8 * TPS])] if rng.random() < 0.7 else gen_raised(rng, False),
                 rng.choice([0, 0, Q])] for _ in range(rng.choice([2, 3, 4, 6]))]
        fast = [[rng.choice([["temporary", rng.choice([Q, TPS // 2, TPS])], ["arbitrary"], ["temporary", TPS]]),
                 rng.choice([0, 0, Q, TPS])] for _ in range(rng.choice([3, 5, 8]))]
        la = gen_limits(rng)
        la["errors"] = rng.choice([None, "temporary"])
        la["retries"] = rng.choice([None, 2, 3, 3, 4, 5])
        lb = gen_limits(rng)
        lb.update(errors=rng.choice([None, "temporary"]), backoff=rng.choice([Q, TPS // 2, TPS]),
                  timeout=rng.choice([None, None, 20 * TPS]), retries=rng.choice([None, None, 6]))
        pair = [{"id": "a", "limits": la, "script": slow}, {"id": "b", "limits": lb, "script": fast}]
        if rng.random() < 0.5:
            pair.reverse()
        h["handlers"] = pair
    if kind == "timer":
        h["interval"] = rng.choice([TPS, 4 * TPS, 10 * TPS])
        h["sharp"] = rng.choice([False, True])
        h["handlers"][0]["script"] = [s for _ in range(3) for s in gen_script(rng, False)][:12]
        if rng.random() < 0.5:
            # idle= as well: the series' record is created before the idle wait
            h["idle"] = rng.choice([Q, TPS, 2 * TPS, 5 * TPS, 10 * TPS])
            if rng.random() < 0.5:
                h["handlers"][0]["limits"]["timeout"] = rng.choice([TPS, 2 * TPS, 5 * TPS, 8 * TPS])
            if rng.random() < 0.7:
                # the object is changed while the timer lives (also in the middle of a retry series):
                # every essential change restarts the wait for idleness
                horizon = rng.choice([5 * TPS, 20 * TPS, 60 * TPS])
                h["touches"] = sorted({rng.randrange(0, horizon // Q) * Q for _ in range(rng.choice([1, 2, 4, 8]))})
    if kind in ("timer", "daemon") and rng.random() < 0.35:
        # initial_delay=: the task sleeps before it creates its state; not a part of the timeout
        h["initial_delay"] = rng.choice([Q, TPS, 3 * TPS, 10 * TPS, 30 * TPS])
        if rng.random() < 0.5:
            h["handlers"][0]["limits"]["timeout"] = rng.choice([TPS, 2 * TPS, 5 * TPS, 20 * TPS])
    if kind == "respawn":
        h["interval"] = rng.choice([TPS, 4 * TPS])
        h["sharp"] = rng.choice([False, True])
        h["handlers"][0]["script"] = [s for _ in range(3) for s in gen_script(rng, False)][:12]
        h["handlers"][0]["script"] = [[x, 0] for x, _ in h["handlers"][0]["script"]]   # no stop in the middle of a call
        h["tasks"] = [{"live": rng.choice([TPS, 3 * TPS, 6 * TPS, 20 * TPS, 70 * TPS]), "gap": rng.choice([Q, TPS, 5 * TPS])}
                      for _ in range(rng.choice([2, 2, 3]))]
        h["target"] = rng.choice(["timer", "daemon"])
    if not inmem:
        h["plan"] = gen_plan(rng)
    if kind == "pair" and rng.random() < 0.4:
        h["lifecycle"] = "asap"       # kopf's default: one handler per cycle
    if (kind in ("change", "pair") and rng.random() < 0.3) or (kind == "sub" and rng.random() < 0.25):
        # through the REAL process_changing_cause: a real registry (with resuming handlers, initial=True,
        # and the causes they are selected for), purposes, the purge when the handling is done
        h["proc"] = True
        h["reason"] = rng.choice(["create", "update", "resume", "resume"])
        h["cause_initial"] = h["reason"] == "resume" or rng.random() < 0.5
        for hd in h["handlers"]:
            hd["initial"] = rng.choice([None, None, True]) if h["cause_initial"] and "/" not in hd["id"] else None
        if rng.random() < (0.7 if kind == "sub" else 0.5):
            gen_stacked(rng, h, gen_limits)
    elif kind in ("change", "pair", "sub") and rng.random() < 0.4:
        # the adversarial environment: stale event bodies, lost patches, kills between call and patch
        envs = []
        for _ in range(12):
            r = rng.random()
            if r < 0.70:
                envs.append({})
            elif r < 0.80:
                envs.append({"stored": False})
            elif r < 0.90:
                envs.append({"stored": False, "kill": rng.choice([0, 1, 64, 640, 6400])})
            else:
                envs.append({"view": rng.choice([1, 1, 2, 5])})
        h["env"] = envs
    return h


def gen_stacked(rng: random.Random, h: dict, gen_limits: Any) -> None:
    """One function registered under ONE id for TWO reasons (stacked decorators: two handlers with their
    own limits, one progress record), and the second cause superseding the first after `switch` cycles,
    usually while the first handling is still open. Bound+bound (create/update, then delete), or the
    resuming mix-in (`@kopf.on.resume`: no reason of its own) stacked with `@kopf.on.update` in either order
    (the registry's de-duplication keeps the first registered of the two when both match)."""
    first = h["handlers"][0]
    combo = rng.choice([("create", "delete"), ("update", "delete"), ("update", "delete"), ("resume", "update")])
    if h["kind"] == "sub" and combo[0] == "resume":
        combo = ("update", "delete")
    l2 = lim_json(gen_limits(rng))
    if rng.random() < 0.5:
        # the inherited count / clock is what would hurt: the second registration with small limits of its own
        l2["retries"] = rng.choice([1, 2, 3, 3, 5])
    h["reason"] = combo[0]
    h["cause_initial"] = combo[0] == "resume" or bool(h.get("cause_initial"))
    regs = [{"reason": combo[0], "limits": lim_json(first["limits"]), "initial": first.get("initial")},
            {"reason": combo[1], "limits": l2, "initial": None}]
    if combo[0] == "resume":
        regs[0].update(reason=None, initial=True)
        if rng.random() < 0.5:
            regs.reverse()      # the bound registration first: it is the one kept for the update cause
    else:
        regs[0]["initial"] = None
        first["initial"] = None
    h["stacked"] = {"id": first["id"], "causes": list(combo), "switch": rng.choice([1, 1, 2, 2, 3, 4]), "regs": regs}
    if first["script"] and rng.random() < 0.85:
        # keep the first handling open until the switch: the function fails in its first calls
        k = h["stacked"]["switch"]
        head = [[rng.choice([["temporary", rng.choice([0, Q, TPS])], ["temporary", TPS], ["arbitrary"]]), 0] for _ in range(k)]
        def relax(l: dict) -> None:
            # … and its own limits do not end the first handling before the second cause comes
            l.update(errors=rng.choice([None, "temporary"]), retries=rng.choice([None, k + 1, k + 2, 5]),
                     timeout=rng.choice([None, None, 90 * TPS, DAY]))
        loose = rng.random() < 0.75
        if h["kind"] != "sub":
            first["script"] = head + first["script"]
            if loose:
                relax(first["limits"])
                regs[0 if regs[0]["limits"] is not l2 else 1]["limits"] = lim_json(first["limits"])
        else:
            for hd in h["handlers"][1:]:
                n = rng.choice([0, k, k, k])
                hd["script"] = copy.deepcopy(head[:n]) + hd["script"]
                if loose and n:
                    relax(hd["limits"])


class ChangeWorld:
    """The object, its storage and the handlers of one closed-loop change-handler history."""

    def __init__(self, hist: dict) -> None:
        self.hist = hist
        self.fetches: list[dict] = []
        self.use_process(0)
        self.body: dict = {"apiVersion": "kopf.dev/v1", "kind": "KopfExample",
                           "metadata": {"name": "obj", "namespace": "ns", "uid": "u1", "resourceVersion": "1"},
                           "spec": {"x": 1}}
        self.resource = K.references.Resource("kopf.dev", "v1", "kopfexamples", namespaced=True)
        self.indexers = K.indexing.OperatorIndexers()
        self.scripts = {h["id"]: Script(h["script"]) for h in hist["handlers"]}
        self.events: dict[str, list[dict]] = {h["id"]: [] for h in hist["handlers"]}
        self.limits = {h["id"]: lim_json(h["limits"]) for h in hist["handlers"]}
        self.sub = hist["kind"] == "sub"
        self.implicit = bool(hist.get("implicit"))
        self.pending_sub: dict | None = None
        self.subcycles: list[dict] = []
        self.subrecs: dict[int, list] = {}
        # one function per id: stacked registrations share it (the registry de-duplicates by function & id)
        stacked = hist.get("stacked") or {}
        fns = {h["id"]: (self.parent_fn() if self.sub and h["id"] == "p" else self.scripts[h["id"]].make_fn())
               for h in hist["handlers"]}
        tops = hist["handlers"][:1] if self.sub else hist["handlers"]
        if self.sub:
            self.subs = [mk_handler("changing", h["id"], fns[h["id"]], h["limits"]) for h in hist["handlers"][1:]]
        self.top = []
        self.reg_limits: list[dict] = []       # per registration (index in self.top)
        for h in tops:
            if h["id"] == stacked.get("id"):
                for reg in stacked["regs"]:
                    self.top.append(mk_handler("changing", h["id"], fns[h["id"]], reg["limits"], initial=reg.get("initial"),
                                               reason=reg.get("reason")))
                    self.reg_limits.append(lim_json(reg["limits"]))
            else:
                self.top.append(mk_handler("changing", h["id"], fns[h["id"]], h["limits"], initial=h.get("initial")))
                self.reg_limits.append(lim_json(h["limits"]))
        self.proc = bool(hist.get("proc"))
        self.switch_cycle: int | None = None     # the first cycle of the second cause (stacked registrations)
        self.closed = False
        if self.proc:
            self.registry = K.registries.OperatorRegistry()
            for h in self.top:
                self.registry._changing.append(h)
            self.memory = None      # per operator incarnation; needs a running loop
        self.escaped: BaseException | None = None
        self.plan_i = 0
        self.over = False
        self.cycles = 0
        # the adversarial environment (change / pair only): stored versions of the body, newest last,
        # each with the number of stored writes every handler had made when it was current
        self.env_steps: list[dict] = list(hist.get("env") or [])
        self.writes = {h["id"]: 0 for h in hist["handlers"]}
        self.versions: list[tuple[dict, dict]] = [(copy.deepcopy(self.body), dict(self.writes))]
        self.kill: int | None = None

    def use_process(self, i: int) -> None:
        """The i-th operator process of the history: its configured progress storage (an upgrade or a reconfiguration
        between two processes changes where the records are written and in which order the places are read)."""
        kinds = self.hist.get("storages") or [self.hist["storage"]]
        self.storage_kind = kinds[min(i, len(kinds) - 1)]
        self.settings = mk_settings(self.hist["default_backoff"], self.storage_kind)
        self.storage = self.settings.persistence.progress_storage

    def server_side(self, after: dict) -> dict:
        """What the API server keeps of a patched object: from the cycle `status_lost_from` on, changes of the status
        stanza sent with the object's patch are not persisted (the resource got a structural schema that prunes the
        unknown field, or its status became a sub-resource) — the status keeps what it held."""
        k = self.hist.get("status_lost_from")
        if k is not None and self.cycles > k:
            after = dict(after)
            if "status" in self.body:
                after["status"] = copy.deepcopy(self.body["status"])
            else:
                after.pop("status", None)
        return after

    def note_fetch(self, t: int) -> None:
        """Correspondence of the reading rule: the real storage's fetch() of every handler's record on the event
        body against the model's `multiFetch` over the places as the harness reads them."""
        if len(READS[self.storage_kind]) < 2 or len(self.fetches) >= 8:
            return
        for hd in self.hist["handlers"]:
            places = [read_place(pl, hd["id"], self.view_body) for pl in READS[self.storage_kind]]
            if sum(p is not None for p in places) < 2 and self.fetches:
                continue
            got = self.storage.fetch(key=hd["id"], body=K.bodies.Body(self.view_body))
            entry = {"hid": hd["id"], "now": t, "places": [rec_of_stored(p) for p in places],
                     "impl": rec_of_stored(dict(got)) if got is not None else None}
            if entry not in self.fetches:
                self.fetches.append(entry)

    def reg_of(self, handler: Any) -> int:
        return next(i for i, o in enumerate(self.top) if o is handler)

    def parent_fn(self) -> Any:
        """The parent of the sub-handlers. What it does by itself is scripted as well: an own error is
        raised before the sub-handlers are touched (explicit mode) or after they have been registered
        (implicit mode: what `@kopf.subhandler` does in the function's body; kopf executes them itself when
        the function RETURNS — subhandling_context)."""
        world = self
        script = world.scripts["p"]

        async def parent(**kw: Any) -> None:
            own, _ = script.peek()
            n = script.i
            raw = script.items[n][0] if n < len(script.items) else own
            script.i += 1
            call = {"t": now_ticks(), "retry": kw["retry"], "exc": None}
            script.calls.append(call)
            pre = {h.id: len(world.scripts[h.id].calls) for h in world.subs}
            body = K.bodies.Body(world.view_body)
            st0 = K.progression.State.from_storage(body=body, storage=world.storage, handlers=world.subs)
            known = {h.id: ((world.fetch(h.id, world.view_body) or rec_of_state(st0[h.id])) if h.id in st0 else None)
                     for h in world.subs}
            world.pending_sub = {"t": call["t"], "pre": pre, "known": known, "pi": len(script.calls) - 1, "call": call}
            if world.implicit:
                registry = K.subhandling.subregistry_var.get()
                for h in world.subs:
                    registry.append(h)
            if own[0] != "ok":
                world.pending_sub["own"] = True
                call["exc"] = make_exc(raw, n)
                call["x"] = own
                call["end"] = now_ticks()
                call["dur"] = 0
                raise call["exc"]
            if world.implicit:
                return      # kopf.execute() follows in subhandling_context; cycle() completes the record
            try:
                await K.subhandling.execute(handlers=world.subs)
            except K.execution.HandlerChildrenRetry as e:
                call["exc"] = e
                call["x"] = ["children", tk(e.delay)]
                raise
            except Exception as e:
                call["exc"] = e
                call["x"] = ["arbitrary"]
                world.escaped = e
                raise
            else:
                call["x"] = ["ok"]
            finally:
                world.finish_sub()
        return parent

    def finish_sub(self, outcome: Any = None) -> None:
        """The parent's execution is over: complete its call record (implicit mode: from the outcome kopf
        made of it) and note the sub-handlers' batch, if there was one."""
        ps, self.pending_sub = self.pending_sub, None
        if ps is None:
            return
        call = ps["call"]
        batch_happened = True
        if ps.get("own"):
            # the function raised by itself: the sub-handlers must not have been executed
            batch_happened = any(len(self.scripts[h.id].calls) > ps["pre"][h.id] for h in self.subs) or \
                any(self.fetch(h.id, merge_patch(copy.deepcopy(self.view_body), dict(self.cause.patch))) != ps["known"][h.id]
                    for h in self.subs)
        elif "x" not in call:
            exc = outcome.exception if outcome is not None else None
            if isinstance(exc, K.execution.HandlerChildrenRetry):
                call["exc"], call["x"] = exc, ["children", tk(exc.delay)]
            elif exc is None:
                call["x"] = ["ok"]
            else:
                call["exc"], call["x"] = exc, ["arbitrary"]
                self.escaped = exc
        if "end" not in call or not ps.get("own"):
            call["end"] = now_ticks()
            call["dur"] = call["end"] - call["t"]
        if batch_happened:
            self.subcycles.append({"t": ps["t"], "end": call["end"], "pre": ps["pre"], "known": ps["known"], "pi": ps["pi"],
                                   "patch": copy.deepcopy(dict(self.cause.patch))})

    def fetch(self, hid: str, body: dict | None = None) -> dict | None:
        # the harness's own reading (READS), not the configured storage's
        got = own_fetch(self.storage_kind, hid, self.body if body is None else body)
        return rec_of_stored(dict(got)) if got is not None else None

    async def cycle_proc(self) -> float | None:
        """One processing cycle through the REAL `processing.process_changing_cause` (handler selection
        from a real registry incl. the resuming handlers' bookkeeping, purposes, store, purge when done).
        Returns the smallest of the delays it reports (None: it reports none — done, or nothing to do)."""
        self.cycles += 1
        if self.memory is None:
            self.memory = K.inventory.ResourceMemory()
        stacked = self.hist.get("stacked")
        reason = K.causes.Reason(self.hist.get("reason", "create"))
        if stacked and self.cycles > stacked["switch"]:
            # the second cause supersedes the first one (an object marked for deletion carries the mark)
            reason = K.causes.Reason(stacked["causes"][1])
            if self.switch_cycle is None:
                self.switch_cycle = self.cycles
            if reason == K.causes.Reason.DELETE:
                self.body["metadata"].setdefault("deletionTimestamp", "2030-01-01T00:00:00Z")
        self.view_body = self.body
        body = K.bodies.Body(self.body)
        patch = K.patches.Patch()
        self.cause = cause = K.causes.ChangingCause(
            resource=self.resource, indices=self.indexers.indices, logger=K.logger, patch=patch, body=body,
            memo=K.ephemera.Memo(), initial=bool(self.hist.get("cause_initial")), reason=reason)
        lifecycle = K.lifecycles.asap if self.hist.get("lifecycle") == "asap" else K.lifecycles.all_at_once
        t = now_ticks()
        self.note_fetch(t)
        peeks = {h.id: self.scripts[h.id].peek() for h in self.top}
        batches: list[dict] = []
        def on_batch(entry: dict) -> None:
            # the parent's execution is over (its sub-handlers' batch, if any, was stored into the patch;
            # the parent's own outcome, the purge of a finished handling are not there yet)
            if self.sub and any(h is o for h in self.top for o in entry["hobjs"]):
                self.finish_sub(entry["outcomes"].get("p"))

        try:
            with spy_batches(batches, on_batch, lambda: {hid: len(sc.calls) for hid, sc in self.scripts.items()}):
                delays = await K.processing.process_changing_cause(
                    lifecycle=lifecycle, registry=self.registry, settings=self.settings, memory=self.memory, cause=cause)
        except BusyLoop:
            raise
        except Exception as e:
            raise Escaped("process_changing_cause", e) from e
        if self.escaped is not None:
            raise Escaped("kopf.execute (sub-handlers)", self.escaped)
        after = self.server_side(merge_patch(copy.deepcopy(self.body), dict(patch)))
        zero = {h["id"]: 0 for h in self.hist["handlers"]}
        for b in batches:
            # the handler OBJECTS the code selected: of two registrations under one id only one is there
            batch = [h for h in self.top if any(h is o for o in b["hobjs"])]
            mem_after = b.get("after") or {}
            self.record_batch(batch, b["t"], b.get("merged", b["end"]), b["c0"], b["before"], peeks, b["outcomes"],
                              {h.id: bool(mem_after.get(h.id) and (mem_after[h.id]["success"] or mem_after[h.id]["failure"]))
                               for h in batch}, after, zero, True, b["awake"], mem_after)
        if self.sub:
            self.record_subcycles(after, zero, True)
        self.body = after
        delays = list(delays)
        self.closed = not delays
        return min(delays) if delays else None

    async def cycle(self) -> float | None:
        """One processing cycle as in process_changing_cause. Returns state.delay (None when done)."""
        if self.proc:
            return await self.cycle_proc()
        envstep = self.env_steps[self.cycles] if self.cycles < len(self.env_steps) else {}
        envstep = envstep or {}
        self.cycles += 1
        view, stored = int(envstep.get("view", 0)), bool(envstep.get("stored", True))
        self.kill = envstep.get("kill")
        # the event body: the current version, or (stale) an older one
        vbody, vwrites = self.versions[max(0, len(self.versions) - 1 - view)]
        self.view_body = vbody if view else self.body
        views = {hid: (self.writes[hid] - vwrites[hid]) if view else 0 for hid in self.writes}
        body = K.bodies.Body(self.view_body)
        patch = K.patches.Patch()
        reason = K.causes.Reason.CREATE
        self.cause = cause = K.causes.ChangingCause(
            resource=self.resource, indices=self.indexers.indices, logger=K.logger, patch=patch, body=body,
            memo=K.ephemera.Memo(), initial=False, reason=reason)
        t = now_ticks()
        self.note_fetch(t)
        state = K.progression.State.from_storage(body=body, storage=self.storage, handlers=self.top)
        state = state.with_purpose(reason).with_handlers(self.top)
        pre = {h.id: len(self.scripts[h.id].calls) for h in self.top}
        before = {h.id: rec_of_state(state[h.id]) for h in self.top}
        # what the record in the event body SAYS is read by the harness itself (its `started`, `delayed`, count are
        # what the oracle judges the cycle against); the code's own reading only where there is no record yet
        before = {hid: self.fetch(hid, self.view_body) or b for hid, b in before.items()}
        awake = {h.id: bool(state[h.id].awakened) for h in self.top}
        fresh = {h.id: self.fetch(h.id, self.view_body) is None for h in self.top}
        peeks = {h.id: self.scripts[h.id].peek() for h in self.top}
        lifecycle = K.lifecycles.asap if self.hist.get("lifecycle") == "asap" else K.lifecycles.all_at_once
        try:
            outcomes = await K.execution.execute_handlers_once(
                lifecycle=lifecycle, settings=self.settings, handlers=self.top, cause=cause, state=state,
                extra_context=K.subhandling.subhandling_context)
            if self.sub:
                self.finish_sub(outcomes.get("p"))
            state = state.with_outcomes(outcomes)
            merged = now_ticks()
            state.store(body=body, patch=patch, storage=self.storage)
        except Exception as e:
            raise Escaped("execute_handlers_once/with_outcomes/store", e) from e
        if self.escaped is not None:
            raise Escaped("kopf.execute (sub-handlers)", self.escaped)
        # the API server applies the merge-patch to the CURRENT object — unless the patch is lost
        after = self.server_side(merge_patch(copy.deepcopy(self.body), dict(patch)))
        self.record_batch(self.top, t, merged, pre, before, peeks, outcomes,
                          {h.id: state[h.id].finished for h in self.top}, after, views, stored, awake)
        wrote = [h.id for h in self.top if h.id in outcomes or (awake[h.id] and fresh[h.id])]
        if self.sub:
            wrote += self.record_subcycles(after, views, stored)
        if stored:
            changed = after != self.body
            self.body = after
            for hid in wrote:
                self.writes[hid] += 1
            if changed:
                self.versions.append((copy.deepcopy(self.body), dict(self.writes)))
        self.closed = bool(state.done)
        return None if state.done else state.delay

    def record_batch(self, handlers: list, t: int, merged: int, pre: dict, before: dict, peeks: dict,
                     outcomes: dict, finished: dict, after: dict, views: dict, stored: bool, awake: dict,
                     mem_after: dict | None = None) -> None:
        clock = t
        for h in handlers:
            calls = self.scripts[h.id].calls[pre[h.id]:]
            if h.id not in outcomes:
                if calls:
                    self.events[h.id].append({"ev": "called-without-outcome", "time": t})
                if awake[h.id]:
                    # awake, but the lifecycle picked another handler for this cycle
                    self.events[h.id].append({"ev": "skipped", "time": t, "view": views[h.id], "stored": stored,
                                              "reg": self.reg_of(h), "cyc": self.cycles})
                    continue
                self.events[h.id].append({"ev": "idle", "time": t, "done": bool(finished[h.id]),
                                          "view": views[h.id], "stored": stored, "seen": before[h.id],
                                          "reg": self.reg_of(h), "cyc": self.cycles})
                continue
            o = outcomes[h.id]
            call = calls[0] if calls else None
            x, dur = (call["x"], call["dur"]) if call else (peeks[h.id][0], 0)
            start = call["t"] if call else clock
            end = call["end"] if call else clock
            self.events[h.id].append({
                "ev": "attempt", "gate": t, "time": start, "started": before[h.id]["started"], "retry": before[h.id]["retries"],
                "invoked": bool(call), "calls": len(calls), "retry_kwarg": call["retry"] if call else None,
                "x": x, "dur": dur, "end": end, "merged": merged, "view": views[h.id], "stored": stored,
                "seen": before[h.id], "reg": self.reg_of(h), "cyc": self.cycles,
                "out": out_json(o, bool(call), call["exc"] if call else None),
                # what the cycle stored; when the real cycle has purged the records of a finished handling,
                # the state it was merged into in memory
                "rec": self.fetch(h.id, after) or (mem_after or {}).get(h.id)})
            clock = end

    def record_subcycles(self, after: dict, views: dict, stored: bool) -> list[str]:
        """The sub-handlers' batch happened inside the parent's call; its patch went into the same patch.
        Returns the ids of the sub-handlers whose record the batch wrote."""
        wrote: list[str] = []
        for sc in self.subcycles:
            st_merged = sc["end"]
            clock = sc["t"]
            tent = merge_patch(copy.deepcopy(self.view_body), sc["patch"])
            recs = []
            for h in self.subs:
                calls = self.scripts[h.id].calls[sc["pre"][h.id]:]
                rec_before = sc["known"][h.id]
                rec_tent = self.fetch(h.id, tent)
                changed = rec_tent is not None and rec_tent != rec_before
                recs.append(rec_tent)
                if not changed:
                    if calls:
                        self.events[h.id].append({"ev": "called-without-outcome", "time": sc["t"]})
                    done = bool(rec_before and (rec_before["success"] or rec_before["failure"]))
                    self.events[h.id].append({"ev": "idle", "time": sc["t"], "done": done, "view": views[h.id],
                                              "stored": stored, "seen": rec_before, "cyc": self.cycles})
                    continue
                wrote.append(h.id)
                rec_after = rec_tent
                call = calls[0] if calls else None
                start = call["t"] if call else clock
                end = call["end"] if call else clock
                x, dur = (call["x"], call["dur"]) if call else (["ok"], 0)
                # the outcome object is internal to kopf.execute(); reconstruct its visible part from the record
                final = bool(rec_after["success"] or rec_after["failure"])
                delay = None if rec_after["delayed"] is None else rec_after["delayed"] - st_merged
                msg = self.stored_message(h.id, tent)
                if not final or rec_after["success"]:
                    exc = "none" if rec_after["success"] else "raised"
                elif "timed out" in msg or "time out" in msg:
                    exc = "timeout"
                elif "retries" in msg:
                    exc = "retries"
                else:
                    exc = "raised"
                fresh_rec = {"started": sc["t"], "stopped": None, "delayed": None, "retries": 0, "success": False, "failure": False}
                self.events[h.id].append({
                    "ev": "attempt", "gate": sc["t"], "time": start, "started": (rec_before or rec_after)["started"],
                    "retry": rec_before["retries"] if rec_before else 0, "invoked": bool(call), "calls": len(calls),
                    "retry_kwarg": call["retry"] if call else None, "x": x, "dur": dur, "end": end, "merged": st_merged,
                    "view": views[h.id], "stored": stored, "seen": rec_before or fresh_rec,
                    "out": {"invoked": bool(call), "final": final, "delay": delay, "exc": exc}, "rec": rec_after,
                    "pi": sc["pi"], "cyc": self.cycles})
                clock = end
            self.subrecs[sc["pi"]] = recs
        self.subcycles.clear()
        return wrote

    def respell(self, spelling: str) -> None:
        """Between two operator processes: the records on the object are as somebody else spelled them (the operator
        was upgraded from a release that wrote no offsets; another tool rewrote the annotations). Same instants."""
        self.body = respell_body(self.body, spelling)
        if not self.proc and self.versions:
            self.versions[-1] = (copy.deepcopy(self.body), self.versions[-1][1])

    def stored_message(self, hid: str, body: dict | None = None) -> str:
        got = own_fetch(self.storage_kind, hid, self.body if body is None else body)
        return str((got or {}).get("message") or "")


def run_change_history(hist: dict) -> dict:
    """Run the whole history (several event loops when the plan has restarts)."""
    world = ChangeWorld(hist)
    simloop.reset_wall()
    simloop.WALL.base = sec(hist.get("t0", 0))
    restarts: list[int] = []
    state = {"restart": None}

    async def segment() -> None:
        while True:
            delay = await world.cycle()
            if world.kill is not None:
                # killed between the handler call and the patch: everything in memory is gone
                state["restart"] = int(world.kill) * Q
                world.kill = None
                if world.cycles >= 40:
                    world.over = True
                return
            if (delay is None and world.cycles >= len(world.env_steps)) or world.plan_i >= len(hist["plan"]):
                world.over = True
                return
            if delay is None:
                delay = 0.0
            step = hist["plan"][world.plan_i]
            world.plan_i += 1
            remaining = tk(delay)
            if step[0] == "exact":
                dt = remaining
            elif step[0] == "early":
                dt = max(0, remaining - step[1] * Q)
            elif step[0] == "late":
                dt = remaining + step[1] * Q
            elif step[0] == "zero":
                dt = 0
            else:
                state["restart"] = step[1] * Q
                return
            if dt:
                await asyncio.sleep(sec(dt))

    loops = []
    try:
        while not world.over:
            loop = simloop.new_loop()
            loops.append(loop)
            simloop.run_sim(segment, wall_limit=120.0, loop=loop)
            if state["restart"] is not None:
                simloop.WALL.base += sec(state["restart"])
                state["restart"] = None
                if world.proc:
                    world.memory = None
                world.use_process(len(loops))
                spellings = hist.get("respell") or []
                if spellings:
                    world.respell(spellings[(len(loops) - 1) % len(spellings)])
                t = tk(simloop.WALL.base + loop.vtime)
                for evs in world.events.values():
                    evs.append({"ev": "restarted", "time": t})
    finally:
        for loop in loops:
            loop.close()
        asyncio.set_event_loop(None)
        simloop.reset_wall()
    return {"events": world.events, "limits": world.limits, "cycles": world.cycles, "subrecs": world.subrecs,
            "calls": {k: len(s.calls) for k, s in world.scripts.items()}, "closed": world.closed,
            "reg_limits": world.reg_limits, "switch_cycle": world.switch_cycle,
            "reg_initial": [bool(h.initial) for h in world.top], "fetches": world.fetches}


@contextlib.contextmanager
def spy_batches(log: list, on_batch: Any = None, ncalls: Any = None, probe: Any = None) -> Iterator[None]:
    """Record every (state before, outcomes, state after) of the real execute_handlers_once /
    State.with_outcomes pair, for the in-memory drivers whose state is a local variable."""
    real_exec = K.execution.execute_handlers_once
    real_with = K.progression.State.with_outcomes

    async def exec_spy(*args: Any, **kw: Any) -> Any:
        st = kw["state"]
        if len(log) >= 1000 and log[-1000]["t"] == now_ticks():
            raise BusyLoop(f"1000 executions at virtual time {now_ticks()} ticks without sleeping")
        entry = {"t": now_ticks(), "before": {hid: rec_of_state(st[hid]) for hid in st},
                 "awake": {hid: bool(st[hid].awakened) for hid in st}, "c0": ncalls() if ncalls else 0}
        entry["handlers"] = [str(h.id) for h in (kw.get("handlers") or [])]
        entry["hobjs"] = list(kw.get("handlers") or [])
        if probe is not None:
            entry.update(probe())
        outcomes = await real_exec(*args, **kw)
        entry["end"] = now_ticks()
        entry["c1"] = ncalls() if ncalls else 0
        entry["outcomes"] = outcomes
        log.append(entry)
        if on_batch is not None:
            on_batch(entry)
        return outcomes

    def with_spy(self: Any, outcomes: Any) -> Any:
        new = real_with(self, outcomes)
        for entry in reversed(log):
            if "after" not in entry:
                entry["merged"] = now_ticks()
                entry["after"] = {hid: rec_of_state(new[hid]) for hid in new}
                entry["applied"] = sorted(str(k) for k in outcomes)
            break
        return new

    K.execution.execute_handlers_once = exec_spy
    K.progression.State.with_outcomes = with_spy
    try:
        yield
    finally:
        K.execution.execute_handlers_once = real_exec
        K.progression.State.with_outcomes = real_with


def run_inmem_history(hist: dict) -> dict:
    """activities.run_activity / daemons._daemon / daemons._timer with one scripted handler.
    Daemons and timers may have `initial_delay=`; a timer with `idle=` lives on an object that is
    changed at scripted moments (`touches`: what process_spawning_cause does on an essential change,
    `memory.idle_reset_time = loop.time()`), also in the middle of a retry series."""
    kind = hist["kind"]
    hd = hist["handlers"][0]
    settings = mk_settings(hist["default_backoff"])
    script = Script(hd["script"])
    batches: list[dict] = []
    result: dict[str, Any] = {}
    resource = K.references.Resource("kopf.dev", "v1", "kopfexamples", namespaced=True)
    body = K.bodies.Body({"metadata": {"name": "obj", "namespace": "ns", "uid": "u1"}, "spec": {}})
    stopper = K.stoppers.DaemonStopper()
    box: dict[str, Any] = {}

    def before(call: dict) -> None:
        # the timer never ends by itself: stop it when the script is used up
        if kind == "timer" and script.i > len(script.items):
            stopper.set(reason=K.stoppers.DaemonStoppingReason.OPERATOR_EXITING)

    fn = script.make_fn(before)

    def on_batch(entry: dict) -> None:
        # e.g. retries=0: every series is refused without a call, the script is never used up
        if kind == "timer" and len({b["t"] for b in batches}) >= 24:
            stopper.set(reason=K.stoppers.DaemonStoppingReason.OPERATOR_EXITING)

    def probe() -> dict:
        mem = box.get("memory")
        return {"idle_reset": tk(mem.idle_reset_time)} if mem is not None else {}

    async def toucher(memory: Any, t0: float) -> None:
        loop = asyncio.get_running_loop()
        for t in hist.get("touches") or []:
            await asyncio.sleep(max(0.0, t0 + sec(t) - loop.time()))
            memory.idle_reset_time = loop.time()

    async def main() -> None:
        t0 = sec(hist.get("t0", 0))
        if t0:
            await asyncio.sleep(t0)
        indexers = K.indexing.OperatorIndexers()
        with spy_batches(batches, on_batch, lambda: len(script.calls), probe):
            if kind == "activity":
                registry = K.registries.OperatorRegistry()
                handler = mk_handler("activity", hd["id"], fn, hd["limits"])
                registry._activities.append(handler)
                try:
                    await K.activities.run_activity(
                        lifecycle=K.lifecycles.all_at_once, registry=registry, settings=settings,
                        activity=K.causes.Activity.STARTUP, indices=indexers.indices, memo=K.ephemera.Memo())
                    result["raised"] = None
                except K.activities.ActivityError as e:
                    result["raised"] = "ActivityError"
                    result["final_exc"] = {hid: type(o.exception).__name__ for hid, o in e.outcomes.items()}
                except BusyLoop:
                    raise
                except Exception as e:
                    raise Escaped("run_activity", e) from e
            else:
                cause = K.causes.DaemonCause(resource=resource, indices=indexers.indices, logger=K.logger,
                                             memo=K.ephemera.Memo(), body=body, patch=K.patches.Patch(), stopper=stopper)
                touching = None
                try:
                    if kind == "daemon":
                        handler = mk_handler("daemon", hd["id"], fn, hd["limits"], initial_delay=hist.get("initial_delay"))
                        await K.daemons._daemon(settings=settings, handler=handler, cause=cause)
                    else:
                        handler = mk_handler("timer", hd["id"], fn, hd["limits"], interval=hist["interval"],
                                             sharp=hist.get("sharp"), idle=hist.get("idle"),
                                             initial_delay=hist.get("initial_delay"))
                        box["memory"] = memory = K.daemons.DaemonsMemory()
                        touching = asyncio.create_task(toucher(memory, t0))
                        await K.daemons._timer(settings=settings, handler=handler, cause=cause, memory=memory)
                except BusyLoop:
                    raise
                except Exception as e:
                    raise Escaped("_daemon/_timer", e) from e
                finally:
                    if touching is not None:
                        touching.cancel()
        result["ended"] = now_ticks()
        result["stopped"] = stopper.is_set()

    simloop.run_sim(main, wall_limit=120.0)
    # split the batches into retry series (a timer starts from scratch after a finished series)
    hid = hd["id"]
    series: list[list[dict]] = []
    cur: list[dict] = []
    ci = 0
    t0 = hist.get("t0", 0)
    for b in batches:
        ev: dict[str, Any]
        # `idle_reset_time + idle` as this iteration's idle wait found it (no idle=: the spawn time)
        iu = (b["idle_reset"] + hist["idle"]) if (kind == "timer" and hist.get("idle") is not None) else t0
        if hid not in b["outcomes"]:
            ev = {"ev": "idle", "time": b["t"], "done": bool(b["before"][hid]["success"] or b["before"][hid]["failure"]), "iu": iu}
            cur.append(ev)
            continue
        calls = script.calls[b["c0"]:b["c1"]]
        call = calls[0] if calls else None
        ci += len(calls)
        o = b["outcomes"][hid]
        ev = {"ev": "attempt", "gate": b["t"], "time": b["t"], "started": b["before"][hid]["started"], "retry": b["before"][hid]["retries"],
              "invoked": bool(call), "calls": len(calls), "retry_kwarg": call["retry"] if call else None,
              "x": call["x"] if call else ["ok"], "dur": call["dur"] if call else 0, "end": b["end"],
              "merged": b.get("merged", b["end"]), "out": out_json(o, bool(call), call["exc"] if call else None),
              "rec": b.get("after", {}).get(hid), "iu": iu}
        if cur and b["before"][hid]["retries"] == 0 and any(e["ev"] == "attempt" for e in cur):
            series.append(cur)
            cur = []
        cur.append(ev)
    if cur:
        series.append(cur)
    return {"series": series, "limits": lim_json(hd["limits"]), "result": result, "calls": len(script.calls),
            "stray_calls": len(script.calls) - ci, "rest": script.rest()}


def run_activity_multi(hist: dict) -> dict:
    """The real activities.run_activity with SEVERAL scripted handlers: every iteration of its loop is
    a batch (gate at the batch start, handlers in turn, outcomes merged after the last one)."""
    settings = mk_settings(hist["default_backoff"])
    scripts = {hd["id"]: Script(hd["script"]) for hd in hist["handlers"]}
    batches: list[dict] = []
    result: dict[str, Any] = {}

    def ncalls() -> dict:
        return {hid: len(sc.calls) for hid, sc in scripts.items()}

    async def main() -> None:
        t0 = sec(hist.get("t0", 0))
        if t0:
            await asyncio.sleep(t0)
        indexers = K.indexing.OperatorIndexers()
        registry = K.registries.OperatorRegistry()
        for hd in hist["handlers"]:
            registry._activities.append(mk_handler("activity", hd["id"], scripts[hd["id"]].make_fn(), hd["limits"]))
        with spy_batches(batches, None, ncalls):
            try:
                await K.activities.run_activity(
                    lifecycle=K.lifecycles.all_at_once, registry=registry, settings=settings,
                    activity=K.causes.Activity.STARTUP, indices=indexers.indices, memo=K.ephemera.Memo())
                result["raised"] = None
            except K.activities.ActivityError:
                result["raised"] = "ActivityError"
            except BusyLoop:
                raise
            except Exception as e:
                raise Escaped("run_activity", e) from e

    simloop.run_sim(main, wall_limit=120.0)
    events: dict[str, list[dict]] = {hd["id"]: [] for hd in hist["handlers"]}
    for b in batches:
        clock = b["t"]
        after = b.get("after") or {}
        for hd in hist["handlers"]:
            hid = hd["id"]
            calls = scripts[hid].calls[b["c0"][hid]:b["c1"][hid]]
            before = b["before"].get(hid)
            if hid not in b["outcomes"]:
                if calls:
                    events[hid].append({"ev": "called-without-outcome", "time": b["t"]})
                events[hid].append({"ev": "idle", "time": b["t"], "done": bool(before and (before["success"] or before["failure"])),
                                    "rec_before": before, "rec_after": after.get(hid, before)})
                continue
            call = calls[0] if calls else None
            start = call["t"] if call else clock
            end = call["end"] if call else clock
            o = b["outcomes"][hid]
            events[hid].append({
                "ev": "attempt", "gate": b["t"], "time": start, "started": before["started"], "retry": before["retries"],
                "invoked": bool(call), "calls": len(calls), "retry_kwarg": call["retry"] if call else None,
                "x": call["x"] if call else ["ok"], "dur": call["dur"] if call else 0, "end": end,
                "merged": b.get("merged", b["end"]), "out": out_json(o, bool(call), call["exc"] if call else None),
                "rec": after.get(hid)})
            clock = end
    return {"events": events, "limits": {hd["id"]: lim_json(hd["limits"]) for hd in hist["handlers"]}, "result": result}


def run_respawn_history(hist: dict) -> dict:
    """A timer or a daemon through the REAL `processing.process_spawning_cause` (handler selection with
    `excluded=forever_stopped`, spawn_daemons, match_daemons, pause_daemons) and `_runner`: spawned, stopped
    because its filters stop matching (`when=` turns false), spawned again when they match again, …;
    one scripted function. Whether a task is started at all is the code's decision."""
    hd = hist["handlers"][0]
    target = hist.get("target", "timer")
    settings = mk_settings(hist["default_backoff"])
    script = Script(hd["script"])
    batches: list[dict] = []
    spawns: list[int] = []
    asked: list[int] = []
    resource = K.references.Resource("kopf.dev", "v1", "kopfexamples", namespaced=True)
    body = K.bodies.Body({"metadata": {"name": "obj", "namespace": "ns", "uid": "u1"}, "spec": {}})
    flag = {"on": True}

    def matches(**_: Any) -> bool:
        return flag["on"]

    if target == "daemon":
        handler = mk_handler("daemon", hd["id"], script.make_fn(), hd["limits"], when=matches)
    else:
        handler = mk_handler("timer", hd["id"], script.make_fn(), hd["limits"], interval=hist["interval"],
                             sharp=hist.get("sharp"), when=matches)
    info: dict[str, Any] = {}

    async def main() -> None:
        t0 = sec(hist.get("t0", 0))
        if t0:
            await asyncio.sleep(t0)
        indexers = K.indexing.OperatorIndexers()
        registry = K.registries.OperatorRegistry()
        registry._spawning.append(handler)
        memory = K.inventory.ResourceMemory()
        running = memory.daemons_memory.running_daemons

        async def cycle() -> None:
            cause = K.causes.SpawningCause(resource=resource, indices=indexers.indices, logger=K.logger,
                                           memo=K.ephemera.Memo(), body=body, patch=K.patches.Patch(), reset=False)
            await K.processing.process_spawning_cause(registry=registry, settings=settings, memory=memory,
                                                      cause=cause, operator_paused=None)

        with spy_batches(batches, None, lambda: len(script.calls)):
            try:
                for task in hist["tasks"]:
                    flag["on"] = True
                    asked.append(now_ticks())
                    had = hd["id"] in running
                    await cycle()
                    if hd["id"] in running and not had:
                        spawns.append(now_ticks())
                    await asyncio.sleep(sec(task["live"]))
                    # the object stops matching the handler's filters …
                    flag["on"] = False
                    for _ in range(50):
                        await cycle()
                        if not running:
                            break
                        await asyncio.sleep(sec(Q))
                    info["left_running"] = bool(running)
                    # … and matches again after the gap
                    await asyncio.sleep(sec(task["gap"]))
                info["forever_stopped"] = hd["id"] in memory.daemons_memory.forever_stopped
                await K.daemons.stop_daemons(settings=settings, daemons=running,
                                             reason=K.stoppers.DaemonStoppingReason.OPERATOR_EXITING)
                await asyncio.sleep(sec(Q))
            except BusyLoop:
                raise
            except Exception as e:
                raise Escaped("process_spawning_cause/_runner", e) from e

    simloop.run_sim(main, wall_limit=120.0)
    hid = hd["id"]
    tasks: list[list[dict]] = [[] for _ in spawns]
    ci = 0
    for b in batches:
        k = max(i for i, t in enumerate(spawns) if t <= b["t"])
        if hid not in b["outcomes"]:
            before = b["before"][hid]
            tasks[k].append({"ev": "idle", "time": b["t"], "done": bool(before["success"] or before["failure"]), "iu": spawns[k]})
            continue
        calls = script.calls[b["c0"]:b["c1"]]
        call = calls[0] if calls else None
        ci += len(calls)
        o = b["outcomes"][hid]
        tasks[k].append({"ev": "attempt", "gate": b["t"], "time": b["t"], "started": b["before"][hid]["started"],
                         "retry": b["before"][hid]["retries"], "invoked": bool(call), "calls": len(calls),
                         "retry_kwarg": call["retry"] if call else None, "x": call["x"] if call else ["ok"],
                         "dur": call["dur"] if call else 0, "end": b["end"], "merged": b.get("merged", b["end"]),
                         "seen": b["before"][hid], "out": out_json(o, bool(call), call["exc"] if call else None),
                         "rec": b.get("after", {}).get(hid), "iu": spawns[k]})
    return {"tasks": tasks, "spawns": spawns, "asked": asked, "limits": lim_json(hd["limits"]), "info": info,
            "stray_calls": len(script.calls) - ci}


def abs_steps(events: list[dict]) -> list:
    steps = []
    for e in events:
        if e["ev"] == "attempt":
            steps.append(["cycle_at", e["gate"], e["time"] - e["gate"], e["x"], e["dur"], e["merged"] - e["end"],
                          e.get("view", 0), e.get("stored", True)])
        elif e["ev"] == "idle":
            steps.append(["cycle_at", e["time"], 0, ["ok"], 0, 0, e.get("view", 0), e.get("stored", True)])
        elif e["ev"] == "restarted":
            steps.append(["restart_at", e["time"]])
        elif e["ev"] == "skipped":
            steps.append(["skipped_at", e["time"], e.get("view", 0), e.get("stored", True)])
    return steps


def impl_events(events: list[dict]) -> list:
    out = []
    for e in events:
        if e["ev"] == "attempt":
            out.append({"ev": "attempt", "time": e["time"], "retry": e["retry"], "out": e["out"], "end": e["end"],
                        "merged": e["merged"], "rec": e["rec"]})
        else:
            out.append({k: v for k, v in e.items() if k not in ("pi", "view", "stored", "rec_before", "rec_after", "seen", "iu", "reg", "cyc")})
    return out


def history_checks(hist: dict) -> list[dict]:
    """Run one history on the real code. Returns one check per handler (series):
    {hid, limits, events, request (for the driver), impl (what the model must print), oracle: [(shape, msg)]}."""
    kind = hist["kind"]
    db = hist["default_backoff"]
    env = env_json("temporary", db)
    checks = []
    try:
        with process_zone(hist.get("zone")):
            return _history_checks(hist, kind, db, env)
    except Escaped as e:
        return [{"hid": "*", "limits": {}, "events": [], "request": None, "impl": None,
                 "oracle": [("escaped-exception", f"a handler error escaped instead of becoming an outcome: {e}")]}]
    except BusyLoop as e:
        return [{"hid": "*", "limits": {}, "events": [], "request": None, "impl": None,
                 "oracle": [("busy-loop", f"the retry loop does not wait for the delay, it spins: {e}")]}]


def _history_checks(hist: dict, kind: str, db: int, env: dict) -> list[dict]:
    checks = []
    multi = kind == "activity" and len(hist["handlers"]) > 1
    if kind in ("change", "pair", "sub") or multi:
        obs = run_activity_multi(hist) if multi else run_change_history(hist)
        # without stale/lost/kill steps nothing but the code itself can show a handler a record that does not
        # continue its last attempt: no excuse then
        excuse = F2_SHAPE if hist.get("env") else ""
        for hid, events in obs["events"].items():
            for label, l, evs_part, oracle_parts, last_part in registration_parts(hist, obs, hid, events, excuse):
                first = next((e for e in evs_part if e["ev"] in ("attempt", "idle", "skipped")), None)
                if first is None:
                    continue
                bad: list[tuple[str, str]] = []
                for part, shape in oracle_parts:
                    if any(e["ev"] in ("attempt", "idle", "skipped") for e in part):
                        bad += oracle_sequence(l, "temporary", db, part, broken_shape=shape)
                bad += [("called-without-outcome", "function called but no outcome") for e in evs_part if e["ev"] == "called-without-outcome"]
                bad += [("called-twice", "function called twice in one execution") for e in evs_part if e.get("calls", 0) > 1]
                bad += [("retry-kwarg", "retry kwarg differs from the stored count") for e in evs_part
                        if e["ev"] == "attempt" and e["invoked"] and e["retry_kwarg"] != e["retry"]]
                atts_h = [e for e in evs_part if e["ev"] == "attempt"]
                # (a sub-handler is abandoned when its PARENT fails for good: the parent's verdict, checked on the parent;
                # a handler that is not declared for the cause that superseded its own — the other registration of a
                # stacked pair, a resuming handler on a deletion — is not retried: that is the supersession)
                superseded = obs.get("switch_cycle") is not None and not any(
                    e["ev"] in ("attempt", "idle", "skipped") and e.get("cyc", 0) >= obs["switch_cycle"] for e in evs_part)
                if not multi and "/" not in hid and last_part and not superseded and obs.get("closed") and not hist.get("env") and atts_h \
                        and atts_h[-1]["rec"] is not None and not (atts_h[-1]["rec"]["success"] or atts_h[-1]["rec"]["failure"]):
                    # "is retried": the handling was declared finished (nothing left to wait for; the real
                    # cycle purges the progress then) while this handler's last outcome asked for a retry
                    bad.append(("retry-abandoned", f"the processing ended as done at cycle {obs['cycles']} although the last "
                                f"outcome of the handler (at {atts_h[-1]['end']}, retry={atts_h[-1]['retry']}) was a retry: "
                                "it is never retried"))
                evs = [e for e in evs_part if e["ev"] != "called-without-outcome"]
                evs = evs[next(i for i, e in enumerate(evs) if e is first):]     # restarts before the handler's first cycle
                t0 = first["gate"] if first["ev"] == "attempt" else first["time"]
                chk = {"hid": label, "limits": l, "events": evs,
                       "request": ["C11.runAbs", env, l, t0, abs_steps(evs)], "impl": impl_events(evs), "oracle": bad}
                want = (hist.get("expect") or {}).get(label)
                if want is not None:
                    # a Lean witness replayed on the real code: it must show exactly what the theorem says
                    got = {"invocations": [[e["time"] - t0, e["retry"]] for e in evs if e["ev"] == "attempt" and e["invoked"]],
                           "idle": [[e["time"] - t0, e["done"]] for e in evs if e["ev"] == "idle"]}
                    got = {k: (got[k][:len(want[k])] if k == "idle" else got[k]) for k in want}
                    if got != want:
                        chk["tie"] = f"the witness {hist.get('witness')} does not reproduce on the code: expected {want}, observed {got}"
                checks.append(chk)
        if kind == "sub":
            checks += sub_parent_checks(hist, obs)
        for f in obs.get("fetches") or []:
            checks.append({"hid": f"{f['hid']}#fetch", "limits": {}, "events": [], "oracle": [],
                           "request": ["C11.fetch", f["places"], f["now"]], "impl": f["impl"]})
        if multi:
            failed = any(evs and evs[-1].get("rec") and evs[-1]["rec"]["failure"] for evs in
                         ([e for e in es if e["ev"] == "attempt"] for es in obs["events"].values()))
            if failed != (obs["result"].get("raised") == "ActivityError"):
                checks.append({"hid": "verdict", "limits": {}, "events": [], "request": None, "impl": None,
                               "oracle": [("activity-verdict", "ActivityError raised iff a handler failed for good — violated")]})
    elif kind == "respawn":
        obs = run_respawn_history(hist)
        l = obs["limits"]
        target = hist.get("target", "timer")
        life = [e for task in obs["tasks"] for e in task]
        bad: list[tuple[str, str]] = []
        failed_at = None
        for task in obs["tasks"]:
            atts = [e for e in task if e["ev"] == "attempt"]
            inv = [e for e in atts if e["invoked"]]
            if failed_at is not None and inv:
                shape = F4_SHAPE if target == "timer" else "failed-daemon-respawned"
                bad.append((shape, f"the {target} was recorded as failed for good at {failed_at}; after a filter mismatch and "
                            f"re-match it was spawned again and its function invoked at {inv[0]['time']} with "
                            f"retry={inv[0]['retry_kwarg']}"))
                break
            # inside one task everything the property says about the handler's life
            series: list[list[dict]] = []
            for e in task:
                if e["ev"] == "attempt" and e["retry"] == 0 and (not series or any(x["ev"] == "attempt" for x in series[-1])):
                    series.append([])
                if not series:
                    series.append([])
                series[-1].append(e)
            for sv in series:
                bad += oracle_sequence(l, "temporary", db, sv)
                sa = [e for e in sv if e["ev"] == "attempt"]
                if sa:
                    bad += oracle_series_clock(target, sa)
            bad += oracle_timer_life(l, series)
            if failed_at is None and atts and atts[-1].get("rec") and atts[-1]["rec"]["failure"]:
                failed_at = atts[-1]["merged"]
        if target == "timer":
            tasks_req = [[obs["spawns"][k], [([e["x"], e["dur"]] if e["ev"] == "attempt" else [["ok"], 0]) + [e["iu"]] for e in task]]
                         for k, task in enumerate(obs["tasks"])]
            request = ["C11.respawn", env, l, hist["interval"], bool(hist.get("sharp")), tasks_req]
        else:
            tasks_req = [[obs["spawns"][k], [[e["x"], e["dur"]] for e in task if e["ev"] == "attempt"]]
                         for k, task in enumerate(obs["tasks"])]
            request = ["C11.daemonRespawn", env, l, tasks_req]
            life = [e for e in life if e["ev"] == "attempt"]
        checks.append({"hid": f"{hist['handlers'][0]['id']}#respawn", "limits": l, "events": [],
                       "request": request, "impl": impl_events(life), "oracle": bad})
        if obs["stray_calls"]:
            checks.append({"hid": "stray", "limits": l, "events": [], "request": None, "impl": None,
                           "oracle": [("call-outside-execution", "the function was called outside a recorded execution")]})
    else:
        obs = run_inmem_history(hist)
        l = obs["limits"]
        t0, idelay = hist.get("t0", 0), hist.get("initial_delay") or 0
        for si, events in enumerate(obs["series"]):
            if kind == "timer":
                # a timer whose series failed for good keeps sleeping its interval and finds nothing
                # awakened: those executions are expected (their schedule is C10's subject)
                kept, failed = [], False
                for e in events:
                    if e["ev"] == "attempt":
                        failed = bool(e["rec"] and e["rec"]["failure"])
                    if not (e["ev"] == "idle" and e["done"] and failed):
                        kept.append(e)
                events = kept
            atts = [e for e in events if e["ev"] == "attempt"]
            bad = oracle_sequence(l, "temporary", db, events)
            bad += [("called-twice", "function called twice in one execution") for e in atts if e["calls"] > 1]
            if not atts:
                continue
            bad += oracle_series_clock(kind, atts)
            last_series = si == len(obs["series"]) - 1
            if last_series and not obs["result"].get("stopped") and atts[-1]["rec"] and \
                    not (atts[-1]["rec"]["success"] or atts[-1]["rec"]["failure"]):
                bad.append(("retry-abandoned", f"the {kind}'s loop ended on its own at {obs['result'].get('ended')} although the "
                            f"last outcome of its handler (at {atts[-1]['end']}) was a retry: the handler is never retried"))
            # the model gets what the function did AND what it would still do: a loop that gives up
            # before the record is finished makes fewer attempts than the model
            script = [[e["x"], e["dur"]] for e in atts]
            whole = script + (obs["rest"] if (last_series and not obs["result"].get("stopped")) else [])
            if kind == "timer":
                # with idle= the wait for idleness may stand between two attempts of a series: the life check below
                request = ["C11.loop", env, l, atts[0]["gate"], script] if hist.get("idle") is None else None
            elif kind == "daemon":
                request = ["C11.daemon", env, l, t0, idelay, whole]
            else:
                request = ["C11.loop", env, l, t0, whole]
            checks.append({"hid": f"{hist['handlers'][0]['id']}#{si}", "limits": l, "events": events,
                           "request": request,
                           # the model's loop has no idle executions: an observed one is a divergence
                           "impl": impl_events(events), "oracle": bad})
        if kind == "timer":
            life = [e for series in obs["series"] for e in series]
            if life:
                script = [([e["x"], e["dur"]] if e["ev"] == "attempt" else [["ok"], 0]) + [e["iu"]] for e in life]
                checks.append({"hid": f"{hist['handlers'][0]['id']}#life", "limits": l, "events": [],
                               "request": ["C11.timer", env, l, hist["interval"], bool(hist.get("sharp")), t0, idelay, script],
                               "impl": impl_events(life), "oracle": oracle_timer_life(l, obs["series"])})
        if obs["stray_calls"]:
            checks.append({"hid": "stray", "limits": l, "events": [], "request": None, "impl": None,
                           "oracle": [("call-outside-execution", "the function was called outside a recorded execution")]})
        if kind == "activity":
            # the activity's verdict must agree with the last record
            last = obs["series"][-1][-1] if obs["series"] else None
            failed = bool(last and last.get("rec") and last["rec"]["failure"])
            if failed != (obs["result"].get("raised") == "ActivityError"):
                checks.append({"hid": "verdict", "limits": l, "events": [], "request": None, "impl": None,
                               "oracle": [("activity-verdict", "ActivityError raised iff the handler failed for good — violated")]})
    return checks


def registration_parts(hist: dict, obs: dict, hid: str, events: list[dict], excuse: str) -> list[tuple]:
    """'With retries=N a HANDLER is invoked at most N times': a handler is one registration — one decorator
    with its own limits, bound to its reason — within the handling of one cause. The events observed
    under one id are split into the series of the registrations the code selected (by the handler OBJECT
    it executed). Returns [(label, limits, events for the model, [(events for the oracle, shape under which
    a whole-history failure on a record that does not continue the series is reported)], is the last)].
    * a top-level id with stacked registrations: one part per run of one registration; the model starts
      every part from scratch (f7d6401), the oracle has no excuse for a first turn on a foreign record;
    * the sub-handlers of a stacked parent: the code (subhandling.execute) carries their records over to
      the parent's second registration — ONE series for the model (what the code does), two for the
      oracle (what the property says), the second one's failures under the finding C11-F6;
    * everything else: one part."""
    st = hist.get("stacked")
    if not st or "reg_limits" not in obs:
        return [(hid, obs["limits"][hid], events, [(events, excuse)], True)]
    if "/" not in hid:
        runs: list[tuple[int, list[dict]]] = []
        for e in events:
            if "reg" in e and (not runs or runs[-1][0] != e["reg"]):
                runs.append((e["reg"], []))
            if runs:
                runs[-1][1].append(e)
        # a RESUMING handler (initial=True) is for "the operator has started and the object is there": one
        # handling per operator process. Once it is finished, a new operator (a restart) may run it again
        # (whether it does depends on whether the finished record is still on the object: C02/C03's subject):
        # where the code did so, a new series begins. Without a restart in between there is no such excuse.
        runs2: list[tuple[int, list[dict]]] = []
        for reg, evs in runs:
            runs2.append((reg, []))
            fin, restarted = False, False
            for e in evs:
                if e["ev"] == "restarted":
                    restarted = True
                elif e["ev"] in ("attempt", "skipped") and obs["reg_initial"][reg] and fin and restarted and \
                        (e["ev"] == "skipped" or continues(None, e)):
                    tail = []
                    while runs2[-1][1] and runs2[-1][1][-1]["ev"] == "restarted":
                        tail.insert(0, runs2[-1][1].pop())
                    runs2.append((reg, tail))
                    fin = False
                if e["ev"] == "attempt":
                    fin, restarted = bool(e["out"]["final"]), False
                runs2[-1][1].append(e)
        out = []
        for k, (reg, evs) in enumerate(runs2):
            label = hid if k == 0 else f"{hid}@{k}"
            out.append((label, obs["reg_limits"][reg], evs, [(evs, excuse)], k == len(runs2) - 1))
        return out
    if "/" in hid and hid.split("/")[0] == st["id"]:
        c_switch = obs.get("switch_cycle")
        if c_switch is not None:
            one = [e for e in events if e.get("cyc", 0) < c_switch]
            two = [e for e in events if e.get("cyc", 0) >= c_switch]
            return [(hid, obs["limits"][hid], events, [(one, excuse), (two, F6_SHAPE)], True)]
    return [(hid, obs["limits"][hid], events, [(events, excuse)], True)]


def sub_parent_checks(hist: dict, obs: dict) -> list[dict]:
    """The delay a parent asks for must be the earliest `delayed` of its unfinished sub-handlers
    (property: never sooner than the requested delay — here the request comes from the children)."""
    out = []
    evp = obs["events"]["p"]
    subs = [h["id"] for h in hist["handlers"][1:]]
    pi = -1
    for e in evp:
        if e["ev"] != "attempt" or not e["invoked"]:
            continue
        pi += 1
        # the sub-handlers' records as kopf.execute() had them right after its batch in this call
        recs = (obs.get("subrecs") or {}).get(pi)
        if recs is None:
            continue
        if e["x"][0] not in ("ok", "children"):
            # the parent failed by itself, and yet its sub-handlers were executed in that call
            out.append({"hid": "p", "limits": {}, "events": [], "request": None, "impl": None,
                        "oracle": [("children-executed-under-failed-parent", f"the parent raised {e['x']} by itself at {e['time']}, "
                                    "its sub-handlers were executed nevertheless")]})
            continue
        if all(r is not None for r in recs):
            out.append({"hid": "p#children", "limits": {}, "events": [], "oracle": [],
                        "request": ["C11.children", recs, e["end"]], "impl": e["x"]})
        pending = [r for r in recs if r is None or not (r["success"] or r["failure"])]
        if e["x"][0] == "ok":
            if pending:
                out.append({"hid": "p", "limits": {}, "events": [], "request": None, "impl": None,
                            "oracle": [("parent-done-with-pending-children", "parent succeeded while sub-handlers are pending")]})
        else:
            want = min((max(0, r["delayed"] - e["end"]) if r and r["delayed"] is not None else 0) for r in pending) if pending else None
            if want is None or e["x"][1] != want:
                out.append({"hid": "p", "limits": {}, "events": [], "request": None, "impl": None,
                            "oracle": [("parent-delay-not-childrens", f"parent asked for {e['x'][1]}, children need {want}")]})
    return out


def history_key(hist: dict, chk: dict) -> str:
    l = chk["limits"]
    shape = []
    for e in chk["events"]:
        if e["ev"] == "attempt":
            shape.append([e["x"][0], e["out"]["invoked"], e["out"]["final"], e["out"]["exc"]])
        else:
            shape.append(e["ev"])
    return leanio.canon([hist["kind"], l.get("errors"), l.get("timeout") is None, l.get("retries"), l.get("backoff") is None, shape,
                         bool(hist.get("zone")), bool(hist.get("respell"))])


def run_histories(ctx: Ctx, hists: list[dict], use_model: bool = True) -> None:
    reqs, impls, inputs = [], [], []
    for hist in hists:
        try:
            checks = history_checks(hist)
        except NonDyadic as e:
            ctx.tie_fail(f"harness: non-dyadic time in a history: {e}", {"part": "history", "hist": hist})
            continue
        ctx.count("history.kind", hist["kind"])
        ctx.count("history.flavour", hist.get("flavour", "corpus"))
        ctx.count("history.zone", hist.get("zone") or "as the machine is (UTC)")
        if "plan" in hist:
            ctx.count("history.records_at_restart", "respelled: " + ",".join(hist["respell"]) if hist.get("respell") else "as kopf wrote them")
        if "plan" in hist:
            ctx.count("history.progress_storage", " -> ".join(hist.get("storages") or [hist["storage"]]) +
                      (f", status writes lost from cycle {hist['status_lost_from']}" if hist.get("status_lost_from") is not None else ""))
        ctx.count("history.lifecycle", hist.get("lifecycle", "all_at_once") if hist["kind"] in ("change", "pair", "sub") else "n/a")
        if hist["kind"] in ("change", "pair", "sub"):
            st = hist.get("stacked")
            ctx.count("history.cycle", ("real process_changing_cause" if hist.get("proc") else "re-implemented") +
                      (", stacked " + "+".join(st["causes"]) if st else ""))
            if st:
                ctx.count("history.stacked", "the second cause came" if any("@" in c["hid"] for c in checks) or
                          (hist["kind"] == "sub" and any(c["hid"].startswith("p@") for c in checks)) else
                          ("mix-in kept / first handling ended before the switch"))
        for chk in checks:
            atts = [e for e in chk["events"] if e["ev"] == "attempt"]
            nontrivial = any((not e["out"]["final"]) or e["out"]["exc"] != "none" for e in atts) or \
                any(e["ev"] != "attempt" for e in chk["events"])
            ctx.case(key=history_key(hist, chk), nontrivial=nontrivial,
                     sample={"history": hist, "handler": chk["hid"], "events": chk["impl"]} if ctx.traces % 97 == 0 else None)
            ctx.traces += 1
            ctx.count("history.attempts", len(atts))
            ctx.count("history.invocations", len([e for e in atts if e["invoked"]]))
            ctx.count("history.restarts", len([e for e in chk["events"] if e["ev"] == "restarted"]))
            ctx.count("history.idle_cycles", len([e for e in chk["events"] if e["ev"] == "idle"]))
            ctx.count("history.env", "stale=%d lost=%d" % (
                len([e for e in chk["events"] if e.get("view", 0)]), len([e for e in chk["events"] if not e.get("stored", True)])))
            for e in atts:
                ctx.count("history.branch", f"{e['x'][0] if e['invoked'] else 'refused'}→final={e['out']['final']} exc={e['out']['exc']}")
            seen = set()
            for shape, msg in chk["oracle"]:
                if shape in seen:
                    continue
                seen.add(shape)
                amb = (f", process TZ={hist['zone']}" if hist.get("zone") else "") + \
                      (f", stored timestamps respelled at restarts: {'/'.join(hist['respell'])}" if hist.get("respell") else "")
                ctx.oracle_fail(f"history ({hist['kind']}, handler {chk['hid']}{amb}): {msg}",
                                {"part": "history", "hist": hist, "handler": chk["hid"], "events": chk["impl"]},
                                signature(shape, hist["kind"]))
            if chk.get("tie"):
                ctx.tie_fail(chk["tie"], {"part": "history", "hist": hist, "handler": chk["hid"]})
            if chk["request"] is not None:
                reqs.append(chk["request"])
                impls.append(chk["impl"])
                inputs.append({"part": "history", "hist": hist, "handler": chk["hid"]})
    if not use_model or not reqs:
        return
    outs = ctx.driver.ask(reqs)
    for inp, impl, out in zip(inputs, impls, outs):
        model = out[1] if out and out[0] == "ok" else out
        ctx.compare("C11 attempt sequence", impl, model, inp)


# =================================================================================================
# entry points
# =================================================================================================

def run_case(ctx: Ctx, case: dict, use_model: bool = True) -> None:
    if case.get("part") == "grid":
        simloop.run_sim(lambda: run_grid(ctx, [case["point"]], use_model), wall_limit=120.0)
    elif case.get("part") == "history":
        run_histories(ctx, [case["hist"]], use_model)
    else:
        raise ValueError(f"unknown case {str(case)[:200]}")


def run(ctx: Ctx) -> None:
    from ..core import load_corpus
    K.load()
    corpus = load_corpus(ID)
    for name, case in corpus:
        ctx.count("corpus", name)
    cpoints = [c["point"] for _, c in corpus if c.get("part") == "grid"]
    chists = [c["hist"] for _, c in corpus if c.get("part") == "history"]
    if cpoints:
        simloop.run_sim(lambda: run_grid(ctx, cpoints), wall_limit=120.0)
    if chists:
        run_histories(ctx, chists)
    points = list(grid_points())
    total = len(points)
    n = ctx.budget(6000, total)
    if n < total:
        points = ctx.rng.sample(points, n)
    dpoints = list(day_points()) + list(legacy_points())   # long ages / day boundaries / fractional timeouts; foreign spellings: always all
    points = dpoints + points
    total += len(dpoints)
    simloop.run_sim(lambda: run_grid(ctx, points), wall_limit=600.0)
    ctx.extra["grid_total_points"] = total
    ctx.extra["grid_points_run"] = len(points)
    ctx.extra["grid_day_points"] = len(dpoints)
    ctx.exhaustive = (len(points) == total)
    ctx.extra["exhaustive_scope"] = "the grid (D) only; the attempt sequences (S) are sampled"
    hists = [gen_history(ctx.rng) for _ in range(ctx.budget(1000, 40000))]
    run_histories(ctx, hists)
    ctx.extra["histories"] = len(hists)


def search(ctx: Ctx, broken: list) -> None:
    """A proof or the correspondence is broken: look for an input on which the property itself
    fails on the real code (oracle only, the whole grid, ten times the histories, biased to the
    handlers/limits of the diverging inputs)."""
    K.load()
    simloop.run_sim(lambda: run_grid(ctx, list(day_points()) + list(legacy_points()) + list(grid_points()), use_model=False), wall_limit=900.0)
    seeds = []
    for b in broken:
        inp = (b.replay or {}).get("input") if isinstance(b.replay, dict) else None
        if isinstance(inp, dict) and inp.get("part") == "history":
            seeds.append(inp["hist"])
    rng = random.Random(f"C11-search-{ctx.seed}")
    hists = []
    for s in seeds[:20]:
        for _ in range(20):
            h = copy.deepcopy(s)
            if "plan" in h:
                h["plan"] = gen_plan(rng)
            for hd in h["handlers"]:
                if rng.random() < 0.5 and hd["id"] != "p":
                    hd["script"] = gen_script(rng, h["kind"] in ("change", "pair"))
            hists.append(h)
    hists += [gen_history(rng) for _ in range(ctx.budget(2500, 20000))]
    run_histories(ctx, hists, use_model=False)


def replay(ctx: Ctx, data: dict) -> None:
    K.load()
    case = data.get("replay", data)
    if isinstance(case, dict) and "input" in case and "part" not in case:
        case = case["input"]
    run_case(ctx, case, use_model=True)
