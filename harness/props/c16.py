"""C16 — persistence storages round-trip, isolate and produce valid annotation names.

Tie (D): scenarios (storage configuration x handler id x record x body) are pushed through the REAL
storages (built with the real constructors) and through the Lean model's driver ops
(`C16.keys/store/fetch/purge/touch/clear/dstore/dfetch`); keys, patches, fetched values and error
kinds are compared canonically.  The blake2b suffixes are taken from the real `make_suffix` and sent
with every request (the model takes the hash as a parameter).

Oracle (independent of the Lean model, written from the property statement): Kubernetes
qualified-name validity of every generated annotation name, round-trip equality after an
independent RFC 7386 merge, complete purge, untouched foreign data (user annotations, other
prefixes, other handlers, spec/labels/status), determinism (fresh storage object, fresh process with
another hash seed, golden names), distinctness of names for distinct long ids sharing a prefix
(birthday search over the real 32-bit digest).
"""
from __future__ import annotations

import asyncio
import base64
import copy
import hashlib
import json
import os
import re
import subprocess
import sys
import warnings
from typing import Any, Iterable

from .. import leanio
from ..core import Ctx, CORPUS

ID = "C16"
LEVEL = "proof"
STRENGTH = "partial"   # distinct names and id-level isolation are proved only under named guards (open findings F6b, F6d, F6e, F6g); valid names are FULL since kopf c2cffd8
ENGINES = ["lean-model", "purediff"]
LEVEL_TEXT = (
    "PARTIAL: two clauses of the property are false of the code and are proved only under exact guards. "
    "Lean theorems for ALL handler ids / records / bodies / accumulated patches about an executable model of key forming "
    "(safe key, v1/v2 cut, v1_fits, make_edged_name of kopf c2cffd8, hash suffix as a parameter, ReplicaSet-of-Deployment marking) and of "
    "store/fetch/purge/touch/clear of the annotations and status storages, of arbitrary Multi storage TREES (proved equal to their flattening) "
    "and of the diff-base storages over RFC 7386 merge-patches. UNGUARDED (modulo None-valued record keys, which the code drops, a writing "
    "head leaf, and the covering hypothesis of the status storage = status_cover_witness): round trip (roundtrip_ann/_status/_status_fresh/"
    "_smart/_diffbase/_diffbase_status/_multi/_multi_apart/_multi_status_head/_dmulti/_dmulti_status_head), complete purge "
    "(purge_complete_ann/_status/_smart/_multi), path-level isolation of store/purge/touch/diff-base store (isolation_*), user data and "
    "other prefixes (foreign_annotation_untouched, other_prefix_untouched), clear of the annotations storage; since kopf 571b1b2 (C04-F13: a status field "
    "hidden behind a non-mapping value of the object — status: 'a string', status.kopf: 7 — is an absent field, not a TypeError) clear of ANY storage tree on ANY "
    "essence whose metadata / metadata.annotations are mappings where present, whatever status and spec hold: clear_never_raises (no tree's clear raises), "
    "clear_leaves_nothing_own (afterwards no leaf's annotation, progress field or touch field is found in the essence: the framework's own writes never reach the diff, "
    "hidden or not), clear_removes_own_status, clear_hidden_untouched / clear_hidden_each_on_its_own (hidden: nothing is removed, each of the two removals skipped on its "
    "own), hidden_iff_typeError (hiddenAt = dicts.remove raises TypeError), status_hidden_is_absent (fetch reads nothing and raises nothing, purge and touch decide as on an "
    "object without a status: a hidden field is an absent field for EVERY operation of the status storage), roundtrip_status_hidden (a record stored on such an object is read back "
    "from the patched object), clear_hidden_regression (the variant before the repair, statusClearStrict, raises on status: "
    "'a string'); name stability "
    "(names_depend_on_kind_and_owners, names_stable), and — FULL since kopf c2cffd8 — VALID NAMES: valid_name_v2 / valid_name_v1 / "
    "valid_names / valid_names_real for EVERY id over the property's alphabet plus ':' (any length, any first/last character, the empty id, "
    "marked or not), every valid prefix, both v1 settings; the only hypotheses are the alphabet (charset_witness: needed) and the shape of the "
    "digest suffix at the at most three strings hashed (GoodSfx / RealSfx = '-' + 6 name characters ending alphanumeric; sfx_witness: needed; "
    "checked by the harness on every suffix the real make_suffix returns). Names that were valid before c2cffd8 do not move: "
    "edged_id_of_valid, names_unchanged_of_valid (make_keys = the pre-fix make_keys whenever the old names were valid), changed_only_invalid; "
    "edge_regression = the fixed F6. GUARDED (_partial; full statement in a comment; each guard has a witness that is an OPEN finding "
    "replayed from the corpus): distinct names — distinct_partial (long ids), distinct_short_partial (ids taken verbatim), "
    "distinct_reformed_partial (all re-formed ids: long or re-edged) under 'digests differ' (F6b = collision_witness) resp. 'safe forms differ' "
    "(F6d = safe_form_witness, safe_form_long_v1_witness); forged_exact: a verbatim id shares the name of another id IFF it spells that id's "
    "generated name (exactly F6e = forged_witness / forged_v1_witness / forged_edged_witness); 'never disturbs other handlers' at id level — "
    "isolation_ids_short_partial / _reformed_partial / _v1_hashed_partial within one kind of names (both verbatim / both re-formed / both "
    "verbatim with hashed V1 names), off the storages' own names (F6g = marker_witness, reserved_touch_witness, reserved_diffbase_witness; "
    "name-level: touch_leaves_records, dstore_leaves_records). SEQUENCES (several handlers' operations accumulated in one patch, the way a cycle uses "
    "the storages): the isolation theorems hold for ANY accumulated patch and so compose; spelled out as pending_store_survives_purge "
    "(annotations: a pending record is read back although another handler is purged in the same patch), status_record_survives_other_purge / "
    "_other_store (status storage, at the level of fetch: a purge that withdraws a pending record leaves the others alone); THE RECORD STORED LAST IS THE RECORD READ, "
    "whatever the object carries (the very record that is stored, for instance) and whatever the cycle put into the patch before — last_store_wins_ann / last_purge_wins_ann: after ANY "
    "sequence of stores and purges of any handlers (the handler itself included) and of touches in one patch (runAnnOps), the annotations storage reads the record stored last / nothing "
    "after a purge that comes last; restore_after_purge_ann, restore_after_store_ann = the two shortest instances; store_skip_unchanged_witness: the variant of store() that does not "
    "re-send an annotation the object already holds (annStoreSkipUnchanged = seeded change C16f) loses the record after a purge in the same patch and reads the OTHER record after a store "
    "in the same patch. ORACLE/TIE ONLY (no theorem): 'identical across restarts' (fresh object, "
    "fresh interpreter with another hash seed, golden names incl. re-edged ones), unicode/JSON codec, that clear keeps everything that is "
    "NOT the storages' own (annotation level: clear_keeps_foreign; other stanzas: tie + oracle, modulo the empty stanzas the cleaners drop), Multi / Smart compositions and the "
    "diff-base storages on objects with hidden status fields (status leaf: theorems above; the rest: generated ten ways, compared with the model and "
    "JUDGED by the oracle: no operation raises, round trip, purge, nothing foreign changes but the value in the way once a store has to write through it), DiffBaseStorage.build "
    "(C04's subject; here: it does not raise on such objects and drops the storage's own field), the mapping from constructor arguments / assigned fields to where the records live (the oracle "
    "computes it from the documented signature and judges against it, not against the attributes the storage object shows). Repaired F6/F6c/F6f/F6i are regression theorems/examples and corpus cases that must pass. "
    "The model is tied to the real storages by a differential run on every check (scenarios + a dedicated run of make_v1_key/make_v2_key/"
    "make_keys/make_edged_name on edge-heavy ids); an independent Python oracle (strict: ids without a record read None, touch and "
    "diff-base store change no record, every generated name matches Kubernetes' qualified-name grammar) decides violations."
)
TIE = ("D: real storages (real constructors) vs. Lean driver on generated scenarios, plus real make_v1_key/make_v2_key/make_keys/make_edged_name "
       "vs. the model on edge-heavy ids; hash suffixes passed in from the real make_suffix (shape checked on every call)")
THEOREMS = [
    ("Kopf.Props.C16", "Kopf.C16.roundtrip_ann"),
    ("Kopf.Props.C16", "Kopf.C16.roundtrip_status"),
    ("Kopf.Props.C16", "Kopf.C16.roundtrip_status_fresh"),
    ("Kopf.Props.C16", "Kopf.C16.roundtrip_smart"),
    ("Kopf.Props.C16", "Kopf.C16.roundtrip_diffbase"),
    ("Kopf.Props.C16", "Kopf.C16.roundtrip_diffbase_status"),
    ("Kopf.Props.C16", "Kopf.C16.tree_ops_flat"),
    ("Kopf.Props.C16", "Kopf.C16.dtree_ops_flat"),
    ("Kopf.Props.C16", "Kopf.C16.roundtrip_multi"),
    ("Kopf.Props.C16", "Kopf.C16.roundtrip_multi_apart"),
    ("Kopf.Props.C16", "Kopf.C16.roundtrip_multi_status_head"),
    ("Kopf.Props.C16", "Kopf.C16.roundtrip_dmulti"),
    ("Kopf.Props.C16", "Kopf.C16.roundtrip_dmulti_status_head"),
    ("Kopf.Props.C16", "Kopf.C16.purge_complete_ann"),
    ("Kopf.Props.C16", "Kopf.C16.purge_complete_status"),
    ("Kopf.Props.C16", "Kopf.C16.purge_complete_smart"),
    ("Kopf.Props.C16", "Kopf.C16.purge_complete_multi"),
    ("Kopf.Props.C16", "Kopf.C16.isolation_store_ann"),
    ("Kopf.Props.C16", "Kopf.C16.isolation_purge_ann"),
    ("Kopf.Props.C16", "Kopf.C16.isolation_store_status"),
    ("Kopf.Props.C16", "Kopf.C16.isolation_purge_status"),
    ("Kopf.Props.C16", "Kopf.C16.isolation_touch_ann"),
    ("Kopf.Props.C16", "Kopf.C16.isolation_touch_status"),
    ("Kopf.Props.C16", "Kopf.C16.isolation_dstore"),
    ("Kopf.Props.C16", "Kopf.C16.isolation_other_handler"),
    ("Kopf.Props.C16", "Kopf.C16.isolation_other_handler_purge"),
    ("Kopf.Props.C16", "Kopf.C16.pending_store_survives_purge"),
    ("Kopf.Props.C16", "Kopf.C16.last_store_wins_ann"),
    ("Kopf.Props.C16", "Kopf.C16.last_purge_wins_ann"),
    ("Kopf.Props.C16", "Kopf.C16.restore_after_purge_ann"),
    ("Kopf.Props.C16", "Kopf.C16.restore_after_store_ann"),
    ("Kopf.Props.C16", "Kopf.C16.store_skip_unchanged_witness"),
    ("Kopf.Props.C16", "Kopf.C16.removeSuffix_append"),
    ("Kopf.Props.C16", "Kopf.C16.listed_names_identical_instance"),
    ("Kopf.Props.C16", "Kopf.C16.listed_rstrip_witness"),
    ("Kopf.Props.C16", "Kopf.C16.status_record_survives_other_purge"),
    ("Kopf.Props.C16", "Kopf.C16.status_record_survives_other_store"),
    ("Kopf.Props.C16", "Kopf.C16.touch_leaves_records"),
    ("Kopf.Props.C16", "Kopf.C16.dstore_leaves_records"),
    ("Kopf.Props.C16", "Kopf.C16.foreign_annotation_untouched"),
    ("Kopf.Props.C16", "Kopf.C16.other_prefix_untouched"),
    ("Kopf.Props.C16", "Kopf.C16.clear_removes_own"),
    ("Kopf.Props.C16", "Kopf.C16.clear_keeps_foreign"),
    ("Kopf.Props.C16", "Kopf.C16.clear_never_raises"),
    ("Kopf.Props.C16", "Kopf.C16.clear_leaves_nothing_own"),
    ("Kopf.Props.C16", "Kopf.C16.clear_removes_own_status"),
    ("Kopf.Props.C16", "Kopf.C16.clear_hidden_untouched"),
    ("Kopf.Props.C16", "Kopf.C16.clear_hidden_each_on_its_own"),
    ("Kopf.Props.C16", "Kopf.C16.hidden_iff_typeError"),
    ("Kopf.Props.C16", "Kopf.C16.status_hidden_is_absent"),
    ("Kopf.Props.C16", "Kopf.C16.roundtrip_status_hidden"),
    ("Kopf.Props.C16", "Kopf.C16.clear_hidden_regression"),
    ("Kopf.Props.C16", "Kopf.C16.names_depend_on_kind_and_owners"),
    ("Kopf.Props.C16", "Kopf.C16.names_stable"),
    ("Kopf.Props.C16", "Kopf.C16.status_cover_witness"),
    ("Kopf.Props.C16_Keys", "Kopf.C16.valid_name_v2"),
    ("Kopf.Props.C16_Keys", "Kopf.C16.valid_name_v1"),
    ("Kopf.Props.C16_Keys", "Kopf.C16.valid_names"),
    ("Kopf.Props.C16_Keys", "Kopf.C16.valid_names_real"),
    ("Kopf.Props.C16_Keys", "Kopf.C16.edged_id_of_valid"),
    ("Kopf.Props.C16_Keys", "Kopf.C16.names_unchanged_of_valid"),
    ("Kopf.Props.C16_Keys", "Kopf.C16.changed_only_invalid"),
    ("Kopf.Props.C16_Keys", "Kopf.C16.distinct_partial"),
    ("Kopf.Props.C16_Keys", "Kopf.C16.distinct_short_partial"),
    ("Kopf.Props.C16_Keys", "Kopf.C16.distinct_reformed_partial"),
    ("Kopf.Props.C16_Keys", "Kopf.C16.forged_exact"),
    ("Kopf.Props.C16_Keys", "Kopf.C16.isolation_ids_short_partial"),
    ("Kopf.Props.C16_Keys", "Kopf.C16.isolation_ids_reformed_partial"),
    ("Kopf.Props.C16_Keys", "Kopf.C16.isolation_ids_v1_hashed_partial"),
    ("Kopf.Props.C16_Keys", "Kopf.C16.edge_regression"),
    ("Kopf.Props.C16_Keys", "Kopf.C16.sfx_witness"),
    ("Kopf.Props.C16_Keys", "Kopf.C16.collision_witness"),
    ("Kopf.Props.C16_Keys", "Kopf.C16.safe_form_witness"),
    ("Kopf.Props.C16_Keys", "Kopf.C16.safe_form_long_v1_witness"),
    ("Kopf.Props.C16_Keys", "Kopf.C16.forged_witness"),
    ("Kopf.Props.C16_Keys", "Kopf.C16.forged_v1_witness"),
    ("Kopf.Props.C16_Keys", "Kopf.C16.forged_edged_witness"),
    ("Kopf.Props.C16_Keys", "Kopf.C16.marker_witness"),
    ("Kopf.Props.C16_Keys", "Kopf.C16.reserved_touch_witness"),
    ("Kopf.Props.C16_Keys", "Kopf.C16.reserved_diffbase_witness"),
    ("Kopf.Props.C16_Keys", "Kopf.C16.lambda_id_regression"),
    ("Kopf.Props.C16_Keys", "Kopf.C16.charset_witness"),
]
RULE = ("[sight histories: one object in a Kubernetes-like LIST/WATCH server, 2..3 operator lives of 1..3 steps (store A/B, purge, last-handled state 1/2, look), every body "
        "made by kopf's real continuous_watch -> list_objs / watch_objs, 17 kinds (ReplicaSet x5, kinds ending in L/i/s/t, 'List', lower-case), owners deployment/both/other/none, "
        "items with none/all/some own kinds, twins of the owning Deployment copied down; distinct = (shape, band, drs, kind, items_kind, path of sights)] "
        "scenario = storage configuration (Annotations/Status/Smart/Multi as TREES: nested and empty Multis, status-headed and annotation-headed, sent to the model as trees, prefix from default / "
        "my-op.example.com / short / long-ish / 54..189 chars, v1 on/off, verbose, custom touch key / fields) x handler id over "
        "[A-Za-z0-9_./<>-]{1,300} (length bands around 63-|prefix|-1, 56, 63 with +-2, sub-handler paths, field suffixes, "
        "<locals> qualnames, special first/last characters (re-edged names since c2cffd8), the storages' own names, kopf's lambda ids) x record (unicode, nulls, partial, empty) x body "
        "(user annotations, foreign-prefix records, other handlers WITH and WITHOUT records incl. ids sharing a 58+ prefix, safe-form "
        "variants and forged names (the cut-and-hashed or re-edged V2/V1 name of the id spelled as an id), ReplicaSets owned by Deployments, corrupted stanzas (10 %: own annotations "
        "that are not JSON / null / scalars, the progress field itself a string or null, patches with a non-mapping metadata / annotations / status — compared with the model, not judged — and "
        "HIDDEN status fields, judged: status a string / a list / 0 / null, the parent of the progress field a string / 7 / a list / false, the parent of the touch field 7, the parent of the "
        "diff-base field a string; also under 10 % of the sequences)); each scenario runs keys/store/fetch/purge/touch/clear "
        "and the diff-base store/fetch through the real code and the model; distinct = distinct abstraction tuple "
        "(storage shape, prefix class, length band, id shape, record flags, body flags); non-trivial = hashed or two-key or "
        "marked or special-char id, or nulls/unicode in the record, or Multi storage, or pre-existing record. "
        "Storage configurations include name x custom field templates, all Smart arguments, and fields ASSIGNED after construction (property setters); "
        "records with messages of 1 KiB .. 128 KiB (exact lengths around powers of two) and 64..1000 sub-handler references, last-handled states up to ~250 KB; "
        "TWINS on half of the objects: the same id's record under another operator's prefix (same name part), under status.<other name>.progress, and — on "
        "ReplicaSets owned by Deployments — the owner's records and last-handled state under the UNMARKED names of the own prefix. "
        "sequence run: 2-5 ids (sub-handlers, shared long prefixes) x 4-20 operations store/purge/touch/diff-base store/apply-the-patch over one body "
        "(store-store-purge within one patch injected; storages reading the status stanza first over-represented), judged against a dictionary "
        "(id -> last record) after every applied patch and after a final purge of everything in one patch; sequences whose ids share a name "
        "(known classes F6b/d/e/g) are compared with the model but not judged. "
        "VALUES COME BACK: in the sequences every id draws its records from a small pool (its own earlier records, another id's), the last-handled states from a pool as well, and half of "
        "the sequences get an injected history 'A stored and applied; then, in one patch, purge / another record B / both, then A again' (or A then purge / B; the same for the last-handled "
        "state; with a touch in between) — so what is written is often EQUAL to what the object carries or to what is pending, next to something else pending for the same place "
        "(histogram seq_value_comes_back); every single-id scenario stores its record AGAIN on the object that now carries it, into a patch that holds a purge / another record / both "
        "for the handler (store-again, 4 ways), and stores the last-handled state again after another one in the same patch (dstore-again): judged (the one stored last is read), compared with the model. "
        "keys run: (prefix of 1..189 chars incl. 52..56, id) with the id's first/last character from alnum / each of ._-/<>: / non-ASCII "
        "alphanumerics (é ١ ß ²), lengths 0, 1..3, around the V1 room and its cut, 55..57, 62..64, long; a bad character placed at the cut "
        "position; all-special ids; direct make_edged_name calls with crafted names (already-hashed, empty, max_length <= 7 and negative)")
TRUSTED = [
    "blake2b / base64 (the real make_suffix output is passed to the model as a table; the oracle pins the format by golden names)",
    "json.dumps/json.loads of CPython (the driver re-implements dumps; the theorems assume the round-trip law loads(dumps(x)) = x)",
    "the independent RFC 7386 merge in harness/props/c16.py stands for the API server's merge-patch",
    "Kubernetes qualified-name grammar as transcribed in the oracle (name part <= 63, [A-Za-z0-9]([-A-Za-z0-9_.]*[A-Za-z0-9])?; prefix a DNS subdomain <= 253)",
    "sight histories: SightServer in harness/props/c16.py stands for the API server's LIST (kind & apiVersion named once for the list, '<Kind>List'; items of "
    "typed lists carry none) and WATCH (events carry full objects); api.get / api.stream are replaced by it, everything from list_objs / watch_objs / "
    "continuous_watch up to the storages is kopf's real code",
]
ASSUMPTIONS = [
    "bodies have mapping-valued metadata / metadata.annotations (as the API guarantees: EssOK of clear_never_raises); status and spec may hold anything: "
    "a non-mapping value on the way to a status field (hidden field) is generated and judged; a storage's own field that ITSELF holds a value of the wrong type "
    "(status.kopf.progress: 'a string' -> fetch raises AttributeError; the diff-base field a number -> json.loads raises TypeError) is compared with the model and not judged: "
    "nobody but the operator writes there (reported as a side observation, not a finding)",
    "on an object with a hidden status field the value in the way is replaced by the mapping a store / touch / diff-base store writes into (RFC 7386 leaves no other way): "
    "from then on the place is the storage's; until then clear and build keep the value (it is the user's, and a change of it is an essential change)",
    "a status-stored record is written over an older record of the same handler only with a key set covering the old one "
    "(kopf always writes all nine ProgressRecord keys); Lean witness `status_cover_witness` shows the need",
    "records and essences contain no floats (modelling limit of Kopf.J)",
    "the API server applies the patch as a plain RFC 7386 merge: structural-schema pruning of unknown status fields "
    "(CRDs without x-kubernetes-preserve-unknown-fields) would drop a status-stored record — environment assumption",
    "json.dumps/json.loads: the theorems use only the instance loads(dumps(x)) = x at the value written; no injective codec is "
    "constructed in Lean (CPython's json is exercised by the tie)",
    "kopf's own lambda ids (':' — outside the property's alphabet) are generated and judged (fixed F6i); other characters outside the alphabet are not generated (charset_witness is Lean-only)",
    "id-level isolation is proved within one kind of names only (both ids taken verbatim / both verbatim with hashed V1 names / both re-formed: "
    "longer than 63 or re-edged); across kinds an id can spell the generated name of another (F6e; forged_exact: nothing else); the oracle "
    "checks isolation on every scenario",
    "ids with non-ASCII characters (outside the property's alphabet) enter the keys run for the tie only; their names are judged when the "
    "foreign characters sit at the edges (where make_edged_name replaces them)",
    "the body given to an operation is the object the patch lands on (no stale view: a purge decided on a stale body without the "
    "record is a no-op), and the patch is applied as ONE atomic merge: the real client splits body and status into two PATCH requests "
    "when status is a subresource, and the API server rejects the WHOLE body patch (422) when one annotation name is invalid (the fixed F6/F6i)",
    "a ReplicaSet keeps or loses its Deployment owner only between cycles; after orphaning/adoption the names switch between k and "
    "k-ofDRS and the old records are neither read nor purged (MarkStable covers one cycle)",
    "'purged completely' is read modulo the <prefix>/kopf-managed marker, the touch annotation and an empty status container",
    "V1 keys left by an earlier v1=True configuration are neither read nor purged after switching to v1=False",
    "a Multi storage headed by a no-write status storage would read stale status records first (not a shipped configuration: "
    "Smart puts the annotations first); roundtrip_multi* require a writing head",
    "records and last-handled states larger than ~250 KB are not generated (Kubernetes limits all annotations of an object to 256 KiB: the PATCH "
    "would be refused anyway); equality of what is read back is type-strict JSON equality (true is not 1)",
    "the documented signature of the storages (argument names, defaults, '{name}' templates formatted for constructor arguments AND for fields "
    "assigned later) is transcribed in the oracle (expected_leaves / expected_dleaves): a deliberate change of a default is a change of this pin",
]

ALPHABET = "ABCDEFGHIJKLMNOPQRSTUVWXYZabcdefghijklmnopqrstuvwxyz0123456789_./<>-"
ALNUM = "ABCDEFGHIJKLMNOPQRSTUVWXYZabcdefghijklmnopqrstuvwxyz0123456789"
SPECIAL = "_./<>-"
LOWER = "abcdefghijklmnopqrstuvwxyz"
SAFE_TABLE = str.maketrans({"/": ".", "<": "_", ">": "_", ":": "_"})   # the oracle's own reading of "safe form"

SIG_EDGE = {"site": "StorageKeyFormingConvention.make_v2_key", "shape": "name part starts or ends with a non-alphanumeric"}
SIG_V1LONG = {"site": "StorageKeyFormingConvention.make_v1_key", "shape": "prefix of 55+ chars: v1 name part starts with '-' or exceeds 63"}
SIG_DIGEST = {"site": "StorageKeyFormingConvention.make_suffix", "shape": "32-bit digest collision: distinct hashed ids sharing their kept characters get the same annotation names"}
SIG_SAFEFORM = {"site": "StorageKeyFormingConvention.make_safe_key", "shape": "distinct ids with the same safe form share one annotation"}
SIG_RESERVED = {"site": "AnnotationsProgressStorage/AnnotationsDiffBaseStorage", "shape": "handler id equal to a name the storages use themselves (kopf-managed marker, touch key, diff-base key) under the same prefix"}
SIG_CHARSET = {"site": "StorageKeyFormingConvention.make_safe_key", "shape": "id character outside [A-Za-z0-9_./<>-] passes into the annotation name (kopf's own lambda ids contain ':')"}
SIG_V1NEG = {"site": "StorageKeyFormingConvention.make_v1_key", "shape": "negative v1 cut: the v1 name of an id is the v2 name of its safe form"}
SIG_FORGED = {"site": "StorageKeyFormingConvention.make_v2_key", "shape": "id equal to the re-formed (cut-and-hashed or re-edged) name of another id is taken verbatim and shares its annotation"}   # F6e (V2 and V1 names)


# =============================================================================================
# kopf access (always the tree under test: PYTHONPATH is set by ./check from $KOPF_REPO)
# =============================================================================================
def _kopf():
    from kopf._cogs.configs import conventions, diffbase, progress
    from kopf._cogs.structs import bodies, patches
    return conventions, progress, diffbase, bodies, patches


def build_storage(spec: dict) -> Any:
    """Real constructors only. `spec` = {"cls": ..., kwargs...}."""
    _, progress, _, _, _ = _kopf()
    cls = spec["cls"]
    kw = {k: (tuple(v) if isinstance(v, list) and k in ("field", "touch_field") else v)
          for k, v in spec.items() if k not in ("cls", "children", "set")}
    with warnings.catch_warnings():
        warnings.simplefilter("ignore")
        if cls == "annotations":
            return progress.AnnotationsProgressStorage(**kw)
        if cls == "status":
            return _assign(progress.StatusProgressStorage(**kw), spec.get("set"))
        if cls == "smart":
            return progress.SmartProgressStorage(**kw)
        if cls == "multi":
            return progress.MultiProgressStorage([build_storage(c) for c in spec["children"]])
    raise ValueError(cls)


def _assign(storage: Any, assignments: dict | None) -> Any:
    """`storage.field = ...` / `storage.touch_field = ...` after construction (the property setters of the status storages)"""
    for attr, value in (assignments or {}).items():
        setattr(storage, attr, tuple(value) if isinstance(value, list) else value)
    return storage


# ---- the configuration an operator ASKS for, read off the constructor arguments (documented signature and defaults,
# ---- transcribed once): where the records have to live, whatever attributes the storage object shows afterwards
def _xfield(value: Any, name: str) -> list[str]:
    return value.format(name=name).split(".") if isinstance(value, str) else list(value)


def expected_leaves(spec: dict) -> list[dict]:
    cls = spec["cls"]
    if cls == "multi":
        return [l for c in spec["children"] for l in expected_leaves(c)]
    ann = {"t": "ann", "prefix": spec.get("prefix", "kopf.zalando.org"), "v1": bool(spec.get("v1", True)),
           "verbose": bool(spec.get("verbose", False)), "touch_key": spec.get("touch_key", "touch-dummy")}
    name = spec.get("name", "kopf")
    setters = spec.get("set") or {}
    status = {"t": "status", "field": _xfield(setters.get("field", spec.get("field", "status.{name}.progress")), name),
              "touch_field": _xfield(setters.get("touch_field", spec.get("touch_field", "status.{name}.dummy")), name),
              "nowrite": cls == "smart"}
    return {"annotations": [ann], "status": [status], "smart": [ann, status]}[cls]


def expected_dleaves(spec: dict) -> list[dict]:
    cls = spec["cls"]
    if cls == "multi":
        return [l for c in spec["children"] for l in expected_dleaves(c)]
    if cls == "annotations":
        return [{"t": "ann", "prefix": spec.get("prefix", "kopf.zalando.org"), "key": spec.get("key", "last-handled-configuration"),
                 "v1": bool(spec.get("v1", True))}]
    setters = spec.get("set") or {}
    return [{"t": "status", "field": _xfield(setters.get("field", spec.get("field", "status.{name}.last-handled-configuration")),
                                               spec.get("name", "kopf"))}]


def build_dstorage(spec: dict) -> Any:
    _, _, diffbase, _, _ = _kopf()
    cls = spec["cls"]
    kw = {k: (tuple(v) if isinstance(v, list) and k == "field" else v)
          for k, v in spec.items() if k not in ("cls", "children", "set")}
    with warnings.catch_warnings():
        warnings.simplefilter("ignore")
        if cls == "annotations":
            return diffbase.AnnotationsDiffBaseStorage(**kw)
        if cls == "status":
            return _assign(diffbase.StatusDiffBaseStorage(**kw), spec.get("set"))
        if cls == "multi":
            return diffbase.MultiDiffBaseStorage([build_dstorage(c) for c in spec["children"]])
    raise ValueError(cls)


def leaves(s: Any) -> Iterable[Any]:
    subs = getattr(s, "storages", None)
    if subs is not None:
        for c in subs:
            yield from leaves(c)
    else:
        yield s


def describe(s: Any) -> list[dict]:
    """Flat leaf descriptions read off the REAL objects (defaults are the real defaults)."""
    _, progress, _, _, _ = _kopf()
    out = []
    for l in leaves(s):
        if isinstance(l, progress.AnnotationsProgressStorage):
            out.append({"t": "ann", "prefix": l.prefix, "v1": bool(l.v1), "verbose": bool(l.verbose), "touch_key": l.touch_key})
        elif isinstance(l, progress.StatusProgressStorage):
            out.append({"t": "status", "field": list(l.field), "touch_field": list(l.touch_field),
                        "nowrite": isinstance(l, progress.NoWriteStatusProgressStorage)})
        else:
            raise TypeError(f"unknown progress storage {type(l)}")
    return out


def describe_tree(s: Any) -> dict:
    """The storage as the tree it is (nested Multi storages stay nested): what the driver gets."""
    subs = getattr(s, "storages", None)
    if subs is not None:
        return {"t": "multi", "children": [describe_tree(c) for c in subs]}
    return describe(s)[0]


def ddescribe_tree(s: Any) -> dict:
    subs = getattr(s, "storages", None)
    if subs is not None:
        return {"t": "multi", "children": [ddescribe_tree(c) for c in subs]}
    return ddescribe(s)[0]


def ddescribe(s: Any) -> list[dict]:
    _, _, diffbase, _, _ = _kopf()
    out = []
    for l in leaves(s):
        if isinstance(l, diffbase.AnnotationsDiffBaseStorage):
            out.append({"t": "ann", "prefix": l.prefix, "key": l.key, "v1": bool(l.v1)})
        elif isinstance(l, diffbase.StatusDiffBaseStorage):
            out.append({"t": "status", "field": list(l.field)})
        else:
            raise TypeError(f"unknown diffbase storage {type(l)}")
    return out


# =============================================================================================
# independent helpers: RFC 7386, name grammar
# =============================================================================================
def merge_patch(target: Any, patch: Any) -> Any:
    """RFC 7386 MergePatch(Target, Patch), written from the RFC's pseudo-code."""
    if isinstance(patch, dict):
        result = dict(target) if isinstance(target, dict) else {}
        for name, value in patch.items():
            if value is None:
                result.pop(name, None)
            else:
                result[name] = merge_patch(result.get(name), value)
        return result
    return copy.deepcopy(patch)


DNS_LABEL = re.compile(r"[a-z0-9]([-a-z0-9]*[a-z0-9])?")
NAME_PART = re.compile(r"[A-Za-z0-9]([-A-Za-z0-9_.]*[A-Za-z0-9])?")


def prefix_problems(p: str) -> list[str]:
    out = []
    if not p or len(p) > 253:
        out.append("prefix-length")
    for lab in p.split("."):
        if len(lab) > 63 or not DNS_LABEL.fullmatch(lab):
            out.append("prefix-label")
            break
    return out


def name_problems(full: str) -> list[str]:
    """Why `full` is not a valid Kubernetes annotation key ([] = valid)."""
    parts = full.split("/")
    if len(parts) > 2:
        return ["slashes"]
    out = []
    if len(parts) == 2:
        out += prefix_problems(parts[0])
    name = parts[-1]
    if not name:
        return out + ["empty"]
    if len(name) > 63:
        out.append("too-long")
    if not all(c in ALNUM or c in "-_." for c in name):
        out.append("charset")
    if not (name[0] in ALNUM and name[-1] in ALNUM):
        out.append("edge")
    return out


def _bare_convention() -> Any:
    """an instance of the naming mixin without a constructor call: its helpers are reached as bound attributes, so that
    it does not matter whether the code under test declares them as methods, static methods or class methods"""
    conventions, _, _, _, _ = _kopf()
    obj = conventions.StorageKeyFormingConvention.__new__(conventions.StorageKeyFormingConvention)
    obj.prefix, obj.v1 = "kopf.zalando.org", True
    return obj


def real_suffix(s: str) -> str:
    """The REAL make_suffix of the tree under test (it does not depend on the instance's state)."""
    return _bare_convention().make_suffix(s)


def real_safe(s: str) -> str:
    return _bare_convention().make_safe_key(s)


def sfx_table(ids: Iterable[str]) -> list[list[str]]:
    seen: dict[str, str] = {"": real_suffix("")}     # make_keys asks for the suffix of '' (v1_fits)
    for k in ids:
        for v in (k, k + "-ofDRS"):
            for x in (v, real_safe(v)):
                if x not in seen:
                    seen[x] = real_suffix(x)
    for a, b in seen.items():
        check_sfx(a, b)
    return [[a, b] for a, b in seen.items()]


def pinned_suffix(s: str) -> str:
    """The persisted format, transcribed once (changing it orphans stored state)."""
    d = hashlib.blake2b(s.encode("utf-8"), digest_size=4).digest()
    return ("-" + base64.b64encode(d, altchars=b"-.").decode("ascii")).rstrip("=-.")


def pinned_edged(name: str, key: str, max_length: int) -> str:
    """The persisted format of re-edged names (kopf c2cffd8), transcribed once from the commit: a bad first/last
    character becomes 'x', and unless the name already carries a digest the digest of the ORIGINAL id is appended."""
    def ok(c: str) -> bool:
        return c in ALNUM
    if name and ok(name[0]) and ok(name[-1]):
        return name
    name = name or "x"
    if not ok(name[0]):
        name = "x" + name[1:]
    if not ok(name[-1]):
        name = name[:-1] + "x"
    sfx = pinned_suffix(key)
    if name.endswith(sfx) or name.endswith(pinned_suffix(key.translate(SAFE_TABLE))):
        return name
    return name[:max(1, max_length - len(sfx))] + sfx


def pinned_v2(k: str) -> str:
    sfx = pinned_suffix(k) if len(k) > 63 else ""
    return pinned_edged(k.translate(SAFE_TABLE)[:63 - len(sfx)] + sfx, k, 63)


def pinned_v1(prefix: str, k: str) -> str | None:
    """None when no V1 key is generated for this prefix (kopf e916847: no room for a suffix)."""
    room = 63 - (len(prefix) + 1)
    if room <= 7:
        return None
    safe = k.translate(SAFE_TABLE)
    sfx = "" if len(safe) <= room else pinned_suffix(safe)
    return pinned_edged(safe[:room - len(sfx)] + sfx, k, room)


def pinned_parts(k: str, prefix: str, v1: bool) -> list[str]:
    """name parts (without `prefix/`) an id is expected to live under, per the pinned format"""
    out = [pinned_v2(k)]
    n1 = pinned_v1(prefix, k) if v1 else None
    if n1 is not None and n1 not in out:
        out.append(n1)
    return out


SFX_SHAPE = re.compile(r"-[A-Za-z0-9._-]{5}[A-Za-z0-9]")
SFX_BAD: list[list[str]] = []       # suffixes of the real make_suffix outside the contract the theorems assume (RealSfx)
SFX_SEEN = [0]


def check_sfx(x: str, sfx: str) -> None:
    """the hypothesis `RealSfx` of the validity theorems, checked on every suffix the real code returns"""
    SFX_SEEN[0] += 1
    if not SFX_SHAPE.fullmatch(sfx) and len(SFX_BAD) < 5:
        SFX_BAD.append([x, sfx])


def jsonable(x: Any) -> Any:
    return json.loads(json.dumps(x))


def differs(a: Any, b: Any) -> bool:
    """type-strict JSON inequality: Python's `==` equates True with 1, False with 0 and 1 with 1.0 — a record whose
    `success: true` reads back as `1` is not "read back identically" """
    return json.dumps(a, sort_keys=True) != json.dumps(b, sort_keys=True)


def sort_keys_deep(x: Any) -> Any:
    if isinstance(x, dict):
        return {k: sort_keys_deep(x[k]) for k in sorted(x)}
    if isinstance(x, list):
        return [sort_keys_deep(v) for v in x]
    return x


def drop_nulls(x: Any) -> Any:
    if isinstance(x, dict):
        return {k: drop_nulls(v) for k, v in x.items() if v is not None}
    return x


def prune(x: Any) -> Any:
    """Remove empty mappings recursively (the API server drops empty annotations; a purged status
    container `{}` carries no record)."""
    if isinstance(x, dict):
        out = {}
        for k, v in x.items():
            v2 = prune(v)
            if isinstance(v2, dict) and not v2:
                continue
            out[k] = v2
        return out
    return x


ERR = {TypeError: "type-error", KeyError: "key-error", ValueError: "value-error", AttributeError: "attr-error"}


def call(fn, *a, **kw):
    try:
        return ["ok", fn(*a, **kw)]
    except (TypeError, KeyError, ValueError, AttributeError) as e:
        for t, tag in ERR.items():
            if isinstance(e, t):
                return ["err", tag]
        raise


# =============================================================================================
# generators
# =============================================================================================
def mk_prefix(rng, n: int) -> str:
    """A valid DNS-subdomain prefix of exactly n characters."""
    if n <= 3:
        return "".join(rng.choice(LOWER) for _ in range(n))
    out = ""
    while len(out) < n:
        room = n - len(out)
        if room <= 4:
            lab = "".join(rng.choice(LOWER) for _ in range(room))
            out += lab
            break
        ln = min(room - 2, rng.randint(1, 20)) if room > 6 else room
        mid = "".join(rng.choice(LOWER + "0123456789-") for _ in range(max(0, ln - 2)))
        lab = (rng.choice(LOWER) + mid + rng.choice(LOWER + "0123456789"))[:ln] if ln >= 2 else rng.choice(LOWER)
        if lab.endswith("-"):
            lab = lab[:-1] + "x"
        out += lab
        if len(out) < n - 1:
            out += "."
        elif len(out) == n - 1:
            out += "z"
    assert len(out) == n and not prefix_problems(out), out
    return out


FIXED_PREFIXES = ["kopf.zalando.org", "my-op.example.com", "x.io", "kopf.dev",
                  "operators.platform-team.example-company.internal"]


def gen_prefix(rng) -> tuple[str, str]:
    r = rng.random()
    if r < 0.40:
        return "kopf.zalando.org", "default"
    if r < 0.55:
        return "my-op.example.com", "custom"
    if r < 0.65:
        return rng.choice(["x.io", "a", "kopf.dev", "sub.kopf.zalando.org"]), "short"
    if r < 0.78:
        return FIXED_PREFIXES[4] if rng.random() < 0.5 else mk_prefix(rng, rng.randint(30, 52)), "longish"
    if r < 0.90:
        return mk_prefix(rng, rng.choice([53, 54, 55, 56, 57])), "edge55"
    return mk_prefix(rng, rng.choice([58, 60, 62, 63, 64, 100, 189])), "long"


def ident(rng, lo=1, hi=10) -> str:
    n = rng.randint(lo, hi)
    return rng.choice(LOWER + "_") + "".join(rng.choice(LOWER + "0123456789_") for _ in range(n - 1))


def gen_id(rng, plen: int) -> tuple[str, str, str]:
    """→ (id, shape, band)."""
    l1 = 62 - plen
    r = rng.random()
    if r < 0.18:
        band, L = "small", rng.randint(1, 12)
    elif r < 0.40:
        band, L = "v1-threshold", l1 + rng.randint(-2, 2)
    elif r < 0.60:
        band, L = "63", 63 + rng.randint(-2, 2)
    elif r < 0.66:
        band, L = "56", 56 + rng.randint(-2, 2)
    elif r < 0.72:
        band, L = "v1-cut", l1 - 7 + rng.randint(-2, 2)
    elif r < 0.86:
        band, L = "mid", rng.randint(13, 120)
    elif r < 0.94:
        band, L = "long", rng.randint(121, 298)
    elif r < 0.96 and plen >= 56:
        band, L = "prefix+1", plen + 1 + rng.choice([0, 0, -1, 1])     # negative v1 cut keeping 56 characters
    else:
        band, L = "max", rng.choice([299, 300])
    L = max(1, min(300, L))
    shape = rng.choices(["name", "sub", "field", "qual", "rand", "edge", "reserved", "lambda"],
                        weights=[20, 20, 15, 10, 20, 14, 5, 3])[0]
    if shape == "lambda":
        # kopf's own id for a lambda (get_callable_id): outside the property's alphabet because of the ':'
        s = "lambda:/" + "/".join(ident(rng, 2, 8) for _ in range(rng.randint(1, 6))) + ".py:%d" % rng.randint(1, 999)
        if rng.random() < 0.3:
            s += "/" + ident(rng, 1, 8)
        return s[:300], shape, "lambda"
    if shape == "reserved":
        return rng.choice(["kopf-managed", "touch-dummy", "last-handled-configuration", "kopf-managed-ofDRS"]), shape, "reserved"
    if shape == "name":
        s = ident(rng, 1, 12)
        while len(s) < L:
            s += "_" + ident(rng, 1, 12)
    elif shape == "sub":
        s = ident(rng, 1, 12)
        while len(s) < L:
            s += "/" + ident(rng, 1, 12)
    elif shape == "field":
        s = ident(rng, 1, 12) + "/" + rng.choice(["spec", "status", "metadata.labels"])
        while len(s) < L:
            s += "." + ident(rng, 1, 10)
    elif shape == "qual":
        s = ident(rng, 1, 10).capitalize() + ".<locals>." + ident(rng, 1, 10)
        while len(s) < L:
            s += rng.choice(["/", ".<locals>.", "-"]) + ident(rng, 1, 10)
    else:
        s = "".join(rng.choice(ALPHABET) for _ in range(L))
    s = s[:L]
    if shape == "edge":
        where = rng.choice(["first", "last", "both"])
        if where in ("first", "both"):
            s = rng.choice(SPECIAL) + s[1:]
        if where in ("last", "both"):
            s = s[:-1] + rng.choice(SPECIAL)
    else:
        # most ids keep alphanumeric edges (as most real ids do); `_private`, `fn/`, `<locals>.fn` shapes come through here
        # and through the "edge" shape, and get re-edged names since kopf c2cffd8
        if s[0] not in ALNUM and rng.random() < 0.8:
            s = rng.choice(LOWER) + s[1:]
        if s[-1] not in ALNUM and rng.random() < 0.8:
            s = s[:-1] + rng.choice(LOWER)
    return s, shape, band


UNI = ["", "ok", "Ошибка: нет данных", "エラー", "naïve café", "emoji 😀🚀", "quote \" and \\ backslash", "line1\nline2\ttab",
       "ctrl \x01\x1f\x7f", "{\"json\": \"inside\"}", "null", "\u00a0nbsp \u200b zero-width", "x" * 200]


BIG_SIZES = [1023, 1024, 1025, 1100, 2048, 4097, 5000, 20000]
HUGE_SIZES = [65535, 65537, 70000, 100000, 131073]


def big_text(rng, huge: bool = False) -> str:
    """a long text (an exception message with a dumped response, a long field): exact lengths around the powers of two a
    "protective" cut would be placed at; mostly ASCII, sometimes with multi-byte characters (lengths count code points)"""
    n = rng.choice(HUGE_SIZES if huge else BIG_SIZES)
    unit = rng.choice(["x", "error: ", "Ошибка ", "0123456789", "{\"k\":\"v\"},", "😀"])
    return (unit * (n // len(unit) + 1))[:n]


def gen_record(rng, big: float = 0.05, huge: float = 0.002) -> tuple[list[list[Any]], str]:
    kind = rng.choices(["full", "partial", "empty", "allnull", "extra"], weights=[60, 20, 5, 5, 10])[0]

    def opt(v):
        return None if rng.random() < 0.35 else v

    ts = lambda: "2020-%02d-%02dT%02d:%02d:%02d.%06d" % (rng.randint(1, 12), rng.randint(1, 28), rng.randint(0, 23),
                                                         rng.randint(0, 59), rng.randint(0, 59), rng.randint(0, 999999))
    full = [["started", opt(ts())], ["stopped", opt(ts())], ["delayed", opt(ts())],
            ["purpose", opt(rng.choice(["create", "update", "delete", "resume"]))],
            ["retries", opt(rng.randint(0, 100))], ["success", opt(rng.random() < 0.5)], ["failure", opt(rng.random() < 0.5)],
            ["message", opt(rng.choice(UNI))],
            ["subrefs", opt([ident(rng) + "/" + ident(rng) for _ in range(rng.randint(1, 3))])]]
    r = rng.random()
    if r < big + huge:
        # record content of a realistic worst case: long messages, many sub-handlers
        if rng.random() < 0.8:
            full[7] = ["message", big_text(rng, huge=r < huge)]
        else:
            full[8] = ["subrefs", [ident(rng, 4, 10) + "/" + ident(rng, 4, 10) + str(i) for i in range(rng.choice([64, 300, 1000]))]]
    if kind == "full":
        rec = full
    elif kind == "partial":
        rec = [kv for kv in full if rng.random() < 0.5]
    elif kind == "empty":
        rec = []
    elif kind == "allnull":
        rec = [[k, None] for k, _ in full]
    else:
        rec = full + [["x-extra", rng.choice([0, -5, 2**40, True, "z", [1, None, "a"], []])]]
    return rec, kind


def gen_storage_spec(rng) -> tuple[dict, str]:
    def ann(prefix=None):
        p, _ = gen_prefix(rng) if prefix is None else (prefix, "")
        kw: dict[str, Any] = {"cls": "annotations", "prefix": p}
        if rng.random() < 0.6:
            kw["v1"] = rng.random() < 0.5
        if rng.random() < 0.3:
            kw["verbose"] = rng.random() < 0.7
        if rng.random() < 0.15:
            kw["touch_key"] = rng.choice(["touch", "my/touch", "t" * 70, "touch-dummy."])
        return kw

    def status():
        # name, field and touch_field independently (templates with and without a name), and — a configuration of its own —
        # fields assigned AFTER construction (`settings.persistence.progress_storage.field = ...`: the property setters)
        kw: dict[str, Any] = {"cls": "status"}
        if rng.random() < 0.4:
            kw["name"] = rng.choice(["myop", "kopf2", "x"])
        if rng.random() < 0.3:
            kw["field"] = rng.choice(["status.{name}.progress2", "status.progress", ["status", "a.b", "p"], "spec.hidden.progress",
                                      "status.{name}-state.handlers"])
        if rng.random() < 0.2:
            kw["touch_field"] = rng.choice(["status.{name}.touched", ["status", "dummy"]])
        if rng.random() < 0.2:
            st: dict[str, Any] = {}
            if rng.random() < 0.8:
                st["field"] = rng.choice(["status.{name}.progress", "status.{name}.handlers", ["status", "set", "p"], "status.assigned"])
            if rng.random() < 0.4:
                st["touch_field"] = rng.choice(["status.{name}.dummy", "status.{name}.poke", ["status", "set", "t"]])
            if st:
                kw["set"] = st
        return kw

    def smart():
        p, _ = gen_prefix(rng)
        kw: dict[str, Any] = {"cls": "smart", "prefix": p}
        if rng.random() < 0.6:
            kw["v1"] = rng.random() < 0.5
        if rng.random() < 0.3:
            kw["verbose"] = True
        if rng.random() < 0.25:
            kw["name"] = "myop"
        if rng.random() < 0.15:
            kw["field"] = rng.choice(["status.{name}.progress2", "status.progress", ["status", "a.b", "p"]])
        if rng.random() < 0.1:
            kw["touch_field"] = rng.choice(["status.{name}.touched", ["status", "dummy"]])
        if rng.random() < 0.1:
            kw["touch_key"] = rng.choice(["touch", "my/touch", "touch-dummy."])
        return kw

    shape = rng.choices(["ann", "status", "smart", "multi2", "multi-as", "multi-sa", "nested"],
                        weights=[38, 10, 22, 10, 8, 6, 6])[0]
    if shape == "ann":
        return ann(), shape
    if shape == "status":
        return status(), shape
    if shape == "smart":
        return smart(), shape
    if shape == "multi2":
        a, b = ann(), ann()
        if b["prefix"] == a["prefix"]:
            b["prefix"] = "second." + a["prefix"] if len(a["prefix"]) < 180 else "my-op.example.com"
        return {"cls": "multi", "children": [a, b]}, shape
    if shape == "multi-as":
        return {"cls": "multi", "children": [ann(), status()]}, shape
    if shape == "multi-sa":
        return {"cls": "multi", "children": [status(), ann()]}, shape
    v = rng.random()
    if v < 0.35:
        return {"cls": "multi", "children": [{"cls": "multi", "children": [ann()]}, smart_other(rng)]}, shape
    if v < 0.60:
        a = ann()
        return {"cls": "multi", "children": [{"cls": "multi", "children": [status()]},
                                             {"cls": "multi", "children": [a, {"cls": "multi", "children": [smart_other(rng)]}]}]}, shape
    if v < 0.80:
        return {"cls": "multi", "children": [{"cls": "multi", "children": []}, {"cls": "multi", "children": [ann(), status()]}]}, shape
    if v < 0.90:
        return {"cls": "multi", "children": [{"cls": "multi", "children": [{"cls": "multi", "children": [smart()]}]}]}, shape
    return {"cls": "multi", "children": []}, shape


def smart_other(rng) -> dict:
    return {"cls": "smart", "prefix": rng.choice(["other.example.org", "b.io"]), "name": "nested"}


def gen_dstorage_spec(rng, prefix: str) -> dict:
    def ann():
        kw: dict[str, Any] = {"cls": "annotations", "prefix": prefix if rng.random() < 0.7 else gen_prefix(rng)[0]}
        if rng.random() < 0.5:
            kw["v1"] = rng.random() < 0.5
        if rng.random() < 0.3:
            kw["key"] = rng.choice(["last-handled", "lhc/v2", "k" * 64, "last-handled-configuration-of-the-operator-with-a-long-name-x"])
        return kw

    def status():
        kw: dict[str, Any] = {"cls": "status"}
        if rng.random() < 0.4:
            kw["name"] = "myop"
        if rng.random() < 0.3:
            kw["field"] = rng.choice(["status.lhc", ["status", "k.o", "lhc"], "status.{name}.lhc"])
        if rng.random() < 0.2:
            kw["set"] = {"field": rng.choice(["status.{name}.last-handled-configuration", "status.{name}.essence", ["status", "set", "lhc"]])}
        return kw
    r = rng.random()
    if r < 0.6:
        return ann()
    if r < 0.75:
        return status()
    if r < 0.90:
        return {"cls": "multi", "children": [ann(), status()]}
    return {"cls": "multi", "children": [{"cls": "multi", "children": [status()]}, {"cls": "multi", "children": []},
                                         {"cls": "multi", "children": [ann()]}]}


def gen_value(rng, depth=0) -> Any:
    r = rng.random()
    if depth >= 2 or r < 0.5:
        return rng.choice([0, 1, -7, 2**35, True, False, "", "v", "значение", "😀", None, "a b"])
    if r < 0.75:
        return [gen_value(rng, depth + 1) for _ in range(rng.randint(0, 3))]
    return {rng.choice(["a", "b", "c", "d-e", "ü"]): gen_value(rng, depth + 1) for _ in range(rng.randint(0, 3))}


def gen_body(rng, prefixes: list[str]) -> tuple[dict, dict]:
    """A base body (no own records yet). → (body, flags)."""
    flags: dict[str, Any] = {}
    kind = rng.choices(["KopfExample", "ReplicaSet", "Deployment", "Pod"], weights=[50, 35, 8, 7])[0]
    md: dict[str, Any] = {"name": "obj-" + ident(rng, 1, 5), "namespace": "ns", "uid": "uid-%d" % rng.randint(1, 999),
                          "resourceVersion": str(rng.randint(1, 10**6))}
    owner = "none"
    if kind == "ReplicaSet" or rng.random() < 0.1:
        owner = rng.choices(["deployment", "other", "both", "none", "empty"], weights=[55, 15, 10, 10, 10])[0]
        if owner == "deployment":
            md["ownerReferences"] = [{"apiVersion": "apps/v1", "kind": "Deployment", "name": "d", "uid": "u"}]
        elif owner == "other":
            md["ownerReferences"] = [{"apiVersion": "v1", "kind": "Job", "name": "j", "uid": "u"}]
        elif owner == "both":
            md["ownerReferences"] = [{"apiVersion": "v1", "kind": "Job", "name": "j", "uid": "u"},
                                     {"apiVersion": "apps/v1", "kind": "Deployment", "name": "d", "uid": "u"}]
        elif owner == "empty":
            md["ownerReferences"] = []
    flags["drs"] = kind == "ReplicaSet" and owner in ("deployment", "both")
    flags["kind"] = kind
    if rng.random() < 0.5:
        md["labels"] = {"app": "x", "tier": rng.choice(["a", "b"])}
    anns: dict[str, Any] = {}
    r = rng.random()
    if r < 0.75:
        for _ in range(rng.randint(0, 4)):
            name = rng.choice(["example.com/note", "plain", "kubectl.kubernetes.io/last-applied-configuration",
                               "other-op.example.org/kopf-managed", "other-op.example.org/" + ident(rng),
                               "kopf.zalando.orgx/" + ident(rng), "xkopf.zalando.org/" + ident(rng), "fn", "touch-dummy",
                               "Z.example/" + ident(rng) + ".", "description"])
            anns[name] = rng.choice(["text", "юникод", "{\"started\":\"2020-01-01\"}", "", "yes", "😀"])
        for p in prefixes:
            if rng.random() < 0.25:
                # look-alikes of the own prefix which are NOT under it
                anns[rng.choice([p + "x/" + ident(rng), "x" + p + "/" + ident(rng), p, p + "." + "evil.io/" + ident(rng)])] = "look-alike"
        flags["user_annotations"] = len(anns)
    if anns or rng.random() < 0.3:
        md["annotations"] = anns
    body: dict[str, Any] = {"apiVersion": "kopf.dev/v1", "kind": kind, "metadata": md}
    if rng.random() < 0.8:
        body["spec"] = {"field": gen_value(rng), "n": rng.randint(0, 5)}
    r = rng.random()
    if r < 0.45:
        body["status"] = {"phase": "Running", "kopf": {"progress": {}, "dummy": "2020-01-01T00:00:00"}}
    elif r < 0.6:
        body["status"] = {"observed": gen_value(rng)}
    elif r < 0.65:
        body["status"] = {}
    flags["status"] = "status" in body
    return body, flags


TWIN_RECORD = {"started": "1999-01-01T00:00:00", "success": True, "retries": 7, "message": "record of ANOTHER operator's handler with the same id"}
TWIN_ESSENCE = {"spec": {"twin": "last-handled state of ANOTHER object/operator"}}


def is_prefix_path(a: list, b: list) -> bool:
    return len(a) <= len(b) and list(b[:len(a)]) == list(a)


def add_twins(rng, body: dict, flags: dict, k: str, xdesc: list[dict], xddesc: list[dict]) -> None:
    """Records of the SAME handler id (and the same last-handled key) that belong to somebody else, put where a storage that is
    sloppy about its own place would find them (names from the pinned format, never from the code under test):
    (a) another operator's annotations `<other prefix>/<the very name part>`; (b) on a ReplicaSet owned by a Deployment, the
    Deployment's own records under the own prefix with the UNMARKED names (Kubernetes copies the owner's annotations down:
    the reason the '-ofDRS' names exist); (c) another operator's status stanza `status.<other name>.progress.<id>`."""
    md = body.setdefault("metadata", {})
    anns = md.setdefault("annotations", {})
    drs = bool(flags.get("drs"))
    mk = k + "-ofDRS" if drs else k
    n = 0
    enc = json.dumps(TWIN_RECORD, separators=(",", ":"))
    own_prefixes = [d["prefix"] for d in xdesc + xddesc if d["t"] == "ann"]
    for d in [d for d in xdesc if d["t"] == "ann"]:
        p = d["prefix"]
        for fp in {rng.choice(["other-op.example.org", "twin.example.com"]), rng.choice([p + "x", "x" + p, "twin." + p])}:
            if fp in own_prefixes or len(fp) > 253 or prefix_problems(fp):
                continue
            for part in pinned_parts(mk, p, True) + pinned_parts(mk, fp, True):
                anns.setdefault(fp + "/" + part, enc)
                n += 1
        if drs and not k.endswith("-ofDRS"):
            for part in pinned_parts(k, p, True):          # what the owning Deployment's handler of the same id stored
                anns.setdefault(p + "/" + part, enc)
                n += 1
    if drs:
        for d in [d for d in xddesc if d["t"] == "ann"]:
            if not d["key"].endswith("-ofDRS"):
                for part in pinned_parts(d["key"], d["prefix"], True):      # the Deployment's last-handled state, copied down
                    anns.setdefault(d["prefix"] + "/" + part, json.dumps(TWIN_ESSENCE, separators=(",", ":")) + "\n")
                    n += 1
    own_paths = [d["field"] for d in xdesc + xddesc if d["t"] == "status"] + [d["touch_field"] for d in xdesc if d["t"] == "status"]
    for d in [d for d in xdesc if d["t"] == "status"]:
        for twin in (["status", "kopf", "progress"], ["status", "other-op", "progress"], d["field"][:-1] + ["x" + d["field"][-1]]):
            if any(is_prefix_path(o, twin) or is_prefix_path(twin, o) for o in own_paths):
                continue
            parent = resolve(body, twin[:-1])
            if parent is not MISSING and not isinstance(parent, dict):
                continue
            set_path(body, twin + [k], dict(TWIN_RECORD))
            n += 1
            break
    flags["twins"] = n


def gen_scenario(rng, big: bool = False) -> dict:
    spec, shape = gen_storage_spec(rng)
    desc = expected_leaves(spec)
    ann_leaves = [d for d in desc if d["t"] == "ann"]
    prefixes = [d["prefix"] for d in ann_leaves]
    plen = len(prefixes[0]) if prefixes else 16
    k, idshape, band = gen_id(rng, plen)
    body, flags = gen_body(rng, prefixes)
    # other handlers whose records are already on the object
    others: list[str] = []
    other_kinds: list[str] = []
    for _ in range(rng.choice([0, 1, 1, 2, 3])):
        r = rng.random()
        if r < 0.40:
            o, okind = gen_id(rng, plen)[0], "independent"
        elif r < 0.62:
            base = k if len(k) >= 64 else (k + "/" + "x".join(ident(rng, 8, 12) for _ in range(8)))[:rng.randint(64, 120)]
            cut = rng.randint(58, max(58, len(base) - 1))
            o = base[:cut] + ident(rng, 1, 8) + rng.choice(ALNUM)
            o, okind = o[:300], "shared-prefix"
        elif r < 0.80:
            idx = [i for i, c in enumerate(k) if c in "/.<>_"]
            if idx:
                i = rng.choice(idx)
                swap = {"/": ".", ".": "/", "<": rng.choice(">_"), ">": rng.choice("<_"), "_": rng.choice("<>")}[k[i]]
                o, okind = k[:i] + swap + k[i + 1:], "safe-variant"
            else:
                o, okind = k + "/sub", "child"
        elif r < 0.85:
            o, okind = (k + "/" + ident(rng))[:300], "child"
        elif r < 0.90:
            o, okind = k.translate(SAFE_TABLE), "safe-form"
        else:
            o, okind = "", "forged"      # filled in by run_scenario from the generated name of k (needs the storage)
        if o != k and o not in others:
            others.append(o)
            other_kinds.append(okind)
    rec, rkind = gen_record(rng, *((0.7, 0.3) if big else (0.05, 0.002)))
    old = None
    if rng.random() < 0.25:
        # an older record of the same handler: same key set as the new one (kopf writes all keys)
        old = [[kk, rng.choice([None, "old", 1, True])] for kk, _ in rec]
    legacy = [[kk, rng.choice(["legacy", 0, False])] for kk, _ in rec[:3]] if (shape in ("smart", "nested") and rng.random() < 0.35) else None
    corrupt = None
    if rng.random() < 0.10:
        # (the hidden-field kinds twice: objects the operator has to live with since kopf 571b1b2, judged by the oracle)
        corrupt = rng.choice(CORRUPT_KINDS + list(HIDDEN_KINDS))
    prior = rng.random() < 0.3          # the patch already carries another handler's record
    dspec = gen_dstorage_spec(rng, prefixes[0] if prefixes else "kopf.zalando.org")
    essence = sort_keys_deep({"spec": {"field": gen_value(rng), "n": rng.randint(0, 9)},
                              **({"metadata": {"labels": {"a": "b"}, "annotations": {"note": rng.choice(UNI)}}} if rng.random() < 0.5 else {})})
    r = rng.random()
    if r < (1.0 if big else 0.04):
        # a last-handled state of a realistic worst case (a ConfigMap with a file in it, a long list)
        if rng.random() < 0.7:
            essence["spec"]["blob"] = big_text(rng, huge=big and rng.random() < 0.5)
        else:
            essence["spec"]["items"] = [{"name": "item-%d" % i, "value": i} for i in range(rng.choice([100, 1000, 4000]))]
        essence = sort_keys_deep(essence)       # (the driver receives objects with sorted keys; json.dumps keeps the order)
    if rng.random() < 0.5 and corrupt is None:
        add_twins(rng, body, flags, k, desc, expected_dleaves(dspec))
    return {"storage": spec, "shape": shape, "id": k, "idshape": idshape, "band": band, "body": body, "flags": flags,
            "others": others, "other_kinds": other_kinds,
            "other_records": [gen_record(rng)[0] for _ in others],
            "other_has_record": [rng.random() < 0.65 for _ in others], "record": rec, "rkind": rkind, "old": old,
            "corrupt": corrupt, "legacy": legacy, "prior": prior, "touch": rng.choice([None, "2020-12-31T23:59:59.000001", "значение", ""]),
            "restore": rng.choice(["after-purge", "after-record", "after-record-and-purge", "after-purge-and-record", "after-purge", "after-record"]),
            "dstorage": dspec, "essence": essence}


# =============================================================================================
# one scenario through the real code, with the oracle; returns the driver requests to compare
# =============================================================================================
class Out:
    def __init__(self) -> None:
        self.reqs: list[Any] = []          # driver lines
        self.impl: list[Any] = []          # what the implementation answered to the same question
        self.what: list[str] = []
        self.fails: list[tuple[str, dict]] = []   # oracle failures: (what, signature)
        self.tags: dict[str, Any] = {}

    def ask(self, what: str, req: list, impl: Any) -> None:
        self.reqs.append(req)
        self.impl.append(impl)
        self.what.append(what)

    def fail(self, what: str, sig: dict) -> None:
        if (what, sig) not in self.fails:
            self.fails.append((what, sig))


def rec_dict(rec: list[list[Any]]) -> dict:
    return {k: copy.deepcopy(v) for k, v in rec}


def classify_name(full: str, prefix: str, mk: str, which: str, problems: list[str]) -> dict:
    """Signature of an invalid generated name: the two known input classes, or a generic one."""
    name = full[len(prefix) + 1:] if full.startswith(prefix + "/") else full
    safe = mk.translate(SAFE_TABLE)
    if "charset" in problems and set(problems) <= {"charset", "edge"}:
        bad = {c for c in name if not (c in ALNUM or c in "-_.")}
        foreign = {c for c in mk if c not in ALPHABET}
        edge_ok = "edge" not in problems or (safe[0] not in ALNUM and name[0] == safe[0]) or (safe[-1] not in ALNUM and name[-1] == safe[-1])
        if bad and bad <= foreign and edge_ok:
            return SIG_CHARSET
    if problems == ["edge"]:
        first_bad = name[0] not in ALNUM and name[0] == safe[0]
        last_bad = name[-1] not in ALNUM and name == safe   # unsuffixed name ending as the id ends
        first_ok = name[0] in ALNUM
        last_ok = name[-1] in ALNUM
        if (first_bad or first_ok) and (last_bad or last_ok):
            return SIG_EDGE
    if which == "v1" and len(prefix) >= 55 and set(problems) <= {"edge", "too-long"} and len(safe) > 63 - len(prefix) - 1:
        if ("too-long" in problems and len(prefix) > 55) or name.startswith("-"):
            return SIG_V1LONG
    if which == "v1" and len(prefix) >= 55 and "edge" in problems and set(problems) <= {"edge", "too-long"}:
        # long prefix and an id whose own edges are bad as well
        if safe[0] not in ALNUM or safe[-1] not in ALNUM:
            return SIG_V1LONG
    return {"site": "make_keys", "shape": "invalid annotation name", "problems": problems, "which": which}


def verbatim(x: str) -> bool:
    """the id is its own V2 name: at most 63 characters, safe form alphanumeric at both ends"""
    sx = x.translate(SAFE_TABLE)
    return 0 < len(x) <= 63 and sx[0] in ALNUM and sx[-1] in ALNUM


def classify_sharing(mk: str, mo: str, leaves: Iterable[tuple[str, bool]] = ()) -> dict:
    """Two distinct (marked) ids whose records interfere: which known input class is it?
    `leaves` = (prefix, v1) of the annotation storages involved. The classes are decided on the names the ids
    are EXPECTED to live under (the pinned format, not the code under test): interference of two ids that share
    no expected name is never a known class."""
    sk, so = mk.translate(SAFE_TABLE), mo.translate(SAFE_TABLE)
    found: list[dict] = []
    for prefix, v1 in leaves:
        pk, po = pinned_parts(mk, prefix, v1), pinned_parts(mo, prefix, v1)
        for n in pk:
            if n not in po:
                continue
            k_verb, o_verb = (n == sk), (n == so)          # the name IS the id's safe form / is re-formed
            if k_verb and o_verb:
                found.append(SIG_SAFEFORM)                 # F6d: one safe form, one annotation
            elif k_verb != o_verb:
                found.append(SIG_FORGED)                   # F6e: one id spells the re-formed (hashed / re-edged) name of the other
            elif sk == so:
                found.append(SIG_SAFEFORM)                 # F6d beyond the own V1 name: the hashed V1 name is the digest of the SAFE form
            elif {pinned_suffix(mk), pinned_suffix(sk)} & {pinned_suffix(mo), pinned_suffix(so)}:
                found.append(SIG_DIGEST)                   # F6b: same kept characters, same 32-bit digest
    for sig in (SIG_SAFEFORM, SIG_FORGED, SIG_DIGEST):
        if sig in found:
            return sig
    return {"site": "make_keys", "shape": "distinct handler ids interfere", "class": "unknown"}


def run_scenario(sc: dict, out: Out, with_driver: bool = True) -> None:
    conventions, progress, diffbase, bodies, patches = _kopf()
    S = build_storage(sc["storage"])
    desc = describe(S)
    tdesc = describe_tree(S)
    k: str = sc["id"]
    base: dict = copy.deepcopy(sc["body"])
    Body = bodies.Body
    ann_leaves = [l for l in leaves(S) if isinstance(l, progress.AnnotationsProgressStorage)]
    status_leaves = [l for l in leaves(S) if isinstance(l, progress.StatusProgressStorage)]
    # what the operator asked for (constructor arguments, setters): the oracle judges against THAT, not against the attributes
    # the storage object shows (a storage that silently lives elsewhere shares or loses records)
    xdesc = expected_leaves(sc["storage"])
    xann = [d for d in xdesc if d["t"] == "ann"]
    xstatus = [XLeaf(tuple(d["field"]), tuple(d["touch_field"])) for d in xdesc if d["t"] == "status"]
    if leanio.canon(desc) != leanio.canon(xdesc):
        out.fail(f"the storage built from {sc['storage']!r} is configured as {desc!r}, not as {xdesc!r}",
                 {"site": "constructor/setter", "shape": "storage configuration not honoured"})
    prefixes = [d["prefix"] for d in xann]
    drs = bool(sc["flags"].get("drs"))
    mk = k + "-ofDRS" if drs else k
    tags = out.tags
    tags.update({"shape": sc.get("shape"), "band": sc.get("band"), "idshape": sc.get("idshape"), "rkind": sc.get("rkind"),
                 "drs": drs, "corrupt": sc.get("corrupt"), "prior": bool(sc.get("prior")), "old": sc.get("old") is not None,
                 "others": len(sc["others"])})

    def new_patch(src: Any = None) -> Any:
        return patches.Patch(copy.deepcopy(src) if src else None)

    # ---- A. keys -------------------------------------------------------------------------------
    own_names: list[str] = []
    hashed = False
    twokeys = False
    for li, leaf in enumerate(ann_leaves):
        xp = xann[li]["prefix"] if li < len(xann) else leaf.prefix
        keys = list(leaf.make_keys(k, body=Body(base)))
        own_names += keys
        # determinism: a fresh storage object, built from the same arguments, gives the same names
        fresh = [l for l in leaves(build_storage(sc["storage"])) if isinstance(l, progress.AnnotationsProgressStorage)][li]
        again = list(fresh.make_keys(k, body=Body(copy.deepcopy(base))))
        if again != keys or list(leaf.make_keys(k, body=Body(base))) != keys:
            out.fail(f"annotation names differ between two storage objects / two calls: {keys} vs {again}",
                     {"site": "make_keys", "shape": "non-deterministic names"})
        marked_expected = drs
        # the marking itself, from the statement: ReplicaSets owned by Deployments get their own names
        unmarked = list(leaf.make_keys(k))
        if marked_expected and unmarked == keys:
            out.fail("a ReplicaSet owned by a Deployment uses the same annotation names as its owner would",
                     {"site": "mark_key", "shape": "owned ReplicaSet not marked"})
        if not marked_expected and unmarked != keys:
            out.fail("an object that is not a Deployment-owned ReplicaSet got marked names", {"site": "mark_key", "shape": "marked without reason"})
        for i, full in enumerate(keys):
            which = "v2" if i == 0 else "v1"
            if not full.startswith(xp + "/"):
                out.fail(f"generated name {full!r} is not under the storage prefix {xp!r}",
                         {"site": "make_keys", "shape": "name outside the own prefix"})
                continue
            probs = name_problems(full)
            if probs:
                out.fail(f"invalid Kubernetes annotation name {full!r} for id {k!r} ({which}; {','.join(probs)})",
                         classify_name(full, xp, mk, which, probs))
            tags["invalid"] = tags.get("invalid", 0) + (1 if probs else 0)
        if len(keys) > 1:
            twokeys = True
        part0 = keys[0][len(xp) + 1:]
        if part0 != mk.translate(SAFE_TABLE):
            tags["reformed"] = True
        if len(mk) > 63 or len(keys) > 1 or part0 != mk.translate(SAFE_TABLE):
            hashed = True
            # the persisted format of re-formed names is pinned (an upgraded operator must find its records):
            # cut-and-hashed names end with the digest of the id, re-edged ones with that of the id or of its safe form
            sfx_ok = keys[0].endswith(pinned_suffix(mk)) if len(mk) > 63 else True
            if part0 != mk.translate(SAFE_TABLE) and not (part0.endswith(pinned_suffix(mk)) or part0.endswith(pinned_suffix(mk.translate(SAFE_TABLE)))):
                sfx_ok = False
            if not sfx_ok:
                out.fail(f"hashed name {keys[0]!r} does not carry the blake2b-32/base64 suffix {pinned_suffix(mk)!r}",
                         {"site": "make_suffix", "shape": "persisted name format changed"})
        if with_driver:
            out.ask("keys", ["C16.keys", {"prefix": leaf.prefix, "v1": bool(leaf.v1)}, sfx_table([k]), drs, k], ["ok", keys])
    tags["hashed"] = hashed
    tags["twokeys"] = twokeys
    if with_driver:
        out.ask("isdrs", ["C16.isdrs", base], ["ok", drs_of(ann_leaves, conventions, Body(base))])

    # ---- put the other handlers' records (and maybe an older own record) on the object -----------
    others: list[str] = list(sc["others"])
    okinds = list(sc.get("other_kinds") or ["independent"] * len(others))
    for i, o in enumerate(others):
        if okinds[i] == "forged":
            # an id equal to the name part generated for k (possible when that name is over the alphabet)
            # (the re-formed V2 name of k — cut-and-hashed, or re-edged since c2cffd8 — spelled as an id)
            cand = own_names[0][len(prefixes[0]) + 1:] if (own_names and prefixes and own_names[0][len(prefixes[0]) + 1:] != mk.translate(SAFE_TABLE)) else ""
            if len(own_names) > 1 and own_names[1].startswith(prefixes[0] + "/") and (not cand or len(k) % 2):
                cand = own_names[1][len(prefixes[0]) + 1:]      # the hashed / re-edged V1 name of k, spelled as an id
            others[i] = cand if (cand and cand != k and all(c in ALPHABET for c in cand)) else k + "/forged"
    body0 = copy.deepcopy(base)
    writable = True
    has_rec = list(sc.get("other_has_record") or [True] * len(others))
    recorded = [o for o, h in zip(others, has_rec) if h]
    D = build_dstorage(sc["dstorage"])
    dann = [l for l in leaves(D) if isinstance(l, diffbase.AnnotationsDiffBaseStorage)]
    xddesc = expected_dleaves(sc["dstorage"])
    xdann = [d for d in xddesc if d["t"] == "ann"]
    if leanio.canon(ddescribe(D)) != leanio.canon(xddesc):
        out.fail(f"the diff-base storage built from {sc['dstorage']!r} is configured as {ddescribe(D)!r}, not as {xddesc!r}",
                 {"site": "constructor/setter", "shape": "storage configuration not honoured"})
    lv = [(d["prefix"], d["v1"]) for d in xann]

    def marked(x: str) -> str:
        return x + "-ofDRS" if drs else x

    # names the storages use themselves, as (prefix, id-as-the-storage-forms-it)
    def known_prefix(px: str) -> bool:      # detected as Kopf's own without a marker (kopf ef55390)
        return px == "kopf.zalando.org" or px.endswith(".kopf.zalando.org")
    reserved_ids = [(d["prefix"], "kopf-managed") for d in xann if not known_prefix(d["prefix"])]
    reserved_ids += [(d["prefix"], marked(d["touch_key"])) for d in xann]
    reserved_ids += [(d["prefix"], marked(d["key"])) for d in xdann]

    def reserved(mid: str) -> bool:
        """the id is (or, both taken verbatim, has the safe form of) a name the storages use themselves"""
        return any(px in prefixes and (mid == res or (verbatim(mid) and verbatim(res) and mid.translate(SAFE_TABLE) == res.translate(SAFE_TABLE)))
                   for px, res in reserved_ids)

    def vs_reserved(mid: str) -> dict | None:
        """the id against the storages' own keys: the same name (F6g), or one of the id-sharing classes
        (an id may as well forge / share the safe form of / collide in digest with the touch or diff-base key)"""
        if reserved(mid):
            return SIG_RESERVED
        for px, res in reserved_ids:
            if px in prefixes and res != "kopf-managed":
                c = classify_sharing(mid, res, lv)
                if c.get("class") != "unknown":
                    return c
        return None

    def classify_pair(ma: str, mb: str) -> dict:
        """two (marked) ids interfering: a known input class, or 'unknown'"""
        c = classify_sharing(ma, mb, lv)
        if c.get("class") != "unknown":
            return c
        return vs_reserved(ma) or vs_reserved(mb) or c

    def classify_one(mid: str, site: str, shape: str) -> dict:
        return vs_reserved(mid) or {"site": site, "shape": shape}

    for o, orec, h in zip(others, sc["other_records"], has_rec):
        if not h:
            continue
        p = new_patch()
        r = call(S.store, key=o, record=rec_dict(orec), body=Body(body0), patch=p)
        if r[0] != "ok":
            writable = False
            break
        body0 = merge_patch(body0, jsonable(dict(p)))
    body_wo_k = copy.deepcopy(body0)       # the object before any record of k was put on it
    if sc.get("old") is not None:
        p = new_patch()
        call(S.store, key=k, record=rec_dict(sc["old"]), body=Body(body0), patch=p)
        body0 = merge_patch(body0, jsonable(dict(p)))
    if sc.get("legacy") is not None:
        # a record left in the status stanza by an older kopf (what Smart's read-and-purge-only status leaf is for)
        for leaf in status_leaves:
            if isinstance(leaf, progress.NoWriteStatusProgressStorage):
                set_path(body0, list(leaf.field) + [k], rec_dict(sc["legacy"]))
                tags["legacy"] = True
    corrupt = sc.get("corrupt")
    patch0: dict = {}
    if corrupt:
        body0, patch0 = apply_corruption(corrupt, body0, own_names, status_leaves, k,
                                         dfields=[list(l.field) for l in leaves(D) if isinstance(l, diffbase.StatusDiffBaseStorage)])
    elif sc.get("prior"):
        p = new_patch()
        call(S.store, key="prior-handler/x", record={"started": "2020-01-01T00:00:00", "retries": 1, "message": None}, body=Body(body0), patch=p)
        patch0 = jsonable(dict(p))
    judge = corrupt is None and writable   # the oracle speaks about well-formed objects only

    def fetch_all(body: dict) -> dict[str, Any]:
        return {o: call(S.fetch, key=o, body=Body(body)) for o in others}

    before0 = merge_patch(body0, patch0) if judge else body0    # what the object would be without this store
    before_others = fetch_all(before0) if judge else {}
    if judge:
        # an id that never stored a record reads nothing (whatever else is on the object)
        holders = [marked(o) for o in recorded] + ([mk] if (sc.get("old") is not None or sc.get("legacy") is not None) else []) \
            + (["prior-handler/x" + ("-ofDRS" if drs else "")] if sc.get("prior") else [])
        blank = [o for o, h in zip(others, has_rec) if not h]
        if sc.get("old") is None and sc.get("legacy") is None:
            blank = blank + [k]
        for o in blank:
            got0 = call(S.fetch, key=o, body=Body(before0))
            if got0 != ["ok", None]:
                mo = marked(o)
                sig = next((c for c in (classify_pair(mo, h) for h in holders if h != mo) if c.get("class") != "unknown"),
                           vs_reserved(mo) or {"site": "fetch", "shape": "an id without a stored record reads something", "class": "unknown"})
                out.fail(f"handler {o!r} never stored a record but reads {got0!r} (records on the object: {holders!r})", sig)
        tags["blank_ids"] = len(blank)

    # ---- B. store + fetch -------------------------------------------------------------------------
    rec = rec_dict(sc["record"])
    p = new_patch(patch0)
    r = call(S.store, key=k, record=copy.deepcopy(rec), body=Body(body0), patch=p)
    p1 = jsonable(dict(p)) if r[0] == "ok" else None
    if with_driver:
        out.ask("store", ["C16.store", tdesc, sfx_table([k]), body0, patch0, k, sc["record"]], ["ok", p1] if r[0] == "ok" else r)
    writes = any(d["t"] == "ann" or not d["nowrite"] for d in xdesc)
    # (a patch corrupted by the scenario is not applied: it would corrupt metadata itself)
    body1 = merge_patch(body0, p1) if (p1 is not None and not (corrupt or "").startswith("patch-")) else body0
    f1 = call(S.fetch, key=k, body=Body(body1))
    if with_driver:
        out.ask("fetch", ["C16.fetch", tdesc, sfx_table([k]), body1, k], jsonable(f1))
        out.ask("fetch-before", ["C16.fetch", tdesc, sfx_table([k]), body0, k], jsonable(call(S.fetch, key=k, body=Body(body0))))
    if judge and r[0] != "ok":
        out.fail(f"store of a record for {k!r} raises {r[1]} on a well-formed object",
                 classify_one(mk, "store", "operation raises on a well-formed object"))
    if judge and r[0] == "ok" and writes:
        want = drop_nulls(rec)
        got = f1[1] if f1[0] == "ok" else f1
        if xdesc and xdesc[0]["t"] == "ann" and xdesc[0]["verbose"] and f1[0] == "ok" and got is not None \
                and differs(jsonable(got), jsonable(rec)):
            out.fail(f"verbose storage does not read the record back identically (nulls included): stored {rec!r}, fetched {got!r}",
                     {"site": "store/fetch", "shape": "round-trip mismatch (verbose)"})
        collided = [o for o in others if set(own_names) & set(n for l in ann_leaves for n in l.make_keys(o, body=Body(base)))]
        if f1[0] != "ok" or got is None or differs(drop_nulls(jsonable(got)), jsonable(want)):
            sig = {"site": "store/fetch", "shape": "round-trip mismatch"}
            # a record of a colliding other id read through a name this id does not write can only
            # come from known sharing classes
            out.fail(f"stored record is not read back: stored {want!r}, fetched {got!r}", sig)
        tags["roundtrip"] = True
        check_isolation(out, sc, S, "store", k, mk, others, drs, before0, body1, before_others, own_names, prefixes, xstatus, desc, Body, classify_pair)
        if collided:
            tags["collided"] = True
    # ---- B2. the record is stored AGAIN on the object that now carries it, into a patch that holds something else for the
    # ---- handler (a purge, another record, both): "whatever record is stored ... is read back identically from the patched
    # ---- object" speaks about the record stored LAST, whatever the object and the patch held before
    how = sc.get("restore") or ("after-purge", "after-record", "after-record-and-purge", "after-purge-and-record")[(len(k) + len(rec)) % 4]
    if r[0] == "ok" and p1 is not None and not corrupt:
        other_rec = {kk: ("2019-12-31T23:59:59.999999" if kk in ("started", "stopped", "delayed") else
                          (7 if not isinstance(v, int) or isinstance(v, bool) else v + 1)) for kk, v in rec.items()}
        other_rec.setdefault("retries", 41)
        p = new_patch()
        pre_ok = True
        for stp in how.split("-")[1:]:
            if stp == "purge":
                pre_ok = pre_ok and call(S.purge, key=k, body=Body(body1), patch=p)[0] == "ok"
            elif stp == "record":
                pre_ok = pre_ok and call(S.store, key=k, record=copy.deepcopy(other_rec), body=Body(body1), patch=p)[0] == "ok"
        pin7 = jsonable(dict(p))
        r7 = call(S.store, key=k, record=copy.deepcopy(rec), body=Body(body1), patch=p)
        p7 = jsonable(dict(p)) if r7[0] == "ok" else None
        if with_driver:
            out.ask("store-again", ["C16.store", tdesc, sfx_table([k]), body1, pin7, k, sc["record"]], ["ok", p7] if r7[0] == "ok" else r7)
        if judge and writes and pre_ok and tags.get("roundtrip"):
            tags["restore"] = how
            if r7[0] != "ok":
                out.fail(f"storing the record of {k!r} again ({how}) raises {r7[1]} on a well-formed object",
                         classify_one(mk, "store", "operation raises on a well-formed object"))
            else:
                body7 = merge_patch(body1, p7)
                f7 = call(S.fetch, key=k, body=Body(body7))
                got7 = f7[1] if f7[0] == "ok" else f7
                verbose7 = bool(xdesc and xdesc[0]["t"] == "ann" and xdesc[0]["verbose"])
                if f7[0] != "ok" or got7 is None or differs(drop_nulls(jsonable(got7)), jsonable(drop_nulls(rec))) \
                        or (verbose7 and differs(jsonable(got7), jsonable(rec))):
                    out.fail(f"the record stored last is not read back ({how}, in one patch, on the object that carries the record): "
                             f"stored {drop_nulls(rec)!r}, fetched {got7!r}",
                             {"site": "store/fetch", "shape": "round-trip mismatch: the record stored last, after something else was pending for the handler"})
                check_isolation(out, sc, S, "store-again", k, mk, others, drs, body1, body7, fetch_all(body1), own_names, prefixes, xstatus, desc, Body, classify_pair)
    # ---- C. purge ---------------------------------------------------------------------------------
    p = new_patch()
    r2 = call(S.purge, key=k, body=Body(body1), patch=p)
    p2 = jsonable(dict(p)) if r2[0] == "ok" else None
    if with_driver:
        out.ask("purge", ["C16.purge", tdesc, sfx_table([k]), body1, {}, k], ["ok", p2] if r2[0] == "ok" else r2)
    body2 = merge_patch(body1, p2) if p2 is not None else body1
    f2 = call(S.fetch, key=k, body=Body(body2))
    if with_driver:
        out.ask("fetch-after-purge", ["C16.fetch", tdesc, sfx_table([k]), body2, k], jsonable(f2))
    # purge in the same patch as the store (nothing of k may remain in it that the body does not need)
    p = new_patch(p1 if p1 is not None else patch0)
    r3 = call(S.purge, key=k, body=Body(body0), patch=p)
    p3 = jsonable(dict(p)) if r3[0] == "ok" else None
    if with_driver:
        out.ask("purge-same-patch", ["C16.purge", tdesc, sfx_table([k]), body0, p1 if p1 is not None else patch0, k],
                ["ok", p3] if r3[0] == "ok" else r3)
    if judge and r2[0] != "ok":
        out.fail(f"purge of the record of {k!r} raises {r2[1]} on a well-formed object",
                 classify_one(mk, "purge", "operation raises on a well-formed object"))
    if judge and r2[0] == "ok":
        if f2 != ["ok", None]:
            out.fail(f"after purge the record of {k!r} is still fetched: {f2!r}", {"site": "purge", "shape": "record still readable after purge"})
        colliding = any(classify_pair(mk, marked(o)).get("class") != "unknown" for o in others)
        anns2 = (body2.get("metadata") or {}).get("annotations") or {}
        for name in own_names:
            if name in anns2:
                out.fail(f"after purge the annotation {name!r} of {k!r} is still on the object", {"site": "purge", "shape": "own annotation left after purge"})
        for leaf in xstatus:
            cont = resolve(body2, leaf.field)
            if isinstance(cont, dict) and k in cont:
                out.fail(f"after purge the status record of {k!r} is still on the object", {"site": "purge", "shape": "own status record left after purge"})

        def minus_own(b: dict) -> dict:
            b = strip_markers(b)
            a_ = (b.get("metadata") or {}).get("annotations")
            if isinstance(a_, dict):
                for name in own_names:      # names shared with another id (v1 of equal safe forms) are this id's as well
                    a_.pop(name, None)
            return prune(b)
        left = minus_own(body2)
        want_left = minus_own(merge_patch(body_wo_k, patch0))
        if differs(left, want_left) and not colliding:
            out.fail("purge leaves something of the handler's record behind (or removes something else): "
                     f"{diff_keys(want_left, left)}", {"site": "purge", "shape": "object differs from the one before the record was stored"})
        if r3[0] == "ok":
            body3 = merge_patch(body0, p3)
            f3 = call(S.fetch, key=k, body=Body(body3))
            if f3 != ["ok", None]:
                out.fail(f"store then purge in one patch still yields a record: {f3!r}", {"site": "purge", "shape": "record survives purge in the same patch"})
        check_isolation(out, sc, S, "purge", k, mk, others, drs, body1, body2, fetch_all(body1), own_names, prefixes, xstatus, desc, Body, classify_pair)
    # ---- D. touch ---------------------------------------------------------------------------------
    tv = sc.get("touch")
    p = new_patch(patch0 if corrupt else None)
    r4 = call(S.touch, body=Body(body1), patch=p, value=tv)
    p4 = jsonable(dict(p)) if r4[0] == "ok" else None
    tkeys = [l.touch_key for l in ann_leaves]
    if with_driver:
        out.ask("touch", ["C16.touch", tdesc, sfx_table(tkeys), body1, patch0 if corrupt else {}, tv], ["ok", p4] if r4[0] == "ok" else r4)
    if judge and r4[0] != "ok":
        out.fail(f"touch({tv!r}) raises {r4[1]} on a well-formed object", {"site": "touch", "shape": "operation raises on a well-formed object"})
    if judge and r4[0] == "ok":
        body4 = merge_patch(body1, p4)
        check_foreign(out, "touch", body1, body4, prefixes, xstatus, touch=True)
        # a second touch with the same value on the touched object has nothing to change
        p = new_patch()
        call(S.touch, body=Body(body4), patch=p, value=tv)
        again = {kk: vv for kk, vv in drop_marker_patch(jsonable(dict(p))).items()}
        if again and tv is not None:
            out.fail(f"touching twice with the same value patches again: {again!r}", {"site": "touch", "shape": "touch not idempotent"})
        # a touch changes no handler's record
        for o in [k] + others:
            b4, a4 = call(S.fetch, key=o, body=Body(body1)), call(S.fetch, key=o, body=Body(body4))
            if differs(jsonable(b4), jsonable(a4)):
                out.fail(f"touch({tv!r}) changes what handler {o!r} reads: {b4!r} → {a4!r}",
                         classify_one(marked(o), "touch", "touch changes a handler's record"))
        for leaf in ann_leaves:
            tnames = list(leaf.make_keys(leaf.touch_key, body=Body(body1)))
            for full in tnames:
                probs = name_problems(full)
                if probs:
                    out.fail(f"invalid touch annotation name {full!r}", classify_name(full, leaf.prefix, leaf.touch_key + ("-ofDRS" if drs else ""), "v2" if full == tnames[0] else "v1", probs))
    # ---- E. clear ---------------------------------------------------------------------------------
    essence_in = copy.deepcopy(body1)
    snapshot = copy.deepcopy(essence_in)
    r5 = call(S.clear, essence=essence_in)
    if with_driver:
        out.ask("clear", ["C16.clear", tdesc, body1], jsonable(r5))
    if judge and r5[0] != "ok":
        out.fail(f"clear() raises {r5[1]} on a well-formed object", {"site": "clear", "shape": "operation raises on a well-formed object"})
    if judge and r5[0] == "ok":
        cleared = r5[1]
        if essence_in != snapshot:
            out.fail("clear() modified the essence it was given", {"site": "clear", "shape": "input mutated"})
        anns = (cleared.get("metadata") or {}).get("annotations") or {}
        for name in anns:
            if any(name.startswith(px + "/") for px in prefixes):
                out.fail(f"clear() keeps the storage's own annotation {name!r}", {"site": "clear", "shape": "own annotation kept"})
        for name, val in ((snapshot.get("metadata") or {}).get("annotations") or {}).items():
            if not any(name.startswith(px + "/") for px in prefixes) and anns.get(name, None) != val:
                out.fail(f"clear() drops or changes the foreign annotation {name!r}", {"site": "clear", "shape": "foreign annotation changed"})
        for leaf in xstatus:
            if resolve(cleared, leaf.field) is not MISSING:
                out.fail(f"clear() keeps the storage's own status field {'.'.join(leaf.field)}", {"site": "clear", "shape": "own field kept"})
        own_fields = [list(l.field) for l in xstatus] + [list(l.touch_field) for l in xstatus]
        for leaf in xstatus:
            if resolve(cleared, leaf.touch_field) is not MISSING:
                out.fail(f"clear() keeps the storage's own touch field {'.'.join(leaf.touch_field)}", {"site": "clear", "shape": "own field kept"})
        if without_own(cleared, prefixes, own_fields) != without_own(snapshot, prefixes, own_fields):
            out.fail("clear() changed something that is not the storage's own: "
                     f"{diff_keys(without_own(snapshot, prefixes, own_fields), without_own(cleared, prefixes, own_fields))}",
                     {"site": "clear", "shape": "foreign stanza changed"})
    # ---- F. diff-base storage -----------------------------------------------------------------------
    ddesc = ddescribe_tree(D)
    essence = sc["essence"]
    dkeys = [l.key for l in dann]
    if judge:
        # a progress store / purge does not change the last-handled state
        d0, d1, d2 = (call(D.fetch, body=Body(b)) for b in (before0, body1, body2))
        if d0 != ["ok", None]:
            # no last-handled state was ever stored on this object (whatever somebody else's objects and operators left on it)
            out.fail(f"a last-handled state {d0!r} is read from an object on which none was stored (records on it: {holders!r})",
                     next((c for c in (vs_reserved(h) for h in holders) if c),
                          {"site": "diffbase.fetch", "shape": "a last-handled state is read although none was stored", "class": "unknown"}))
        for opname, da, db in (("store", d0, d1), ("purge", d1, d2)):
            if differs(jsonable(da), jsonable(db)):
                out.fail(f"{opname} of the record of {k!r} changes the last-handled state: {da!r} → {db!r}",
                         classify_one(mk, opname, "progress record changes the last-handled state"))
    p = new_patch(p1 if (p1 is not None and not corrupt) else None)
    pin = jsonable(dict(p))
    r6 = call(D.store, body=Body(body0), patch=p, essence=copy.deepcopy(essence))
    p6 = jsonable(dict(p)) if r6[0] == "ok" else None
    if with_driver:
        out.ask("dstore", ["C16.dstore", ddesc, sfx_table(dkeys), body0, pin, essence], ["ok", p6] if r6[0] == "ok" else r6)
    if judge and r6[0] != "ok":
        out.fail(f"storing the last-handled state raises {r6[1]} on a well-formed object",
                 {"site": "diffbase store/fetch", "shape": "operation raises on a well-formed object"})
    if p6 is not None:
        body6 = merge_patch(body0, p6)
        f6 = call(D.fetch, body=Body(body6))
        if with_driver:
            out.ask("dfetch", ["C16.dfetch", ddesc, sfx_table(dkeys), body6], jsonable(f6))
            out.ask("dfetch-before", ["C16.dfetch", ddesc, sfx_table(dkeys), body0], jsonable(call(D.fetch, body=Body(body0))))
        if judge:
            if differs(jsonable(f6), ["ok", essence]):
                out.fail(f"last-handled state is not read back: stored {essence!r}, fetched {f6!r}", {"site": "diffbase store/fetch", "shape": "round-trip mismatch"})
            for leaf in dann:
                for i, full in enumerate(leaf.make_keys(leaf.key, body=Body(body0))):
                    probs = name_problems(full)
                    if probs:
                        out.fail(f"invalid diff-base annotation name {full!r}",
                                 classify_name(full, leaf.prefix, leaf.key + ("-ofDRS" if drs else ""), "v2" if i == 0 else "v1", probs))
            # the same state stored again on the object that carries it, after another one was put into the same patch
            # (the last one stored is the one read back)
            essence2 = sort_keys_deep({"spec": {"other": "state"}, "metadata": {"labels": {"x": "y"}}})
            p = new_patch()
            ra = call(D.store, body=Body(body6), patch=p, essence=copy.deepcopy(essence2))
            pin8 = jsonable(dict(p))
            r8 = call(D.store, body=Body(body6), patch=p, essence=copy.deepcopy(essence))
            if with_driver and ra[0] == "ok":
                out.ask("dstore-again", ["C16.dstore", ddesc, sfx_table(dkeys), body6, pin8, essence], ["ok", jsonable(dict(p))] if r8[0] == "ok" else r8)
            if ra[0] != "ok" or r8[0] != "ok":
                out.fail(f"storing the last-handled state again raises {(ra if ra[0] != 'ok' else r8)[1]} on a well-formed object",
                         {"site": "diffbase store/fetch", "shape": "operation raises on a well-formed object"})
            else:
                f8 = call(D.fetch, body=Body(merge_patch(body6, jsonable(dict(p)))))
                if differs(jsonable(f8), ["ok", essence]):
                    out.fail(f"the last-handled state stored last (after another one in the same patch, on the object that carries it) is not "
                             f"read back: stored {essence!r}, fetched {f8!r}",
                             {"site": "diffbase store/fetch", "shape": "round-trip mismatch: the state stored last, after another one was pending"})
            dprefixes = [d["prefix"] for d in xdann]
            dstatus = [XLeaf(tuple(d["field"])) for d in xddesc if d["t"] == "status"]
            check_foreign(out, "diffbase-store", merge_patch(body0, pin), body6, dprefixes, dstatus, touch=False)
            # storing the last-handled state changes no handler's record
            bpin = merge_patch(body0, pin)
            for o in [k] + others:
                b6, a6 = call(S.fetch, key=o, body=Body(bpin)), call(S.fetch, key=o, body=Body(body6))
                if differs(jsonable(b6), jsonable(a6)):
                    out.fail(f"storing the last-handled state changes what handler {o!r} reads: {b6!r} → {a6!r}",
                             classify_one(marked(o), "diffbase-store", "last-handled state changes a handler's record"))
            # the essence built from the patched object does not contain the storage's own annotations
            for leaf in dann:
                built = call(leaf.build, body=Body(body6))
                if built[0] == "ok":
                    banns = (built[1].get("metadata") or {}).get("annotations") or {}
                    for full in leaf.make_keys(leaf.key, body=Body(body6)):
                        if full in banns:
                            out.fail(f"build() keeps the diff-base's own annotation {full!r} in the essence", {"site": "diffbase.build", "shape": "own annotation kept"})
    # ---- G. objects with a non-mapping value on the way to a status field (judged since kopf 571b1b2) ------------
    if corrupt:
        # the object as it is found (before this handler stored anything): clear and touch on it, for the tie
        if with_driver:
            out.ask("clear-before", ["C16.clear", tdesc, body0], jsonable(call(S.clear, essence=copy.deepcopy(body0))))
            pt = new_patch()
            rt = call(S.touch, body=Body(body0), patch=pt, value=tv)
            out.ask("touch-before", ["C16.touch", tdesc, sfx_table(tkeys), body0, {}, tv], ["ok", jsonable(dict(pt))] if rt[0] == "ok" else rt)
    if corrupt in HIDDEN_KINDS and writable:
        special = vs_reserved(mk) is not None or any(classify_pair(mk, marked(o)).get("class") != "unknown" for o in others)
        judge_hidden(out, sc, S, D, body0, k, mk, own_names, xdesc, xddesc, Body, new_patch, classify_one, special)


MISSING = object()


class XLeaf:
    """a status leaf as the configuration asks for it"""
    def __init__(self, field: tuple, touch_field: tuple = ()) -> None:
        self.field, self.touch_field = field, touch_field


def resolve(d: Any, path: Iterable[str]) -> Any:
    for k in path:
        if not isinstance(d, dict) or k not in d:
            return MISSING
        d = d[k]
    return d


def drs_of(ann_leaves: list, conventions: Any, body: Any) -> bool:
    obj = conventions.CollisionEvadingConvention()
    return obj.mark_key("k", body=body) != "k"


def blocked_prefixes(body: dict, fields: Iterable[list[str]]) -> list[list[str]]:
    """for every field path that runs into a non-mapping value of `body` strictly above its end: the path of that value"""
    out: list[list[str]] = []
    for f in fields:
        d: Any = body
        for i, key in enumerate(f[:-1]):
            if not isinstance(d, dict) or key not in d:
                break
            d = d[key]
            if not isinstance(d, dict):
                if list(f[:i + 1]) not in out:
                    out.append(list(f[:i + 1]))
                break
    return out


def drop_falsy_stanzas(b: dict) -> dict:
    """`remove_empty_stanzas` of the cleaners: an empty (falsy) `status` / `metadata` is no data"""
    return {k: v for k, v in b.items() if not (k in ("status", "metadata") and not v)}


def judge_hidden(out: Out, sc: dict, S: Any, D: Any, body0: dict, k: str, mk: str, own_names: list[str], xdesc: list[dict],
                 xddesc: list[dict], Body: Any, new_patch: Any, classify_one: Any, special: bool) -> None:
    """The property on an object that holds a non-mapping value (a string, a number, a list, null) on the way to a field of a
    status storage — `status: "a string"`, `status.kopf: 7` (schemaless CRDs, a user's mistake; kopf 571b1b2 / C04-F13):
    the hidden field is an absent field. No operation raises; the id reads nothing before its store, reads its record from the
    patched object, nothing after the purge; whatever is not the storages' own — the value in the way included, until a store
    or a touch has to replace it by the mapping it writes into — stays as it is; `clear` and `build` keep it (it is user data)."""
    kind = sc["corrupt"]
    prefixes = [d["prefix"] for d in xdesc if d["t"] == "ann"]
    dprefixes = [d["prefix"] for d in xddesc if d["t"] == "ann"]
    rec_fields = [list(d["field"]) for d in xdesc if d["t"] == "status"]
    touch_fields = [list(d["touch_field"]) for d in xdesc if d["t"] == "status"]
    dfields = [list(d["field"]) for d in xddesc if d["t"] == "status"]
    own_fields = rec_fields + touch_fields + dfields
    blocked = blocked_prefixes(body0, own_fields)
    out.tags["hidden"] = "none"
    if not blocked:
        return                 # nothing of this configuration is hidden by this value (the tie still compares everything)
    for f in rec_fields + dfields:
        v = resolve(body0, f)
        if v is not MISSING and v is not None and not isinstance(v, dict if f in rec_fields else str):
            return             # a field that itself holds a value of the wrong type is another matter (compared, not judged)
    out.tags["hidden"] = "judged"
    what = f"object with {HIDDEN_VALUES.get(kind, None)!r} at {'/'.join(blocked[0])} ({kind})"
    writes = any(d["t"] == "ann" or not d["nowrite"] for d in xdesc)

    def raises(op: str, r: list) -> bool:
        if r[0] != "ok":
            out.fail(f"{op} raises {r[1]} on an {what}", classify_one(mk, op, "operation raises on an object whose status field is hidden behind a non-mapping value"))
            return True
        return False

    def strip(b: dict) -> dict:
        return without_own(b, prefixes + dprefixes, own_fields + blocked)

    def foreign(op: str, before: dict, after: dict) -> None:
        if differs(strip(before), strip(after)):
            out.fail(f"{op} on an {what} changes data that is not the storages' own: {diff_keys(strip(before), strip(after))}",
                     {"site": op, "shape": "foreign data changed on an object whose status field is hidden"})

    fresh = sc.get("old") is None and sc.get("legacy") is None
    rec = rec_dict(sc["record"])
    f0 = call(S.fetch, key=k, body=Body(body0))
    if not raises("fetch", f0) and fresh and not special and f0[1] is not None:
        out.fail(f"handler {k!r} never stored a record but reads {f0[1]!r} from an {what}",
                 {"site": "fetch", "shape": "an id without a stored record reads something (hidden status field)"})
    # store, read back
    p = new_patch()
    r1 = call(S.store, key=k, record=copy.deepcopy(rec), body=Body(body0), patch=p)
    p1 = jsonable(dict(p))
    if not raises("store", r1):
        body1 = merge_patch(body0, p1)
        foreign("store", body0, body1)
        f1 = call(S.fetch, key=k, body=Body(body1))
        if not raises("fetch", f1) and writes and not special:
            if f1[1] is None or differs(drop_nulls(jsonable(f1[1])), jsonable(drop_nulls(rec))):
                out.fail(f"record stored on an {what} is not read back: stored {drop_nulls(rec)!r}, fetched {f1[1]!r}",
                         {"site": "store/fetch", "shape": "round-trip mismatch (hidden status field)"})
        # purge from the patched object
        p = new_patch()
        r2 = call(S.purge, key=k, body=Body(body1), patch=p)
        if not raises("purge", r2):
            body2 = merge_patch(body1, jsonable(dict(p)))
            foreign("purge", body1, body2)
            f2 = call(S.fetch, key=k, body=Body(body2))
            if not raises("fetch", f2) and not special and f2[1] is not None:
                out.fail(f"after purge the record of {k!r} is still fetched from an {what}: {f2[1]!r}",
                         {"site": "purge", "shape": "record still readable after purge (hidden status field)"})
            anns2 = (body2.get("metadata") or {}).get("annotations") or {}
            for f in rec_fields:
                cont = resolve(body2, f)
                if isinstance(cont, dict) and k in cont:
                    out.fail(f"after purge the status record of {k!r} is still on the object ({what})",
                             {"site": "purge", "shape": "own status record left after purge (hidden status field)"})
            if not special and any(n in anns2 for n in own_names):
                out.fail(f"after purge an annotation of {k!r} is still on the object ({what})",
                         {"site": "purge", "shape": "own annotation left after purge (hidden status field)"})
        # store and purge in one patch, decided on the object as it was found
        p = new_patch(p1)
        r3 = call(S.purge, key=k, body=Body(body0), patch=p)
        if not raises("purge", r3) and fresh and not special:
            f3 = call(S.fetch, key=k, body=Body(merge_patch(body0, jsonable(dict(p)))))
            if f3 != ["ok", None]:
                out.fail(f"store then purge in one patch on an {what} still yields a record: {f3!r}",
                         {"site": "purge", "shape": "record survives purge in the same patch (hidden status field)"})
    # touch
    p = new_patch()
    tv = sc.get("touch")
    r4 = call(S.touch, body=Body(body0), patch=p, value=tv)
    if not raises("touch", r4):
        foreign("touch", body0, merge_patch(body0, jsonable(dict(p))))
    # clear: the value in the way is not the storage's (nothing is removed from under it, and it stays)
    essence_in = copy.deepcopy(body0)
    r5 = call(S.clear, essence=essence_in)
    if not raises("clear", r5):
        cleared = r5[1]
        if differs(essence_in, body0):
            out.fail(f"clear() modified the essence it was given ({what})", {"site": "clear", "shape": "input mutated"})
        for name in (cleared.get("metadata") or {}).get("annotations") or {}:
            if any(name.startswith(px + "/") for px in prefixes):
                out.fail(f"clear() keeps the storage's own annotation {name!r} ({what})", {"site": "clear", "shape": "own annotation kept"})
        for f in rec_fields + touch_fields:
            if resolve(cleared, f) is not MISSING:
                out.fail(f"clear() keeps the storage's own field {'.'.join(f)} ({what})", {"site": "clear", "shape": "own field kept"})
        own_clear = rec_fields + touch_fields
        b, a = drop_falsy_stanzas(without_own(body0, prefixes, own_clear)), drop_falsy_stanzas(without_own(cleared, prefixes, own_clear))
        if differs(b, a):
            out.fail(f"clear() on an {what} changed something that is not the storage's own: {diff_keys(b, a)}",
                     {"site": "clear", "shape": "foreign stanza changed on an object whose status field is hidden"})
    # the last-handled state
    d0 = call(D.fetch, body=Body(body0))
    raises("diffbase.fetch", d0)
    bd = call(D.build, body=Body(body0))
    if not raises("diffbase.build", bd):
        for f in dfields:
            if resolve(bd[1], f) is not MISSING:
                out.fail(f"build() keeps the diff-base's own field {'.'.join(f)} ({what})", {"site": "diffbase.build", "shape": "own field kept"})
    # ... with handlers that watch the value in the way (`field='status'`: it is restored into the essence, the storage's own
    # field is hidden behind it) and a field behind it (hidden as well: an absent field)
    extra = [tuple(b) for b in blocked] + [tuple(b) + ("user", "field") for b in blocked]
    bx = call(D.build, body=Body(body0), extra_fields=extra)
    if not raises("diffbase.build", bx):
        for b in blocked:
            v = resolve(body0, b)
            if v and differs(resolve(bx[1], b) if resolve(bx[1], b) is not MISSING else "<absent>", v):
                out.fail(f"build() with a handler's field {'.'.join(b)} does not keep the value {v!r} found there ({what})",
                         {"site": "diffbase.build", "shape": "a handler's field is not restored (hidden status field)"})
    p = new_patch()
    essence = sc["essence"]
    r6 = call(D.store, body=Body(body0), patch=p, essence=copy.deepcopy(essence))
    if not raises("diffbase.store", r6):
        body6 = merge_patch(body0, jsonable(dict(p)))
        foreign("diffbase.store", body0, body6)
        f6 = call(D.fetch, body=Body(body6))
        if not raises("diffbase.fetch", f6) and xddesc and differs(jsonable(f6), ["ok", essence]):
            out.fail(f"last-handled state stored on an {what} is not read back: fetched {f6!r}",
                     {"site": "diffbase store/fetch", "shape": "round-trip mismatch (hidden status field)"})
        bd6 = call(D.build, body=Body(body6))
        if not raises("diffbase.build", bd6):
            for f in dfields:
                if resolve(bd6[1], f) is not MISSING:
                    out.fail(f"build() keeps the diff-base's own field {'.'.join(f)} ({what})", {"site": "diffbase.build", "shape": "own field kept"})


def strip_markers(body: dict) -> dict:
    b = copy.deepcopy(body)
    anns = (b.get("metadata") or {}).get("annotations")
    if isinstance(anns, dict):
        for name in list(anns):
            if name.endswith("/kopf-managed") and anns[name] == "yes":
                del anns[name]
    return b


def drop_marker_patch(p: dict) -> dict:
    q = copy.deepcopy(p)
    anns = (q.get("metadata") or {}).get("annotations")
    if isinstance(anns, dict):
        for name in list(anns):
            if name.endswith("/kopf-managed"):
                del anns[name]
    return prune(q)


def diff_keys(a: Any, b: Any, path: str = "") -> list[str]:
    if isinstance(a, dict) and isinstance(b, dict):
        out = []
        for k in sorted(set(a) | set(b)):
            if k not in a:
                out.append(f"+{path}/{k}")
            elif k not in b:
                out.append(f"-{path}/{k}")
            else:
                out += diff_keys(a[k], b[k], f"{path}/{k}")
        return out[:8]
    return [] if not differs(a, b) else [f"~{path}"]


CORRUPT_KINDS = ["ann-not-json", "ann-json-null", "ann-json-scalar", "ann-number", "status-progress-str", "status-progress-null",
                 "patch-metadata-str", "patch-annotations-null", "patch-status-null", "patch-status-str"]
# a non-mapping value ON THE WAY to a storage's status field (strictly above it): the field is hidden, not corrupted.
# Since kopf 571b1b2 (C04-F13) every operation of every storage has to live with such an object; the oracle judges them.
HIDDEN_KINDS = ("status-kopf-str", "status-null", "status-str", "status-list", "status-zero", "status-kopf-num", "status-kopf-list",
                "status-kopf-false", "touch-parent-num", "dstatus-parent-str")
HIDDEN_VALUES = {"status-kopf-str": "corrupted", "status-str": "a string", "status-list": [1, {"kopf": {"progress": {}}}], "status-zero": 0,
                 "status-kopf-num": 7, "status-kopf-list": ["progress"], "status-kopf-false": False, "touch-parent-num": 7,
                 "dstatus-parent-str": "corrupted"}


def apply_corruption(kind: str, body: dict, own_names: list[str], status_leaves: list, k: str,
                     dfields: Iterable[list[str]] = ()) -> tuple[dict, dict]:
    body = copy.deepcopy(body)
    patch: dict = {}
    anns = body.setdefault("metadata", {}).setdefault("annotations", {})
    first = own_names[0] if own_names else "kopf.zalando.org/" + k[:20]
    field0 = list(status_leaves[0].field) if status_leaves else ["status", "kopf", "progress"]
    touch0 = list(status_leaves[0].touch_field) if status_leaves else ["status", "kopf", "dummy"]
    dfield0 = next(iter([list(f) for f in dfields]), ["status", "kopf", "last-handled-configuration"])
    if kind in ("status-str", "status-list", "status-zero"):
        body[field0[0]] = copy.deepcopy(HIDDEN_VALUES[kind])
        return body, patch
    if kind in ("status-kopf-num", "status-kopf-list", "status-kopf-false"):
        set_path(body, field0[:-1] if len(field0) > 1 else field0, copy.deepcopy(HIDDEN_VALUES[kind]))
        return body, patch
    if kind == "touch-parent-num":
        set_path(body, touch0[:-1] if len(touch0) > 1 else touch0, HIDDEN_VALUES[kind])
        return body, patch
    if kind == "dstatus-parent-str":
        set_path(body, dfield0[:-1] if len(dfield0) > 1 else dfield0, HIDDEN_VALUES[kind])
        return body, patch
    if kind in ("patch-status-null", "patch-status-str"):
        # a patch that already holds a non-mapping where the status storages write (dicts.ensure raises TypeError)
        return body, {field0[0]: None if kind == "patch-status-null" else "oops"}
    if kind == "ann-not-json":
        anns[first] = "{not json"
    elif kind == "ann-json-null":
        anns[first] = "null"
        if len(own_names) > 1:
            anns[own_names[1]] = "{\"retries\":7}"
    elif kind == "ann-json-scalar":
        anns[first] = "5"
    elif kind == "ann-number":
        anns[first] = 5
    elif kind.startswith("status-"):
        field = list(status_leaves[0].field) if status_leaves else ["status", "kopf", "progress"]
        if kind == "status-progress-str":
            set_path(body, field, "corrupted")
        elif kind == "status-progress-null":
            set_path(body, field, None)
        elif kind == "status-kopf-str":
            set_path(body, field[:-1] if len(field) > 1 else field, "corrupted")
        elif kind == "status-null":
            body[field[0]] = None
    elif kind == "patch-metadata-str":
        patch = {"metadata": "oops"}
    elif kind == "patch-annotations-null":
        patch = {"metadata": {"annotations": None}}
    return body, patch


def set_path(d: dict, path: list[str], value: Any) -> None:
    for k in path[:-1]:
        if not isinstance(d.get(k), dict):
            d[k] = {}
        d = d[k]
    d[path[-1]] = value


def without_own(body: dict, prefixes: list[str], own_fields: list[list[str]]) -> dict:
    """The object minus everything that belongs to the storages (their prefix, their fields), pruned."""
    b = copy.deepcopy(body)
    anns = (b.get("metadata") or {}).get("annotations")
    if isinstance(anns, dict):
        for name in list(anns):
            if any(name.startswith(px + "/") for px in prefixes):
                del anns[name]
    for f in own_fields:
        parent = resolve(b, f[:-1])
        if isinstance(parent, dict):
            parent.pop(f[-1], None)
    return prune(b)


def check_foreign(out: Out, op: str, before: dict, after: dict, prefixes: list[str], status_leaves: list, touch: bool) -> None:
    """Everything that is not the storage's own (its prefix, its status fields) is identical."""
    own_fields = [list(l.field) for l in status_leaves]
    own_fields += [list(l.touch_field) for l in status_leaves if getattr(l, "touch_field", None)]
    b, a = without_own(before, prefixes, own_fields), without_own(after, prefixes, own_fields)
    if differs(b, a):
        d = diff_keys(b, a)
        shape = "annotation outside the own prefix changed" if any("/metadata/annotations" in x for x in d) else "foreign stanza changed"
        out.fail(f"{op} changes data that is not the storage's own: {d}", {"site": op, "shape": shape})


def check_isolation(out: Out, sc: dict, S: Any, op: str, k: str, mk: str, others: list[str], drs: bool, before: dict, after: dict,
                    before_others: dict, own_names: list[str], prefixes: list[str], status_leaves: list, desc: list, Body: Any,
                    classify_pair: Any = None) -> None:
    check_foreign(out, op, before, after, prefixes, status_leaves, touch=False)
    # other handlers read what they read before
    for o in others:
        now = call(S.fetch, key=o, body=Body(after))
        if differs(jsonable(now), jsonable(before_others.get(o))):
            mo = o + "-ofDRS" if drs else o
            out.fail(f"{op} of {k!r} changes what handler {o!r} reads: {before_others.get(o)!r} → {now!r}",
                     classify_pair(mk, mo) if classify_pair else classify_sharing(mk, mo, [(d["prefix"], d["v1"]) for d in desc if d["t"] == "ann"]))
    # own-prefix annotations: only names of this handler (and the marker) may change
    ba = (before.get("metadata") or {}).get("annotations") or {}
    aa = (after.get("metadata") or {}).get("annotations") or {}
    for name in set(ba) | set(aa):
        if ba.get(name, MISSING) != aa.get(name, MISSING) and name not in own_names and not name.endswith("/kopf-managed"):
            out.fail(f"{op} of {k!r} changes annotation {name!r}, which is not one of its names {own_names!r}",
                     {"site": op, "shape": "annotation of another key changed"})
    # status containers: other handlers' entries untouched
    for leaf in status_leaves:
        bc, ac = resolve(before, leaf.field), resolve(after, leaf.field)
        bc = bc if isinstance(bc, dict) else {}
        ac = ac if isinstance(ac, dict) else {}
        for name in set(bc) | set(ac):
            if name != k and bc.get(name, MISSING) != ac.get(name, MISSING):
                out.fail(f"{op} of {k!r} changes the status record of {name!r}", {"site": op, "shape": "status record of another key changed"})



# =============================================================================================
# sequences: several handlers' stores and purges, touches and diff-base stores accumulated in ONE patch over a body
# that stays as it is until the patch is applied — the way a handling cycle uses the storages.  The oracle is a
# dictionary: after every applied patch each id reads the last record stored for it (nothing if purged or never stored),
# the last-handled state reads as the last one stored, and everything that is not the storages' own is as it was.
# =============================================================================================
def gen_full_record(rng) -> list[list[Any]]:
    """all nine ProgressRecord keys (as kopf writes them), some of them None"""
    while True:
        rec, kind = gen_record(rng)
        if kind == "full":
            return rec


def gen_sequence(rng) -> dict:
    while True:
        spec, shape = gen_storage_spec(rng)
        xdesc = expected_leaves(spec)
        if not any(d["t"] == "ann" or not d["nowrite"] for d in xdesc):
            continue
        if xdesc[0]["t"] == "ann" and rng.random() < 0.4:
            continue          # more sequences over storages that read the status stanza first (the annotations are the usual head)
        break
    prefixes = [d["prefix"] for d in xdesc if d["t"] == "ann"]
    plen = len(prefixes[0]) if prefixes else 16
    ids: list[str] = []
    for _ in range(rng.randint(2, 5)):
        r = rng.random()
        if ids and r < 0.15:
            k = (ids[0] + "/" + ident(rng))[:300]                       # a sub-handler of the first one
        elif ids and r < 0.30:
            base = ids[0] if len(ids[0]) >= 64 else (ids[0] + "/" + "x".join(ident(rng, 8, 12) for _ in range(8)))[:rng.randint(64, 120)]
            k = (base[:rng.randint(58, max(58, len(base) - 1))] + ident(rng, 1, 8) + rng.choice(ALNUM))[:300]   # shares a long prefix
        else:
            k = gen_id(rng, plen)[0]
        if k not in ids:
            ids.append(k)
    body, flags = gen_body(rng, prefixes)
    dspec = gen_dstorage_spec(rng, prefixes[0] if prefixes else "kopf.zalando.org")

    # VALUES COME BACK: a handler that is retried, a timer, a daemon stores the very record the object already carries (or the
    # one it stored a moment ago), and the last-handled state of an unchanged object is the one already stored.  Every id draws
    # from a small pool of records (its own earlier ones, sometimes another id's), the essences from a pool as well: what is
    # written is then often EQUAL to what the object holds or to what is pending in the patch — next to something else
    # pending for the same place (another record, a purge).
    pools: dict[int, list] = {}
    used: list = []
    essences: list = []

    def a_record(i: int) -> list:
        r = rng.random()
        mine = pools.setdefault(i, [])
        if mine and r < 0.45:
            return copy.deepcopy(rng.choice(mine))
        if used and r < 0.52:
            rec = copy.deepcopy(rng.choice(used))          # the same content under another id
        else:
            rec = gen_full_record(rng)
        mine.append(rec)
        used.append(rec)
        return copy.deepcopy(rec)

    def an_essence() -> Any:
        if essences and rng.random() < 0.4:
            return copy.deepcopy(rng.choice(essences))
        e = sort_keys_deep({"spec": {"field": gen_value(rng), "n": rng.randint(0, 9)}})
        essences.append(e)
        return copy.deepcopy(e)

    def one_op() -> list:
        r = rng.random()
        i = rng.randrange(len(ids))
        if r < 0.40:
            return ["store", i, a_record(i)]
        if r < 0.65:
            return ["purge", i]
        if r < 0.72:
            return ["touch", rng.choice([None, "2020-12-31T23:59:59.000001", "значение", ""])]
        if r < 0.82:
            return ["dstore", an_essence()]
        return ["commit"]
    ops = [one_op() for _ in range(rng.randint(4, 16))]
    if rng.random() < 0.5:
        # the object carries record A of a handler (a patch was applied); in the next patch the handler's place holds something
        # else — another record, a purge, both — before A is stored again; or A is stored and then withdrawn / overwritten.
        # The same for the last-handled state.  What is read after the patch is what the LAST operation left.
        i = rng.randrange(len(ids))
        A, B = a_record(i), gen_full_record(rng)
        how = rng.choice(["purge-A", "B-A", "B-purge-A", "purge-B-A", "A-purge", "A-B", "A-purge-A", "essence", "touch"])
        if how == "essence":
            E, E2 = an_essence(), sort_keys_deep({"spec": {"n": rng.randint(10, 99), "other": gen_value(rng)}})
            tail = [["dstore", E2], ["dstore", copy.deepcopy(E)]] if rng.random() < 0.7 else [["dstore", copy.deepcopy(E)], ["dstore", E2]]
            mid = [["dstore", E], ["commit"]] + tail
        elif how == "touch":
            tv = rng.choice(["2020-12-31T23:59:59.000001", "значение"])
            mid = [["store", i, A], ["touch", tv], ["commit"], ["purge", i], ["touch", tv], ["store", i, copy.deepcopy(A)]]
        else:
            step = {"A": lambda: ["store", i, copy.deepcopy(A)], "B": lambda: ["store", i, copy.deepcopy(B)], "purge": lambda: ["purge", i]}
            mid = [["store", i, A], ["commit"]] + [step[s]() for s in how.split("-")]
            if rng.random() < 0.3:
                mid.insert(rng.randint(2, len(mid)), rng.choice([["touch", "значение"], ["dstore", an_essence()],
                                                                   ["store", (i + 1) % len(ids), a_record((i + 1) % len(ids))]]))
        if rng.random() < 0.5:
            mid.append(["commit"])
        at = rng.randint(0, len(ops))
        ops[at:at] = mid
    if rng.random() < 0.6 and len(ids) >= 2:
        # what every cycle does: records of several handlers pending in the patch, one of them finished and purged at once
        a, b = rng.sample(range(len(ids)), 2)
        at = rng.randint(0, len(ops))
        mid = [["store", a, gen_full_record(rng)], ["store", b, gen_full_record(rng)]]
        if rng.random() < 0.5:
            mid.insert(rng.randint(0, 2), ["dstore", sort_keys_deep({"spec": {"n": rng.randint(0, 9)}})])
        if rng.random() < 0.4:
            mid = [["store", a, gen_full_record(rng)], ["commit"], ["purge", a], ["store", b, gen_full_record(rng)]]
        ops[at:at] = mid + [["purge", b]]
    if rng.random() < 0.5:
        add_twins(rng, body, flags, ids[0], xdesc, expected_dleaves(dspec))
    elif rng.random() < 0.2:
        # the object holds a non-mapping value on the way to a status field (kopf 571b1b2): the cycle goes on as on any other object
        hk = rng.choice(HIDDEN_KINDS)
        xs = [XLeaf(tuple(d["field"]), tuple(d["touch_field"])) for d in xdesc if d["t"] == "status"]
        body, _ = apply_corruption(hk, body, [], xs, ids[0], dfields=[d["field"] for d in expected_dleaves(dspec) if d["t"] == "status"])
        flags["hidden"] = hk
    return {"kind": "sequence", "storage": spec, "shape": shape, "dstorage": dspec, "ids": ids, "body": body, "flags": flags, "ops": ops}


def run_sequence(sc: dict, out: Out, with_driver: bool = True) -> None:
    conventions, progress, diffbase, bodies, patches = _kopf()
    S, D = build_storage(sc["storage"]), build_dstorage(sc["dstorage"])
    Body = bodies.Body
    tdesc, ddesc = describe_tree(S), ddescribe_tree(D)
    xdesc, xddesc = expected_leaves(sc["storage"]), expected_dleaves(sc["dstorage"])
    xann = [d for d in xdesc if d["t"] == "ann"]
    xdann = [d for d in xddesc if d["t"] == "ann"]
    prefixes = [d["prefix"] for d in xann]
    dprefixes = [d["prefix"] for d in xdann]
    own_fields = [d["field"] for d in xdesc + xddesc if d["t"] == "status"] + [d["touch_field"] for d in xdesc if d["t"] == "status"]
    ids: list[str] = sc["ids"]
    drs = bool(sc["flags"].get("drs"))
    tags = out.tags
    tags.update({"shape": sc.get("shape"), "drs": drs, "seq_ids": len(ids), "seq_ops": len(sc["ops"])})

    def marked(x: str) -> str:
        return x + "-ofDRS" if drs else x
    lv = [(d["prefix"], d["v1"]) for d in xann]
    # names the storages use themselves; ids that share a name with one another or with those are known input classes
    # (F6b/d/e/g, judged by the single-id scenarios): such a sequence is compared with the model, not judged
    own_ids = [(d["prefix"], marked(d["touch_key"])) for d in xann] + [(d["prefix"], marked(d["key"])) for d in xdann] \
        + [(d["prefix"], "kopf-managed") for d in xann + xdann]
    all_lv = lv + [(d["prefix"], d["v1"]) for d in xdann]

    def names_of(mid: str) -> set[str]:
        return {px + "/" + part for px, v1 in all_lv for part in pinned_parts(mid, px, v1)}
    own_names_of = {px + "/" + part for px, res in own_ids for _, v1 in [(px, True)] for part in pinned_parts(res, px, True)}
    conflict = False
    for i, a in enumerate(ids):
        na = names_of(marked(a))
        if na & own_names_of:
            conflict = True
        for b in ids[i + 1:]:
            if na & names_of(marked(b)):
                conflict = True
    status_paths = [list(f) for f in own_fields]
    if any(i != j and is_prefix_path(a, b) for i, a in enumerate(status_paths) for j, b in enumerate(status_paths)):
        conflict = True       # one storage configured inside another one's field (e.g. the same field twice)
    tags["seq_conflict"] = conflict
    judge = not conflict
    base = copy.deepcopy(sc["body"])
    # a non-mapping value of the object on the way to a status field is replaced by the mapping the first store / touch writes
    # into: from the storages' point of view that place is theirs (everything else of the object stays as it was)
    blocked = blocked_prefixes(base, own_fields)
    own_plus = own_fields + blocked
    tags["seq_hidden"] = sc["flags"].get("hidden") if blocked else None
    body = copy.deepcopy(base)
    patch = patches.Patch()
    ref: dict[int, Any] = {}
    ref_essence: Any = None
    replay_note = {"site": "sequence"}
    dkeys = [d["key"] for d in xdann]
    tkeys = [d["touch_key"] for d in xann]
    commits = [0]
    committed: dict[int, Any] = {}          # what the object carries (the dictionary at the last applied patch)
    committed_essence: list[Any] = [None]
    events: set[str] = set()

    def verify(when: str) -> None:
        for i, k in enumerate(ids):
            got = call(S.fetch, key=k, body=Body(body))
            if with_driver:
                out.ask("seq-fetch", ["C16.fetch", tdesc, sfx_table([k]), body, k], jsonable(got))
            want = ref.get(i)
            if judge:
                g = drop_nulls(jsonable(got[1])) if (got[0] == "ok" and got[1] is not None) else (None if got[0] == "ok" else got)
                if differs(g, want):
                    out.fail(f"{when}: handler {k!r} reads {got!r}; the last operation on it left {want!r} "
                             f"(ids {ids!r}, ops {[o[:2] for o in sc['ops']]!r})",
                             {**replay_note, "shape": "a handler's record is not the one last stored / is there after its purge"})
        dgot = call(D.fetch, body=Body(body))
        if with_driver:
            out.ask("seq-dfetch", ["C16.dfetch", ddesc, sfx_table(dkeys), body], jsonable(dgot))
        if judge and differs(jsonable(dgot), ["ok", ref_essence]):
            out.fail(f"{when}: the last-handled state reads {dgot!r}; the last one stored is {ref_essence!r} (ops {[o[:2] for o in sc['ops']]!r})",
                     {**replay_note, "shape": "the last-handled state is not the one last stored"})
        if judge:
            b, a = without_own(base, prefixes + dprefixes, own_plus), without_own(body, prefixes + dprefixes, own_plus)
            if differs(b, a):
                out.fail(f"{when}: data that is not the storages' own changed: {diff_keys(b, a)}", {**replay_note, "shape": "foreign data changed"})

    def commit(when: str) -> None:
        nonlocal body, patch
        body = merge_patch(body, jsonable(dict(patch)))
        patch = patches.Patch()
        commits[0] += 1
        committed.clear()
        committed.update(ref)
        committed_essence[0] = ref_essence
        verify(when)

    def apply(n: int, op: list) -> bool:
        nonlocal ref_essence
        before = jsonable(dict(patch))
        if op[0] == "store":
            k = ids[op[1]]
            r = call(S.store, key=k, record=rec_dict(op[2]), body=Body(body), patch=patch)
            rq = ["C16.store", tdesc, sfx_table([k]), body, before, k, op[2]]
            newrec = drop_nulls(jsonable(rec_dict(op[2])))
            if not differs(committed.get(op[1]), newrec):
                # the record the object already carries is stored again: with or without something else pending for the handler
                events.add("restore/pending-" + ("nothing" if not differs(ref.get(op[1]), newrec) else ("purge" if ref.get(op[1]) is None else "record")))
            elif op[1] in ref and not differs(ref.get(op[1]), newrec):
                events.add("restore/same-as-pending")
            ref[op[1]] = newrec
        elif op[0] == "purge":
            k = ids[op[1]]
            r = call(S.purge, key=k, body=Body(body), patch=patch)
            rq = ["C16.purge", tdesc, sfx_table([k]), body, before, k]
            ref[op[1]] = None
        elif op[0] == "touch":
            r = call(S.touch, body=Body(body), patch=patch, value=op[1])
            rq = ["C16.touch", tdesc, sfx_table(tkeys), body, before, op[1]]
        elif op[0] == "dstore":
            r = call(D.store, body=Body(body), patch=patch, essence=copy.deepcopy(op[1]))
            rq = ["C16.dstore", ddesc, sfx_table(dkeys), body, before, op[1]]
            if committed_essence[0] is not None and not differs(committed_essence[0], op[1]):
                events.add("re-dstore/pending-" + ("nothing" if not differs(ref_essence, op[1]) else "essence"))
            ref_essence = op[1]
        else:
            raise ValueError(op)
        if with_driver:
            out.ask("seq-" + op[0], rq, ["ok", jsonable(dict(patch))] if r[0] == "ok" else r)
        if r[0] != "ok":
            if judge:
                out.fail(f"op {n} {op[:2]!r} raises {r[1]} on a well-formed object and patch", {**replay_note, "shape": "operation raises on a well-formed object"})
            return False
        return True

    alive = True
    for n, op in enumerate(sc["ops"]):
        if op[0] == "commit":
            commit(f"after the patch of ops ..{n}")
        elif not apply(n, op):
            alive = False
            break
    if alive:
        commit("after the last patch")
        # the end of every cycle: all handlers purged in one patch; nothing of them stays
        for i in range(len(ids)):
            if not apply(len(sc["ops"]) + i, ["purge", i]):
                alive = False
                break
    if alive:
        commit("after purging every handler in one patch")
        if judge:
            allowed = set((base.get("metadata") or {}).get("annotations") or {}) | own_names_of
            left = [n for n in ((body.get("metadata") or {}).get("annotations") or {})
                    if any(n.startswith(px + "/") for px in prefixes) and n not in allowed]
            if left:
                out.fail(f"after purging every handler, annotations {left!r} under the own prefix are still on the object",
                         {**replay_note, "shape": "own annotation left after purge"})
            for d in xdesc:
                if d["t"] == "status":
                    cont = resolve(body, d["field"])
                    stay = [k for k in ids if isinstance(cont, dict) and k in cont]
                    if stay:
                        out.fail(f"after purging every handler, status records of {stay!r} are still on the object",
                                 {**replay_note, "shape": "own status record left after purge"})
    tags["seq_commits"] = commits[0]
    tags["seq_events"] = sorted(events)


# =============================================================================================
# run
# =============================================================================================
def abstraction(sc: dict, tags: dict) -> tuple[str, bool]:
    spec = sc["storage"]
    if sc.get("kind") == "sequence":
        opsig = [o[0][0] + (str(o[1]) if o[0] in ("store", "purge") else "") for o in sc["ops"]]
        return leanio.canon(["seq", sc.get("shape"), tags.get("drs"), len(sc["ids"]), "".join(opsig), tags.get("seq_conflict"),
                             sc["flags"].get("kind"), sc["flags"].get("twins", 0) > 0, sc["flags"].get("hidden")]), True
    first_prefix = None
    for d in describe(build_storage(spec)):
        if d["t"] == "ann":
            first_prefix = d["prefix"]
            break
    pl = len(first_prefix) if first_prefix else -1
    pcls = "none" if pl < 0 else "default" if first_prefix == "kopf.zalando.org" else "<=16" if pl <= 16 else "<=54" if pl <= 54 else "55" if pl == 55 else "56+"
    rec = sc["record"]
    rflags = (any(v is None for _, v in rec), any(isinstance(v, str) and not v.isascii() for _, v in rec), len(rec))
    key = leanio.canon([sc.get("shape"), pcls, sc.get("band"), len(sc["id"]) if 40 <= len(sc["id"]) <= 70 else min(len(sc["id"]), 71) // 10,
                        sc.get("idshape"), sc["id"][0] in ALNUM, sc["id"][-1] in ALNUM, rflags, tags.get("drs"), tags.get("twokeys"),
                        tags.get("hashed"), tags.get("corrupt"), tags.get("prior"), tags.get("old"), tags.get("others"), sc["flags"].get("kind")])
    nontrivial = bool(tags.get("hashed") or tags.get("twokeys") or tags.get("drs") or any(c in SPECIAL for c in sc["id"])
                      or rflags[0] or rflags[1] or sc.get("shape") not in ("ann",) or tags.get("old") or tags.get("corrupt"))
    return key, nontrivial


def process(scs: list[dict], with_driver: bool) -> dict:
    """Run scenarios (worker side): implementation + oracle, then the driver, then compare."""
    res: dict[str, Any] = {"evaluations": 0, "keys": [], "hist": {}, "oracle": [], "tie": [], "comparisons": 0, "samples": [], "driver_error": None,
                           "sfx_bad": [], "sfx_seen": 0, "pid": os.getpid()}
    seen0, bad0 = SFX_SEEN[0], len(SFX_BAD)

    def count(g: str, t: Any, n: int = 1) -> None:
        h = res["hist"].setdefault(g, {})
        h[str(t)] = h.get(str(t), 0) + n

    reqs: list[Any] = []
    metas: list[tuple[int, str, Any]] = []
    for i, sc in enumerate(scs):
        out = Out()
        if sc.get("kind") == "sequence":
            run_sequence(sc, out, with_driver)
            key, nontrivial = abstraction(sc, out.tags)
            res["evaluations"] += 1
            res["keys"].append(key)
            for g in ("seq_ids", "seq_commits", "seq_conflict", "seq_hidden"):
                count(g, out.tags.get(g))
            count("seq_ops", "%02d-%02d" % (len(sc["ops"]) // 5 * 5, len(sc["ops"]) // 5 * 5 + 4))
            count("seq_shape", out.tags.get("shape"))
            count("seq_twins", sc["flags"].get("twins", 0) > 0)
            for ev in out.tags.get("seq_events") or ["none"]:
                count("seq_value_comes_back", ev)
            for w in out.what:
                count("ops", w)
            for what, sig in out.fails:
                res["oracle"].append({"what": what, "signature": sig, "replay": {"kind": "scenario", "scenario": sc}})
                count("oracle_failures", sig.get("shape"))
            for what, rq, im in zip(out.what, out.reqs, out.impl):
                reqs.append(rq)
                metas.append((i, what, im))
            continue
        run_scenario(sc, out, with_driver)
        key, nontrivial = abstraction(sc, out.tags)
        res["evaluations"] += 1
        if nontrivial:
            res["keys"].append(key)
        count("twins", sc["flags"].get("twins", 0) > 0)
        count("record_size", "big" if any(isinstance(v, str) and len(v) > 1000 or isinstance(v, list) and len(v) > 50 for _, v in sc["record"]) else "small")
        count("essence_size", "big" if len(json.dumps(sc["essence"])) > 1000 else "small")
        count("configured_by", "setter" if '"set"' in json.dumps(sc["storage"]) else "constructor")
        for g in ("shape", "band", "idshape", "rkind", "drs", "corrupt", "hidden", "hashed", "reformed", "twokeys", "others", "legacy", "blank_ids", "restore"):
            count(g, out.tags.get(g))
        count("id_length", "%03d-%03d" % (len(sc["id"]) // 20 * 20, len(sc["id"]) // 20 * 20 + 19))
        count("id_edges", ("alnum" if sc["id"][0] in ALNUM else "special") + "/" + ("alnum" if sc["id"][-1] in ALNUM else "special"))
        for kind in sc.get("other_kinds") or []:
            count("other_handler_kind", kind)
        for d in describe(build_storage(sc["storage"])):
            if d["t"] == "ann":
                count("prefix_length", len(d["prefix"]))
                count("v1", d["v1"])
        for w in out.what:
            count("ops", w)
        for r in out.impl:
            if isinstance(r, list) and r and r[0] == "err":
                count("impl_errors", r[1])
        for what, sig in out.fails:
            res["oracle"].append({"what": what, "signature": sig, "replay": {"kind": "scenario", "scenario": sc}})
            count("oracle_failures", sig.get("shape"))
        if i < 3:
            res["samples"].append({"storage": sc["storage"], "id": sc["id"], "record": sc["record"], "kind": sc["flags"].get("kind"),
                                   "drs": out.tags.get("drs"), "ops": out.what})
        for what, rq, im in zip(out.what, out.reqs, out.impl):
            reqs.append(rq)
            metas.append((i, what, im))
    res["sfx_seen"] = SFX_SEEN[0] - seen0
    res["sfx_bad"] = SFX_BAD[bad0:]
    if with_driver and reqs:
        try:
            answers = leanio.Driver([ID]).ask(reqs, timeout=3000)
        except leanio.LeanError:
            # other checks build in the same tree concurrently: make sure the driver modules are
            # built (under the lake lock) and ask once more before calling it a failure
            leanio.lake_build(leanio.Driver([ID]).build_targets())
            try:
                answers = leanio.Driver([ID]).ask(reqs, timeout=3000)
            except leanio.LeanError as e:
                res["driver_error"] = {"msg": str(e), "log": e.log[-2000:]}
                return res
        for (i, what, im), rq, ans in zip(metas, reqs, answers):
            res["comparisons"] += 1
            if leanio.canon(im) != leanio.canon(ans):
                if len(res["tie"]) < 20:
                    res["tie"].append({"what": f"C16 {what}", "impl": im, "model": ans, "request": rq,
                                       "replay": {"kind": "scenario", "scenario": scs[i]}})
    return res


def _worker(args: tuple[str, int, bool]) -> dict:
    import random
    tag, n, with_driver = args
    rng = random.Random(tag)
    if tag.startswith("seq"):
        scs = [gen_sequence(rng) for _ in range(n)]
    else:
        scs = [gen_scenario(rng, big=tag.startswith("big")) for _ in range(n)]
    return process(scs, with_driver)


def fold(ctx: Ctx, res: dict) -> None:
    ctx.evaluations += res["evaluations"]
    for k in res["keys"]:
        ctx.nontrivial.add(k)
    for g, h in res["hist"].items():
        for t, n in h.items():
            ctx.count(g, t, n)
    for s in res["samples"]:
        if len(ctx.samples) < 6:
            ctx.samples.append(s)
    ctx.tie_comparisons += res["comparisons"]
    ctx.traces += res["comparisons"]
    for f in res["oracle"]:
        # keep a few failures per distinct signature (never let one class crowd out another)
        sig = leanio.canon(f["signature"])
        seen = ctx.extra.setdefault("_per_signature", {})
        seen[sig] = seen.get(sig, 0) + 1
        if seen[sig] <= 3:
            ctx.oracle_fail(f["what"], f["replay"], f["signature"])
    for t in res["tie"]:
        if sum(1 for f in ctx.failures if f.kind == "tie") < 50:
            ctx.tie_fail(f"{t['what']}: implementation and model differ",
                         {"kind": "scenario", "scenario": t["replay"]["scenario"], "request": t["request"], "impl": t["impl"], "model": t["model"]})
    if res["driver_error"]:
        ctx.tie_fail("Lean driver failed: " + res["driver_error"]["msg"], res["driver_error"])
    ctx.count("suffix_contract", "checked (scenarios)", res.get("sfx_seen", 0))
    if res.get("pid") == os.getpid():
        ctx.extra["_sfx_main_scen"] = ctx.extra.get("_sfx_main_scen", 0) + res.get("sfx_seen", 0)
    for x, sfx in res.get("sfx_bad", [])[:3]:
        ctx.tie_fail(f"make_suffix({x!r}) = {sfx!r} is outside the shape the validity theorems assume (RealSfx)", {"kind": "suffix", "string": x, "suffix": sfx})


def run_pool(ctx: Ctx, total: int, with_driver: bool, tagbase: str) -> None:
    import multiprocessing as mp
    if ctx.tier != "thorough" and total <= 300:
        shards = [(f"{tagbase}-{ctx.seed}-0", total, with_driver)]
        fold(ctx, _worker(shards[0]))
        return
    nproc = min(16, os.cpu_count() or 4)
    per = 1500 if total > 20000 else max(100, total // nproc)
    shards = [(f"{tagbase}-{ctx.seed}-{i}", min(per, total - i * per), with_driver) for i in range((total + per - 1) // per)]
    with mp.get_context("fork").Pool(nproc) as pool:
        for res in pool.imap_unordered(_worker, shards):
            fold(ctx, res)


# =============================================================================================
# sight histories: the bodies the storages get come from kopf's REAL producers — the listing every operator does when it starts
# (`fetching.list_objs` through `watching.continuous_watch`) and the watch-stream (`watching.watch_objs`) — over a small
# Kubernetes-like server: a list names its kind & apiVersion ONCE ("ReplicaSetList"), the items of typed lists carry none.
# One object, several operator lives; records persisted at one sight must be found at every later one.
# =============================================================================================
SIGHT_KINDS = ["ReplicaSet", "ReplicaSet", "ReplicaSet", "ReplicaSet", "ReplicaSet", "Deployment", "Pod", "KopfExample", "Ingress",
               "EndpointSlice", "StatefulSet", "TodoList", "List", "ReplicaSetList", "Replica", "replicaset", "t"]
SIGHT_OPS = ["store-a", "store-b", "purge", "dstore-1", "dstore-2", "look"]


def gen_sights(rng) -> dict:
    while True:
        spec, shape = gen_storage_spec(rng)
        desc = expected_leaves(spec)
        xann = [d for d in desc if d["t"] == "ann"]
        if xann and any(d["t"] == "ann" or not d["nowrite"] for d in desc):
            break
    prefixes = [d["prefix"] for d in xann]
    dspec = gen_dstorage_spec(rng, prefixes[0])
    xdd = expected_dleaves(dspec)
    own_ids = {"kopf-managed"} | {d["touch_key"] for d in xann} | {d["key"] for d in xdd if d["t"] == "ann"}
    own_ids |= {x + "-ofDRS" for x in own_ids}
    while True:
        k, idshape, band = gen_id(rng, len(prefixes[0]))
        if k.translate(SAFE_TABLE) not in {x.translate(SAFE_TABLE) for x in own_ids} and not k.endswith("-ofDRS"):
            break
    kind = rng.choice(SIGHT_KINDS)
    owner = rng.choices(["deployment", "both", "other", "none"], weights=[60, 10, 15, 15])[0]
    refs = {"deployment": [{"apiVersion": "apps/v1", "kind": "Deployment", "name": "d", "uid": "u"}],
            "both": [{"apiVersion": "v1", "kind": "Job", "name": "j", "uid": "u"}, {"apiVersion": "apps/v1", "kind": "Deployment", "name": "d", "uid": "u"}],
            "other": [{"apiVersion": "v1", "kind": "Job", "name": "j", "uid": "u"}], "none": None}[owner]
    md: dict[str, Any] = {"name": "obj-" + ident(rng, 1, 5), "namespace": "ns", "uid": "uid-target", "resourceVersion": "100",
                          "labels": {"app": "x"}, "annotations": {"example.com/note": rng.choice(UNI), "plain": "hands off"}}
    if refs is not None:
        md["ownerReferences"] = refs
    body = {"apiVersion": "apps/v1", "kind": kind, "metadata": md, "spec": {"n": rng.randint(0, 5), "field": gen_value(rng)}}
    if rng.random() < 0.5:
        body["status"] = {"phase": "Running"}
    flags = {"drs": kind == "ReplicaSet" and owner in ("deployment", "both"), "kind": kind}
    if rng.random() < 0.7:
        add_twins(rng, body, flags, k, desc, xdd)
    recs = []
    for _ in range(2):
        rec = gen_full_record(rng)
        recs.append([[kk, ("2020-01-01T00:00:0%d" % len(recs)) if kk == "started" else v] for kk, v in rec])
    lives = []
    for li in range(rng.choice([2, 2, 3])):
        lives.append([rng.choice(SIGHT_OPS) for _ in range(rng.choice([1, 2, 2, 3]))])
    if not any(op.startswith("store") for op in lives[0]):
        lives[0][rng.randrange(len(lives[0]))] = "store-a"        # something is persisted in the first life
    return {"storage": spec, "shape": shape, "dstorage": dspec, "id": k, "idshape": idshape, "band": band, "body": body, "flags": flags,
            "records": recs, "essences": [sort_keys_deep({"spec": {"n": i, "field": gen_value(rng)}}) for i in (1, 2)],
            "items_kind": rng.choices(["none", "all", "others-only", "target-only"], weights=[70, 10, 10, 10])[0],
            "list_kind": rng.choices(["kind+List", "absent"], weights=[92, 8])[0],
            "bystanders": rng.choice([0, 1, 2]), "lives": lives}


class SightServer:
    """What the operator talks to: LIST and WATCH of one resource (stands for `api.get` / `api.stream`)."""

    def __init__(self, sc: dict) -> None:
        self.sc = sc
        self.obj = copy.deepcopy(sc["body"])
        self.rv = 100
        self.queue: list[dict] = []
        self.lists: list[tuple[dict, list]] = []
        self.by = []
        for i in range(sc.get("bystanders", 0)):
            b = copy.deepcopy(sc["body"])
            b["metadata"].update({"name": "bystander-%d" % i, "uid": "uid-by-%d" % i})
            b["metadata"].pop("ownerReferences", None)
            self.by.append(b)

    def apply(self, patch: dict) -> None:
        self.rv += 1
        self.obj = merge_patch(self.obj, patch)
        self.obj.setdefault("metadata", {})["resourceVersion"] = str(self.rv)
        self.queue.append({"type": "MODIFIED", "object": copy.deepcopy(self.obj)})

    def list_response(self) -> dict:
        mode = self.sc.get("items_kind", "none")
        items = []
        for o in self.by[:1] + [self.obj] + self.by[1:]:
            item = copy.deepcopy(o)
            target = item["metadata"]["uid"] == "uid-target"
            if mode == "none" or (mode == "others-only" and target) or (mode == "target-only" and not target):
                item.pop("kind", None)
                item.pop("apiVersion", None)
            items.append(item)
        rsp: dict[str, Any] = {"metadata": {"resourceVersion": str(self.rv)}, "items": items}
        if self.sc.get("list_kind", "kind+List") == "kind+List" or mode != "all":
            rsp.update({"kind": self.obj["kind"] + "List", "apiVersion": self.obj["apiVersion"]})
        return rsp

    async def get(self, url: str, **_: Any) -> Any:
        rsp = self.list_response()
        self.lists.append((copy.deepcopy(rsp), rsp["items"]))     # (as sent, the very items kopf works on)
        return rsp

    async def stream(self, url: str, **_: Any) -> Any:
        while self.queue:
            yield self.queue.pop(0)


async def sight_history(sc: dict, out: Out) -> None:
    conventions, progress, diffbase, bodies, patches = _kopf()
    from kopf._cogs.clients import watching
    from kopf._cogs.configs import configuration
    from kopf._cogs.structs import references
    S = build_storage(sc["storage"])
    D = build_dstorage(sc["dstorage"])
    xdesc = expected_leaves(sc["storage"])
    xann = [d for d in xdesc if d["t"] == "ann"]
    xdann = [d for d in expected_dleaves(sc["dstorage"]) if d["t"] == "ann"]
    ann_leaves = [l for l in leaves(S) if isinstance(l, progress.AnnotationsProgressStorage)]
    k = sc["id"]
    truth = sc["body"]          # the object as the cluster stores it: its kind and owners decide the names (property text: ReplicaSets owned by Deployments)
    drs = truth["kind"] == "ReplicaSet" and any(o.get("kind") == "Deployment" for o in truth["metadata"].get("ownerReferences") or [])
    mk = k + "-ofDRS" if drs else k
    want_names = [[d["prefix"] + "/" + part for part in pinned_parts(mk, d["prefix"], d["v1"])] for d in xann]
    own = {n for d in xann for x in (mk, d["touch_key"] + ("-ofDRS" if drs else ""), "kopf-managed")
           for n in [d["prefix"] + "/" + part for part in pinned_parts(x, d["prefix"], True)]}
    own |= {d["prefix"] + "/" + part for d in xdann for x in (d["key"] + ("-ofDRS" if drs else ""), "kopf-managed")
            for part in pinned_parts(x, d["prefix"], True)}
    verbose = bool(xdesc and xdesc[0]["t"] == "ann" and xdesc[0]["verbose"])
    server = SightServer(sc)
    kind = truth["kind"]
    resource = references.Resource(group="apps", version="v1", plural=kind.lower() + "s", kind=kind, singular=kind.lower(),
                                   namespaced=True, preferred=True, verbs=frozenset({"list", "watch", "patch"}))
    settings = configuration.OperatorSettings()
    tags = out.tags
    tags.update({"sights": True, "shape": sc.get("shape"), "band": sc.get("band"), "idshape": sc.get("idshape"), "drs": drs, "kind": kind,
                 "items_kind": sc.get("items_kind"), "lives": len(sc["lives"])})
    state: dict[str, Any] = {"rec": None, "ess": None, "stored_at": None, "dstored_at": None, "first_names": None, "n": 0, "via": []}
    api = watching.api
    saved = (api.get, api.stream)
    api.get, api.stream = server.get, server.stream          # attribute-level, restored below
    try:
        for li, ops in enumerate(sc["lives"]):
            server.queue.clear()        # a freshly started operator watches from the version of ITS listing on
            pause = asyncio.get_running_loop().create_future()
            gen = watching.continuous_watch(settings=settings, resource=resource, namespace=None, operator_pause_waiter=pause)
            try:
                listed = None
                async for ev in gen:
                    if isinstance(ev, watching.Bookmark):
                        break
                    if ev["object"].get("metadata", {}).get("uid") == "uid-target":
                        listed = ev["object"]
                if listed is None:
                    out.fail("the object in the cluster is not among the objects listed when the operator starts", {"site": "list_objs", "shape": "listed object missing"})
                    return
                sight, how = listed, "listed"
                for oi, op in enumerate(ops):
                    patch = judge_sight(sc, out, S, D, ann_leaves, xann, want_names, own, verbose, state, server, bodies, patches,
                                        sight, f"life {li + 1}, {how}", op)
                    if not patch:
                        patch = {"metadata": {"labels": {"tick": "%d-%d" % (li, oi)}}}      # somebody else edits the object
                    server.apply(patch)
                    if oi + 1 < len(ops):
                        ev = await gen.__anext__()
                        sight, how = ev["object"], "watch-event " + str(ev["type"])
            finally:
                await gen.aclose()
                pause.cancel()
        # what is there at the end, read once more by a freshly started operator
        server.queue.clear()
        pause = asyncio.get_running_loop().create_future()
        gen = watching.continuous_watch(settings=settings, resource=resource, namespace=None, operator_pause_waiter=pause)
        try:
            async for ev in gen:
                if isinstance(ev, watching.Bookmark):
                    break
                if ev["object"].get("metadata", {}).get("uid") == "uid-target":
                    judge_sight(sc, out, S, D, ann_leaves, xann, want_names, own, verbose, state, server, bodies, patches,
                                ev["object"], "final life, listed", "look")
        finally:
            await gen.aclose()
            pause.cancel()
    finally:
        api.get, api.stream = saved
    tags["sight_path"] = "+".join(state["via"][:6])
    out.tags["listings"] = [[sent, jsonable(items)] for sent, items in server.lists[:2]]


def judge_sight(sc, out, S, D, ann_leaves, xann, want_names, own, verbose, state, server, bodies, patches, sight, where, op):
    """One sight of the object (a body made by kopf's own listing / watching): judged from the property text, then `op` is done on it."""
    k = sc["id"]
    Body = bodies.Body
    via = "L" if "listed" in where else "W"
    state["n"] += 1
    # identical names at every sight, and the names the persisted format gives to THIS object (kind & owners as the cluster has them)
    names = [list(l.make_keys(k, body=Body(sight))) for l in ann_leaves]
    if state["first_names"] is None:
        state["first_names"] = (names, where)
    if names != state["first_names"][0]:
        out.fail(f"annotation names of handler {k!r} on the same {server.obj['kind']} differ between two sights of it: {state['first_names'][0]} "
                 f"({state['first_names'][1]}) vs {names} ({where})", {"site": "make_keys", "shape": "names differ across restarts"})
    elif [sorted(x) for x in names] != [sorted(x) for x in want_names]:
        out.fail(f"annotation names of handler {k!r} on a {server.obj['kind']} ({where}) are {names}, the persisted format gives {want_names}",
                 {"site": "make_keys", "shape": "names of the object as seen differ from the names of the object as stored"})
    # the record / state persisted last (at whatever sight, in whatever life) is what is read now
    f = call(S.fetch, key=k, body=Body(sight))
    got = f[1] if f[0] == "ok" else f
    want = state["rec"]
    if want is None:
        if got is not None:
            out.fail(f"handler {k!r} has no record on the object ({where}; {state['stored_at'] or 'never stored'}) but reads {got!r}",
                     {"site": "fetch", "shape": "reads a record that is not its own (across sights)"})
    elif f[0] != "ok" or got is None or differs(drop_nulls(jsonable(got)), jsonable(drop_nulls(want))) or (verbose and differs(jsonable(got), jsonable(want))):
        out.fail(f"the record persisted for {k!r} ({state['stored_at']}) is not read back at a later sight of the object ({where}): "
                 f"stored {drop_nulls(want)!r}, fetched {got!r}", {"site": "store/fetch", "shape": "round-trip mismatch across sights"})
    fd = call(D.fetch, body=Body(sight))
    if state["ess"] is not None and differs(jsonable(fd), ["ok", state["ess"]]):
        out.fail(f"the last-handled state persisted ({state['dstored_at']}) is not read back at a later sight ({where}): stored {state['ess']!r}, fetched {fd!r}",
                 {"site": "diffbase store/fetch", "shape": "round-trip mismatch across sights"})
    if state["stored_at"] is not None or state["dstored_at"] is not None:
        state["via"].append(via)
    # the operation of this step, on the body as kopf made it
    p = patches.Patch()
    before = copy.deepcopy(server.obj)
    if op in ("store-a", "store-b"):
        rec = rec_dict(sc["records"][0 if op == "store-a" else 1])
        r = call(S.store, key=k, record=copy.deepcopy(rec), body=Body(sight), patch=p)
        state.update(rec=rec, stored_at=f"stored at {where}")
    elif op == "purge":
        r = call(S.purge, key=k, body=Body(sight), patch=p)
        state.update(rec=None, stored_at=f"purged at {where}")
    elif op in ("dstore-1", "dstore-2"):
        ess = copy.deepcopy(sc["essences"][0 if op == "dstore-1" else 1])
        r = call(D.store, body=Body(sight), patch=p, essence=copy.deepcopy(ess))
        state.update(ess=ess, dstored_at=f"stored at {where}")
    else:
        return None
    state["via"].append(op[0].upper() + via)
    if r[0] != "ok":
        out.fail(f"{op} of {k!r} raises {r[1]} on a well-formed object ({where})", {"site": op.split("-")[0], "shape": "operation raises on a well-formed object"})
        return None
    pj = jsonable(dict(p))
    after = merge_patch(before, pj)
    a0, a1 = before["metadata"].get("annotations") or {}, after.get("metadata", {}).get("annotations") or {}
    moved = sorted(n for n in set(a0) | set(a1) if n not in own and a0.get(n, MISSING) != a1.get(n, MISSING))
    roots = {d[f][0] for d in expected_leaves(sc["storage"]) + expected_dleaves(sc["dstorage"]) if d["t"] == "status" for f in ("field", "touch_field") if d.get(f)}
    if moved or any(differs(before.get(x), after.get(x)) for x in ("spec", "kind", "apiVersion") if x not in roots) \
            or ("metadata" not in roots and before["metadata"].get("labels") != after["metadata"].get("labels")):
        out.fail(f"{op} of {k!r} ({where}) changes what is not the handler's own on the object: annotations {moved}" if moved else
                 f"{op} of {k!r} ({where}) changes spec / labels / kind of the object",
                 {"site": op.split("-")[0], "shape": "foreign data changed (across sights)"})
    if op == "purge":
        left = sorted(n for ns in want_names for n in ns if n in a1)
        if left:
            out.fail(f"purge of {k!r} ({where}; {before['kind']}) leaves the handler's own annotations {left} on the object",
                     {"site": "purge", "shape": "purge incomplete (across sights)"})
    return pj


def run_sights(ctx: Ctx, scs: list[dict], tag: str = "sights") -> None:
    """In-process (cheap: no driver per history); ONE driver call compares the model of the listing with what list_objs returned."""
    items: list[tuple[str, Any, Any, Any]] = []

    async def all_of_them() -> list[Out]:
        outs = []
        for sc in scs:
            o = Out()
            try:
                with warnings.catch_warnings():
                    warnings.simplefilter("ignore")
                    await sight_history(sc, o)
            except Exception as e:      # noqa: BLE001 -- a crash of the code under test on a well-formed history is a finding, not a harness error
                o.fail(f"a sight history crashes: {type(e).__name__}: {e}", {"site": "sights", "shape": "crash on a well-formed history"})
            outs.append(o)
        return outs

    for sc, o in zip(scs, asyncio.run(all_of_them())):
        t = o.tags
        key = {"sights": [t.get("shape"), t.get("band"), t.get("drs"), t.get("kind"), t.get("items_kind"), t.get("sight_path")]}
        ctx.case(key=key, nontrivial=bool(t.get("drs")) or t.get("items_kind") != "all", sample={"id": sc["id"][:40], "lives": sc["lives"], "kind": t.get("kind")})
        ctx.traces += 1
        ctx.count("sights_kind", str(t.get("kind")))
        ctx.count("sights_drs", str(t.get("drs")))
        ctx.count("sights_items_kind", str(t.get("items_kind")))
        ctx.count("sights_path", str(t.get("sight_path")))
        ctx.count("sights_shape", str(t.get("shape")))
        for what, sig in o.fails:
            per = ctx.extra.setdefault("_per_signature", {})
            per[json.dumps(sig, sort_keys=True)] = per.get(json.dumps(sig, sort_keys=True), 0) + 1
            ctx.oracle_fail(what, {"kind": "sights", "scenario": sc}, sig)
        for sent, got in (t.get("listings") or []):
            items.append(("C16 listed", ["ok", got], ["C16.listed", sent], {"kind": "sights", "scenario": sc}))
    if items and tag != "search":
        ask_compare(ctx, items)


def gen_run_sights(ctx: Ctx, n: int, tag: str = "sights") -> None:
    import random
    rng = random.Random(f"{tag}-{ctx.seed}")
    run_sights(ctx, [gen_sights(rng) for _ in range(n)], tag)


# ---- corpus / special cases ---------------------------------------------------------------------
def run_case(ctx: Ctx, data: dict, with_driver: bool = True) -> None:
    kind = data.get("kind")
    if kind == "scenario":
        fold(ctx, process([data["scenario"]], with_driver))
    elif kind == "names":
        names_case(ctx, data)
    elif kind == "pair":
        pair_case(ctx, data)
    elif kind == "golden":
        golden_case(ctx, data)
    elif kind == "status-cover":
        status_cover_case(ctx, data)
    elif kind == "blankpair":
        blankpair_case(ctx, data)
    elif kind == "reserved":
        reserved_case(ctx, data)
    elif kind == "names-request":
        names_request_case(ctx, data)
    elif kind == "sights":
        run_sights(ctx, [data["scenario"]])
    else:
        raise ValueError(f"unknown corpus/replay kind {kind!r}")


def ask_compare(ctx: Ctx, items: list[tuple[str, Any, Any, Any]]) -> None:
    """(what, implementation answer, driver request, replay) — compared now, or, during the corpus pass of run(), in
    ONE driver call at its end (every driver start costs ~0.4 s)"""
    pending = ctx.extra.get("_pending")
    if pending is not None:
        pending.extend(items)
        return
    outs = ctx.driver.ask([rq for _, _, rq, _ in items])
    for (what, im, _, replay), ans in zip(items, outs):
        ctx.compare(what, im, ans, replay)


def names_case(ctx: Ctx, data: dict) -> None:
    """{"kind":"names","prefix":p,"v1":b,"id":k,"drs":bool}: validity of the generated names."""
    _, progress, _, bodies, _ = _kopf()
    with warnings.catch_warnings():
        warnings.simplefilter("ignore")
        s = progress.AnnotationsProgressStorage(prefix=data["prefix"], v1=data.get("v1", True))
    body = {"kind": "ReplicaSet", "metadata": {"ownerReferences": [{"kind": "Deployment"}]}} if data.get("drs") else {"kind": "KopfExample", "metadata": {}}
    k = data["id"]
    mk = k + "-ofDRS" if data.get("drs") else k
    keys = list(s.make_keys(k, body=bodies.Body(body)))
    ctx.case(key={"names": data}, nontrivial=True)
    ctx.count("corpus", "names")
    for i, full in enumerate(keys):
        probs = name_problems(full)
        if probs:
            ctx.oracle_fail(f"invalid Kubernetes annotation name {full!r} for id {k!r} ({','.join(probs)})",
                            {"kind": "names", **{x: data[x] for x in data if x != "kind"}},
                            classify_name(full, s.prefix, mk, "v2" if i == 0 else "v1", probs))
    ask_compare(ctx, [("C16 keys", ["ok", keys], ["C16.keys", {"prefix": s.prefix, "v1": bool(s.v1)}, sfx_table([k]), bool(data.get("drs")), k], data)])


def pair_case(ctx: Ctx, data: dict) -> None:
    """{"kind":"pair","prefix":p,"a":id,"b":id}: two distinct ids; storing b must not change what a reads."""
    _, progress, _, bodies, patches = _kopf()
    with warnings.catch_warnings():
        warnings.simplefilter("ignore")
        s = progress.AnnotationsProgressStorage(prefix=data.get("prefix", "kopf.zalando.org"), v1=data.get("v1", True))
    a, b = data["a"], data["b"]
    ctx.case(key={"pair": [a, b]}, nontrivial=True)
    ctx.count("corpus", "pair")
    if a == b:
        return
    body: dict = {"metadata": {}}
    p = patches.Patch()
    s.store(key=a, record={"retries": 1, "message": "record of a"}, body=bodies.Body(body), patch=p)
    body = merge_patch(body, jsonable(dict(p)))
    before = s.fetch(key=a, body=bodies.Body(body))
    p = patches.Patch()
    s.store(key=b, record={"retries": 2, "message": "record of b"}, body=bodies.Body(body), patch=p)
    body2 = merge_patch(body, jsonable(dict(p)))
    after = s.fetch(key=a, body=bodies.Body(body2))
    ka, kb = list(s.make_keys(a)), list(s.make_keys(b))
    replay = {"kind": "pair", **{x: data[x] for x in data if x != "kind"}}
    if before != after:
        ctx.oracle_fail(f"storing the record of {b!r} changes what {a!r} reads: {before!r} → {after!r} (names {ka} / {kb})",
                        replay, classify_sharing(a, b, [(s.prefix, bool(s.v1))]))
    elif len(a) > 63 and len(b) > 63 and a[:58] == b[:58] and ka[0] == kb[0]:
        ctx.oracle_fail(f"distinct long ids sharing a prefix get the same annotation name {ka[0]!r}", replay,
                        classify_sharing(a, b, [(s.prefix, bool(s.v1))]))
    ask_compare(ctx, [("C16 keys", ["ok", ka], ["C16.keys", {"prefix": s.prefix, "v1": bool(s.v1)}, sfx_table([a]), False, a], replay),
                      ("C16 keys", ["ok", kb], ["C16.keys", {"prefix": s.prefix, "v1": bool(s.v1)}, sfx_table([b]), False, b], replay)])


def golden_case(ctx: Ctx, data: dict) -> None:
    """{"kind":"golden","names":[[prefix, v1, drs, id, [names]]]}: names recorded from the unchanged tree;
    an operator restarted after an upgrade must still find its records."""
    _, progress, _, bodies, _ = _kopf()
    for prefix, v1, drs, k, names in data["names"]:
        with warnings.catch_warnings():
            warnings.simplefilter("ignore")
            s = progress.AnnotationsProgressStorage(prefix=prefix, v1=v1)
        body = {"kind": "ReplicaSet", "metadata": {"ownerReferences": [{"kind": "Deployment"}]}} if drs else {"metadata": {}}
        got = list(s.make_keys(k, body=bodies.Body(body)))
        ctx.case(key={"golden": [prefix, v1, drs, k]}, nontrivial=True)
        ctx.count("corpus", "golden")
        if got != names:
            ctx.oracle_fail(f"annotation names of {k!r} changed: recorded {names}, now {got}",
                            {"kind": "golden", "names": [[prefix, v1, drs, k, names]]},
                            {"site": "make_keys", "shape": "recorded annotation names changed (persisted state would be orphaned)"})


def blankpair_case(ctx: Ctx, data: dict) -> None:
    """{"kind":"blankpair","prefix":p,"v1":b,"a":id,"b":id}: only `a` has a record; `b`, which never stored one, must read None."""
    _, progress, _, bodies, patches = _kopf()
    with warnings.catch_warnings():
        warnings.simplefilter("ignore")
        s = progress.AnnotationsProgressStorage(prefix=data.get("prefix", "kopf.zalando.org"), v1=data.get("v1", True))
    a, b = data["a"], data["b"]
    ctx.case(key={"blankpair": [a, b]}, nontrivial=True)
    ctx.count("corpus", "blankpair")
    body: dict = {"metadata": {}}
    p = patches.Patch()
    s.store(key=a, record={"started": "t0", "success": True, "retries": 1}, body=bodies.Body(body), patch=p)
    body = merge_patch(body, jsonable(dict(p)))
    got = call(s.fetch, key=b, body=bodies.Body(body))
    replay = {"kind": "blankpair", **{x: data[x] for x in data if x != "kind"}}
    if got != ["ok", None]:
        ctx.oracle_fail(f"handler {b!r} never stored a record but reads {got!r} (the record of {a!r}: it would count as already succeeded)",
                        replay, classify_sharing(a, b, [(s.prefix, bool(s.v1))]))
    ask_compare(ctx, [("C16 fetch", jsonable(got), ["C16.fetch", describe_tree(s), sfx_table([b]), body, b], replay)])


def reserved_case(ctx: Ctx, data: dict) -> None:
    """Handler ids equal to the names the storages use themselves (the reviewer's three reproductions):
    (a) `kopf-managed` under a custom prefix, (b) `touch-dummy`, (c) `last-handled-configuration`."""
    _, progress, diffbase, bodies, patches = _kopf()
    Body = bodies.Body
    replay = {"kind": "reserved"}
    ctx.case(key={"reserved": 1}, nontrivial=True)
    ctx.count("corpus", "reserved")

    def apply(body: dict, fn, **kw) -> dict:
        p = patches.Patch()
        fn(body=Body(body), patch=p, **kw)
        return merge_patch(body, jsonable(dict(p)))
    # (a) marker
    s = progress.AnnotationsProgressStorage(prefix="my-op.example.com")
    body: dict = {"metadata": {}}
    before = call(s.fetch, key="kopf-managed", body=Body(body))
    body = apply(body, s.store, key="fn", record={"retries": 1})
    after = call(s.fetch, key="kopf-managed", body=Body(body))
    if before != after:
        ctx.oracle_fail(f"storing the record of 'fn' changes what handler 'kopf-managed' reads: {before!r} → {after!r}", replay, SIG_RESERVED)
    # (b) touch key
    s2 = progress.SmartProgressStorage()
    body = apply({"metadata": {}}, s2.store, key="touch-dummy", record={"retries": 3, "started": "2020-01-01T00:00:00"})
    before = call(s2.fetch, key="touch-dummy", body=Body(body))
    body = apply(body, s2.touch, value="2020-12-31T23:59:59.000001")
    after = call(s2.fetch, key="touch-dummy", body=Body(body))
    if before != after:
        ctx.oracle_fail(f"a touch changes what handler 'touch-dummy' reads: {before!r} → {after!r}", replay, SIG_RESERVED)
    # (c) diff-base key
    d = diffbase.AnnotationsDiffBaseStorage()
    body = apply({"metadata": {}}, d.store, essence={"spec": {"x": 1}})
    before = call(d.fetch, body=Body(body))
    body = apply(body, s2.store, key="last-handled-configuration", record={"retries": 0, "started": "t"})
    after = call(d.fetch, body=Body(body))
    if before != after:
        ctx.oracle_fail(f"storing the record of 'last-handled-configuration' changes the last-handled state: {before!r} → {after!r}", replay, SIG_RESERVED)


def status_cover_case(ctx: Ctx, data: dict) -> None:
    """Replay of the Lean `status_cover_witness` on the real StatusProgressStorage: a record stored over an
    older record with other keys reads back MERGED (RFC 7386). Not a defect (kopf always writes all keys);
    it shows the covering hypothesis of `roundtrip_status` is about the real code."""
    _, progress, _, bodies, patches = _kopf()
    s = progress.StatusProgressStorage()
    body = {"status": {"kopf": {"progress": {data["id"]: dict(data["old"])}}}}
    p = patches.Patch()
    s.store(key=data["id"], record=dict(data["new"]), body=bodies.Body(body), patch=p)
    merged = merge_patch(body, jsonable(dict(p)))
    got = s.fetch(key=data["id"], body=bodies.Body(merged))
    ctx.case(key={"status-cover": data["id"]}, nontrivial=True)
    ctx.count("corpus", "status-cover")
    want = {**data["old"], **{k: v for k, v in data["new"].items() if v is not None}}
    if got != want or got == {k: v for k, v in data["new"].items() if v is not None}:
        ctx.tie_fail("status storage no longer merges a record over an older one as the model (and the witness theorem) says",
                     {"kind": "status-cover", **{x: data[x] for x in data if x != "kind"}, "got": got})
    desc = describe_tree(s)
    ask_compare(ctx, [("C16 store", ["ok", jsonable(dict(p))],
                       ["C16.store", desc, sfx_table([data["id"]]), body, {}, data["id"], [[k, v] for k, v in data["new"].items()]], data),
                      ("C16 fetch", ["ok", got], ["C16.fetch", desc, sfx_table([data["id"]]), merged, data["id"]], data)])


def restart_check(ctx: Ctx, n: int) -> None:
    """Same names from a fresh interpreter with another hash seed."""
    import random
    rng = random.Random(f"restart-{ctx.seed}")
    items = []
    for _ in range(n):
        p, _ = gen_prefix(rng)
        k, _, _ = gen_id(rng, len(p))
        items.append([p, rng.random() < 0.7, k])
    code = ("import json,sys,warnings\nwarnings.simplefilter('ignore')\nfrom kopf._cogs.configs import progress\n"
            "out=[]\nfor p,v1,k in json.load(sys.stdin):\n out.append(list(progress.AnnotationsProgressStorage(prefix=p,v1=v1).make_keys(k)))\n"
            "json.dump(out,sys.stdout)\n")
    outs = []
    for hs in ("1", "12345"):
        env = dict(os.environ, PYTHONHASHSEED=hs)
        pr = subprocess.run([sys.executable, "-c", code], input=json.dumps(items), capture_output=True, text=True, env=env, timeout=120)
        if pr.returncode != 0:
            raise RuntimeError("restart probe failed: " + pr.stderr[-500:])
        outs.append(json.loads(pr.stdout))
    _, progress, _, _, _ = _kopf()
    for (p, v1, k), a, b in zip(items, outs[0], outs[1]):
        with warnings.catch_warnings():
            warnings.simplefilter("ignore")
            here = list(progress.AnnotationsProgressStorage(prefix=p, v1=v1).make_keys(k))
        ctx.case(key=None)
        if not (a == b == here):
            ctx.oracle_fail(f"annotation names of {k!r} differ across processes: {a} / {b} / {here}",
                            {"kind": "names", "prefix": p, "v1": v1, "id": k}, {"site": "make_keys", "shape": "names differ across restarts"})
    ctx.count("restart_probe", "ids", n)


def birthday(ctx: Ctx, n: int) -> None:
    """Distinct long ids sharing a 60-char prefix: do their names stay distinct? (digest is 32 bits)"""
    import random
    rng = random.Random(f"birthday-{ctx.seed}")
    base = ident(rng, 5, 9) + "/" + "".join(rng.choice(LOWER) for _ in range(60))
    base = base[:60]
    seen: dict[str, str] = {}
    hits: list[tuple[str, str]] = []
    for i in range(n):
        k = f"{base}/sub{i:07d}"
        s = real_suffix(k)
        if s in seen:
            hits.append((seen[s], k))
            if len(hits) >= 2:
                break
        else:
            seen[s] = k
    ctx.count("birthday", "ids_hashed", min(n, len(seen) + len(hits)))
    ctx.count("birthday", "collisions", len(hits))
    for a, b in hits[:1]:
        pair_case(ctx, {"kind": "pair", "prefix": "kopf.zalando.org", "a": a, "b": b})


# ---- keys run: make_v1_key / make_v2_key / make_keys / make_edged_name on edge-heavy ids -------------------
EDGE_CHARS = "._-/<>:"
NONASCII = "é١ß²"          # alphanumeric for str.isalnum(), not ASCII: `_is_alnum` of make_edged_name says no


def char_class(c: str) -> str:
    return "alnum" if c in ALNUM else ("nonascii" if not c.isascii() else c)


def gen_edge_id(rng, plen: int) -> tuple[str, dict]:
    """an id built to stress make_edged_name; → (id, tags)"""
    room = 62 - plen                      # 63 - len(prefix + '/'): what is left for the V1 name
    lclass = rng.choices(["empty", "tiny", "v1-cut", "v1-room", "56", "63", "mid", "long", "allspecial"],
                         weights=[2, 14, 12, 14, 12, 18, 10, 12, 6])[0]
    L = {"empty": 0, "tiny": rng.randint(1, 3), "v1-cut": room - 7 + rng.randint(-1, 1), "v1-room": room + rng.randint(-1, 1),
         "56": rng.randint(55, 57), "63": rng.randint(62, 64), "mid": rng.randint(4, 61), "long": rng.choice([65, 70, 100, 299, 300]),
         "allspecial": rng.randint(1, 70)}[lclass]
    L = max(0 if lclass == "empty" else 1, min(300, L))
    if lclass == "allspecial":
        k = "".join(rng.choice(EDGE_CHARS) for _ in range(L))
    else:
        k = "".join(rng.choice(ALPHABET + ":") for _ in range(L))
        # words, as real ids have
        if L > 6 and rng.random() < 0.5:
            k = (ident(rng, 1, 10) + rng.choice("/._") + "/".join(ident(rng, 2, 12) for _ in range(40)))[:L]
    how = "as-is"
    if k and lclass != "allspecial":
        r = rng.random()
        first = rng.choice(EDGE_CHARS) if r < 0.55 else (rng.choice(NONASCII) if r < 0.65 else rng.choice(ALNUM))
        r = rng.random()
        last = rng.choice(EDGE_CHARS) if r < 0.55 else (rng.choice(NONASCII) if r < 0.65 else rng.choice(ALNUM))
        k = (first + k[1:]) if len(k) > 1 else first
        if len(k) > 1:
            k = k[:-1] + last
        how = "edges-set"
    cut = "none"
    r = rng.random()
    if r < 0.35 and len(k) > 63:
        k = k[:55] + rng.choice(EDGE_CHARS) + k[56:]          # the V2 cut (56) leaves a bad character before the suffix
        cut = "v2-cut-bad"
    elif r < 0.6 and room - 8 >= 1 and len(k) > room:
        k = k[:room - 8] + rng.choice(EDGE_CHARS) + k[room - 7:]   # the same for the V1 cut
        cut = "v1-cut-bad"
    elif r < 0.7 and len(k) > 2:
        k = k[0] + rng.choice(EDGE_CHARS) + k[2:]             # second character bad as well
        cut = "second-bad"
    return k, {"length_class": lclass, "cut": cut, "how": how}


def name_path(part: str, mk: str, limit: int) -> str:
    """which way the name part was formed, read off the REAL result (for the histogram only)"""
    safe = mk.translate(SAFE_TABLE)
    if part == safe:
        return "verbatim"
    if len(safe) > limit:
        return "hashed" if part[:1] == safe[:1] else "hashed+x-head"
    fixed = safe or "x"
    fixed = fixed if fixed[0] in ALNUM else "x" + fixed[1:]
    fixed = fixed if fixed[-1] in ALNUM else fixed[:-1] + "x"
    if part == fixed:
        return "re-edged-already-hashed"        # only the edges replaced: the name already ended with a digest of the id
    return "re-edged" if part == fixed + pinned_suffix(mk) else "re-edged-cut"


def keys_tie(ctx: Ctx, n: int) -> None:
    import random
    conventions, progress, _, bodies, _ = _kopf()
    ctx.extra["_keys_round"] = ctx.extra.get("_keys_round", 0) + 1
    rng = random.Random(f"keys-{ctx.seed}-{ctx.extra['_keys_round']}")
    drs_body = {"kind": "ReplicaSet", "metadata": {"ownerReferences": [{"kind": "Deployment"}]}}
    reqs: list[Any] = []
    impl: list[Any] = []
    what: list[str] = []
    for i in range(n):
        plen = rng.choice([1, 4, 16, 16, 16, 17, 30, 45, 52, 53, 54, 55, 56, 60, 63, 100, 189])
        p = "kopf.zalando.org" if (plen == 16 and rng.random() < 0.7) else mk_prefix(rng, plen)
        k, tags = gen_edge_id(rng, plen)
        v1 = rng.random() < 0.75
        drs = rng.random() < 0.2
        with warnings.catch_warnings():
            warnings.simplefilter("ignore")
            st = progress.AnnotationsProgressStorage(prefix=p, v1=v1)
        mk = k + "-ofDRS" if drs else k
        body = bodies.Body(drs_body if drs else {"metadata": {}})
        keys = list(st.make_keys(k, body=body))
        tbl = sfx_table([k])
        reqs.append(["C16.keys", {"prefix": p, "v1": v1}, tbl, drs, k]); impl.append(["ok", keys]); what.append("make_keys")
        reqs.append(["C16.v2key", {"prefix": p}, tbl, k]); impl.append(["ok", st.make_v2_key(k)]); what.append("make_v2_key")
        # make_v1_key directly, also where make_keys would not call it (no room: zero / negative cut, max_length <= 7)
        reqs.append(["C16.v1key", {"prefix": p}, tbl, k]); impl.append(["ok", st.make_v1_key(k)]); what.append("make_v1_key")
        # make_edged_name directly with a crafted name
        key2 = k
        nm = rng.choice(["", "_", "a", ".", "-x", "x-", k[:rng.randint(0, 12)],
                         real_safe(k)[:rng.randint(0, 10)] + rng.choice([real_suffix(k), real_suffix(real_safe(k)), "-abc", "."]),
                         rng.choice(EDGE_CHARS) + real_suffix(k), real_suffix(real_safe(k)), real_suffix(k)[:-1] + "."])
        ml = rng.choice([-5, 0, 1, 6, 7, 8, 9, 20, 63])
        edged = getattr(st, "make_edged_name", None)
        if edged is not None:
            got = edged(nm, key=key2, max_length=ml)
            reqs.append(["C16.edged", tbl, nm, key2, ml]); impl.append(["ok", got]); what.append("make_edged_name")
            ctx.count("keys_edged_direct_path", "untouched" if got == nm else
                      ("already hashed: edges replaced only" if len(got) == max(1, len(nm)) and got[1:-1] == nm[1:-1] else
                       ("suffix appended, cut to 1 (max_length <= 8)" if len(got) == 8 and ml <= 8 else "suffix appended")))
        elif not any(f.kind == "tie" and "make_edged_name" in f.what for f in ctx.failures):
            ctx.tie_fail("StorageKeyFormingConvention.make_edged_name (kopf c2cffd8), which the model mirrors, is gone", {"kind": "missing", "attr": "make_edged_name"})
        # ---- bookkeeping + oracle (validity, own prefix, determinism, old names kept) ----
        first_c = char_class(k[0]) if k else "none"
        last_c = char_class(k[-1]) if k else "none"
        ctx.count("keys_first_char", first_c)
        ctx.count("keys_last_char", last_c)
        ctx.count("keys_length_class", tags["length_class"])
        ctx.count("keys_cut_position", tags["cut"])
        ctx.count("keys_prefix_length", plen)
        ctx.count("keys_id_length", "%03d-%03d" % (len(k) // 10 * 10, len(k) // 10 * 10 + 9) if len(k) < 70 else "070+")
        if len(k) in (62, 63, 64) and (first_c != "alnum" or last_c != "alnum"):
            ctx.count("keys_boundary_bad_edge", len(k))
        part2 = keys[0][len(p) + 1:]
        ctx.count("keys_v2_path", name_path(part2, mk, 63))
        if len(keys) > 1:
            ctx.count("keys_v1_path", name_path(keys[1][len(p) + 1:], mk, 62 - plen))
        else:
            ctx.count("keys_v1_path", "none (v1 off)" if not v1 else ("none (no room)" if plen >= 55 else "same as v2"))
        nontrivial = part2 != mk.translate(SAFE_TABLE) or len(keys) > 1
        ctx.case(key=["keys", plen if 50 <= plen <= 57 else plen // 20, tags["length_class"], tags["cut"], first_c, last_c, v1, drs,
                      name_path(part2, mk, 63), len(keys)], nontrivial=nontrivial,
                 sample={"prefix": p, "v1": v1, "drs": drs, "id": k, "names": keys} if i < 2 else None)
        replay = {"kind": "names", "prefix": p, "v1": v1, "id": k, "drs": drs}
        middle_ok = all(c in ALPHABET + ":" for c in mk[1:-1]) and (len(mk) <= 63 or mk[-1] in ALPHABET + ":")
        if list(st.make_keys(k, body=body)) != keys:
            ctx.oracle_fail(f"annotation names differ between two calls: {keys}", replay, {"site": "make_keys", "shape": "non-deterministic names"})
        for j, full in enumerate(keys):
            if not full.startswith(p + "/"):
                ctx.oracle_fail(f"generated name {full!r} is not under the storage prefix {p!r}", replay,
                                {"site": "make_keys", "shape": "name outside the own prefix"})
                continue
            probs = name_problems(full)
            if probs and middle_ok:
                ctx.oracle_fail(f"invalid Kubernetes annotation name {full!r} for id {k!r} ({'v2' if j == 0 else 'v1'}; {','.join(probs)})",
                                replay, classify_name(full, p, mk, "v2" if j == 0 else "v1", probs))
            ctx.count("keys_names_judged", "valid" if not probs else ("invalid (foreign characters inside the id)" if not middle_ok else "INVALID"))
        # names that were valid before c2cffd8 are still the names (nothing persisted is orphaned)
        sfx2 = pinned_suffix(mk) if len(mk) > 63 else ""
        old2 = mk.translate(SAFE_TABLE)[:63 - len(sfx2)] + sfx2
        if not name_problems(p + "/" + old2) and part2 != old2:
            ctx.oracle_fail(f"the valid annotation name {p + '/' + old2!r} of id {k!r} (kopf before c2cffd8) became {keys[0]!r}", replay,
                            {"site": "make_keys", "shape": "recorded annotation names changed (persisted state would be orphaned)"})
    answers = ctx.driver.ask(reqs, timeout=3000)
    for w, rq, im, ans in zip(what, reqs, impl, answers):
        ctx.count("keys_ops", w)
        ctx.compare(f"C16 {w}", im, ans, {"kind": "names-request", "request": rq})
    ctx.traces += len(reqs)


def names_request_case(ctx: Ctx, data: dict) -> None:
    """replay of one comparison of the keys run"""
    conventions, progress, _, bodies, _ = _kopf()
    rq = data["request"]
    op = rq[0]
    with warnings.catch_warnings():
        warnings.simplefilter("ignore")
        if op == "C16.edged":
            st = progress.AnnotationsProgressStorage(prefix="kopf.zalando.org")
            im = st.make_edged_name(rq[2], key=rq[3], max_length=rq[4])
        else:
            st = progress.AnnotationsProgressStorage(prefix=rq[1]["prefix"], v1=rq[1].get("v1", True))
            if op == "C16.keys":
                body = {"kind": "ReplicaSet", "metadata": {"ownerReferences": [{"kind": "Deployment"}]}} if rq[3] else {"metadata": {}}
                im = list(st.make_keys(rq[4], body=bodies.Body(body)))
            else:
                im = (st.make_v2_key if op == "C16.v2key" else st.make_v1_key)(rq[3])
    ctx.case(key={"names-request": op}, nontrivial=True)
    out = ctx.driver.ask([rq])
    ctx.compare(f"C16 {op}", ["ok", im], out[0], data)


def report_sfx(ctx: Ctx) -> None:
    ctx.count("suffix_contract", "checked (keys run, corpus cases)", SFX_SEEN[0] - ctx.extra.pop("_sfx_main_scen", 0))
    for x, sfx in SFX_BAD:
        ctx.tie_fail(f"make_suffix({x!r}) = {sfx!r} is outside the shape the validity theorems assume (RealSfx: '-' + 6 name characters, "
                     "the last one alphanumeric)", {"kind": "suffix", "string": x, "suffix": sfx})


def run(ctx: Ctx) -> None:
    # corpus first
    ctx.extra["_pending"] = []
    scen: list[dict] = []
    for name, data in sorted(__import__("harness.core", fromlist=["load_corpus"]).load_corpus(ID)):
        ctx.count("corpus_files", name)
        if data.get("kind") == "scenario":
            scen.append(data["scenario"])
        else:
            run_case(ctx, data)
    pending = ctx.extra.pop("_pending")
    if pending:
        ask_compare(ctx, pending)
    if scen:
        fold(ctx, process(scen, True))
    restart_check(ctx, 150 if ctx.tier == "quick" else 1500)
    birthday(ctx, 1 << 18 if ctx.tier == "quick" else 1 << 20)
    for _ in range(1 if ctx.tier == "quick" else 8):
        keys_tie(ctx, ctx.budget(2000, 5000))
    run_pool(ctx, ctx.budget(5000, 200000), True, "gen")
    run_pool(ctx, ctx.budget(1200, 30000), True, "seq")
    run_pool(ctx, ctx.budget(100, 3000), False, "big")      # records / essences of 1 KiB .. 128 KiB: oracle only
    gen_run_sights(ctx, ctx.budget(400, 6000))               # bodies from kopf's real listing / watching, several operator lives
    report_sfx(ctx)
    ctx.extra.pop("_keys_round", None)
    ctx.extra["oracle_failures_by_signature"] = ctx.extra.pop("_per_signature", {})


def search(ctx: Ctx, broken: list) -> None:
    """A proof or the correspondence is broken and the oracle saw nothing: larger budget, oracle only."""
    run_pool(ctx, ctx.budget(5000, 200000) * (10 if ctx.tier == "quick" else 2), False, "search")
    run_pool(ctx, ctx.budget(1200, 30000) * (10 if ctx.tier == "quick" else 2), False, "seqsearch")
    run_pool(ctx, ctx.budget(100, 3000) * (5 if ctx.tier == "quick" else 2), False, "bigsearch")
    gen_run_sights(ctx, ctx.budget(400, 6000) * (5 if ctx.tier == "quick" else 2), "search")
    ctx.extra["oracle_failures_by_signature"] = ctx.extra.pop("_per_signature", {})


def replay(ctx: Ctx, data: dict) -> None:
    rp = data.get("replay") or {}
    if rp.get("kind"):
        run_case(ctx, rp)
    elif isinstance(data.get("first"), dict) and data["first"].get("kind"):
        run_case(ctx, data["first"])
    else:
        run(ctx)
