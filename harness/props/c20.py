"""C20 — operator lifecycle: startup first, fail-fast, cleanup last, bounded exit.

Proof: Lean theorems over ALL label lists of the labelled transition system in
`lean/Kopf/Model/C20_Lifecycle.lean` (root tasks of `spawn_tasks`, phases of `run_tasks` and of
`startup_cleanup_activities`, the core task, the orchestrator's ensemble tasks, workers, daemons and their exit
stoppers; the orchestrator's exit is TWO sequential stops since /repo 26a293c: the streams first, the keep-alives — whose finally
withdraws the peering record — after the last of them has ended). Time passes only through `delay`, which is ALWAYS enabled; a run is COOPERATIVE when each of its delays
satisfies `coopDelay` (nothing instantaneous pending, no deadline overrun) — the theorems about time say so.
The model of the current tree handles every modelled cancellation of operator() (inside spawn_tasks, while run_tasks waits,
while it stops the root tasks — every live root task is then cancelled AGAIN —, while it waits for the hung tasks); the
labels at which the OLD code left the model (findings C20-F8 / F10 / F11, repaired by ab6fb15 / d6da86b / 883284c) exist in
historical variants only (`repaired_never_abandoned`), with a historical witness per finding.
Tie (T): the facts that select the model variant are re-extracted from the AST.
Tie (A, trace acceptance): the REAL `kopf.operator()` runs seeded lifecycle histories on the virtual-time
loop against the fake API (`sim_c20.py`); every atomic segment of the choreography is logged in one global
order log and the Lean driver (`C20.trace`) must accept the label trace as a COOPERATIVE run (labels and timing),
the WHOLE trace (no truncation on the current tree).
Oracle: written from the property statement over the order log / request log / return of `operator()`;
never consults the model. A deviation that is kopf's documented design is a by-design FINDING (C20-D1, C20-D3, C20-D4),
never an exemption.
"""
from __future__ import annotations

import ast
import json
import os
import subprocess
import sys
from concurrent.futures import ThreadPoolExecutor
from typing import Any

from .. import leanio
from ..core import ROOT, Ctx, ExtractError, load_corpus

ID = "C20"
LEVEL = "proof"
ENGINES = ["lean-model", "pyextract", "kopfsim"]
TIE = ("T: the facts that select the model variant — the orchestrator's done-callback on its ensemble tasks cancels it and the "
       "failure is re-raised (`fixed`); it is attached to `current_tasks - monitored_tasks`, sets of task OBJECTS of the whole ensemble, "
       "and the bookkeeping is replaced by the current set (`monitorsByTaskObject`, Kopf.Model.C20_Monitor byTask := true); APINotFoundError is passed over; terminate_redundancies restarts exited tasks; scan_resources "
       "gathers and cancels its requests; a root task (the stop-flag checker) awaits the core tasks and their errors are re-raised "
       "after the cleanup activity (`coreWatched := true`, since /repo ed52a1a); the daemon killer marks the memories as exiting and "
       "spawn_daemons honours it (since 1d3a667); the orchestrator shields the stop of its ensemble in a loop (`orchShielded := true`, "
       "since ab6fb15) and, inside that shielded task, stops it IN ORDER: first every task but the pinging ones, then the pinging ones "
       "(`stop_in_order`, since 26a293c: the model's two segments rootStopping orchestrator / orchStopPingers; one stop of everything or "
       "the reverse order make stops_pingers_last_eq fail, any other shape is an ExtractError); spawn_tasks stops its tasks when cancelled in its sleep(0) (`spawnSwept := true`, since d6da86b); run_tasks "
       "handles a cancellation while it stops the root tasks (`stopSwept := true`, since 883284c); queueing.watcher re-checks "
       "worker_error after the depletion and raises (`deplEscalates := true`, since 69d1957); the orchestrator's handler that stops its "
       "ensemble takes CancelledError ONLY (`orchSwept := false`: the label orchCrash at which the current tree leaves the model, open "
       "finding C20-F12; the proposed repair makes sweeps_own_failure_eq fail until the model follows) — are re-extracted from the AST of "
       "orchestration.py / running.py / scanning.py / daemons.py / queueing.py on every run and proved equal to the model's claims "
       "(Kopf/Tie/C20.lean; Boolean equalities about variant flags, none about `step`); a revert of any of these commits makes a tie "
       "theorem fail AND its corpus witness fail the oracle (rehearsed for 69d1957, ab6fb15, d6da86b, 883284c; a revert of 26a293c makes the tie theorem AND the trace tie fail, but no oracle clause: the old "
       "order was not a violation of C20); "
       "A: whole-operator simulations of the real kopf.operator(); one global order log of the atomic segments of "
       "spawn_tasks/run_tasks/startup_cleanup_activities/orchestrator/watcher/worker/daemon_killer/daemons with virtual times, "
       "replayed by the Lean LTS as a COOPERATIVE run (labels AND the time that may pass between them); the exception in flight at "
       "the beginning of a watcher's `finally:`, the outcome of every withdrawal PATCH, the cooperativity of every daemon (did "
       "its exit stopper see its task end, or give it up?) and where a repeated cancellation caught the startup/cleanup task are "
       "OBSERVED in the log, not declared by the scenario; every trace is compared to its END (a truncation at orchAbandon / "
       "spawnCancel / stopCancel can happen only in a tree without one of the repairs, where the tie theorems fail as well)")
STRENGTH = "partial"
LEVEL_TEXT = (
    "Lean theorems for every label list (no bound) of an LTS of the root-task choreography. Time: `delay` is always enabled; "
    "cooperativity (`coopDelay`: tasks honour cancellation at once, the timed waits E, W, D, C, H are kept) is an explicit "
    "predicate on the run (`ReachC`). Since the repairs 69d1957 / ab6fb15 / d6da86b / 883284c the guard `abandoned = false` "
    "('none of the findings C20-F8 / F10 / F11 has happened') is GONE from every theorem: in the model of the current tree no "
    "such label is enabled (repaired_never_abandoned), and the cancellation of operator() inside "
    "spawn_tasks / while run_tasks stops the root tasks is modelled as the code handles it now (rtCancel; every live root task "
    "is cancelled AGAIN: scCut, the killer's interrupted finally). BUT the current tree leaves the model at ONE label, orchCrash "
    "(variant orchSwept := false, tie-checked: the orchestrator's handler that stops its ensemble takes CancelledError only): the "
    "orchestrator's OWN failure ends it at once and orphans its ensemble (open finding C20-F12; "
    "orchestrator_own_failure_leaves_model_witness, replayed on kopf); every theorem is about the code on runs WITHOUT that label "
    "(head_abandoned_only_by_orchestrator_failure_partial: no other label makes a run of the current tree leave the model; the trace "
    "tie compares an orch_fail history up to that label). "
    "FULL theorems (all runs, all moments of failures / flags / handled cancellations): no_api_before_startup, "
    "failed_startup_no_api, ready_after_startup ('startup first', 'ready only after startup'); root_failure_stops_all (once "
    "run_tasks stops, every live root task is cancelled or in its finally; the hung phase only after all root tasks ended; the "
    "return only after the hung tasks are gone); cleanup_last (roots, core, ensemble, workers are over before the cleanup "
    "activity; of the daemons those whose exit stopper did not give them up; after the killer's sweep every running daemon has a "
    "stopper) + interrupted_killer_never_meets_cleanup (a killer cut short by a repeated cancellation never coexists with the "
    "cleanup); reraise (raises only if a root or a hung task failed, returns normally only if no root task failed; WHICH failure "
    "is raised is unspecified); no_daemon_alive_at_return, nothing_alive_at_return (at the return every root task, ensemble "
    "task, worker, daemon, helper is over — what C20-F10 / F11 violated; the core task is not claimed); "
    "stream_failure_stops_all / worker_failure_stops_all / core_failure_stops_all (the fail-fast claims for the current tree: a "
    "failed ensemble task, a watcher failed by its worker, a failed core task cancel/fail a root task at once, which can only end "
    "failed — also when a stop request follows during the escalation); worker_failure_reaches_watcher (NO guard any more: "
    "wherever the watcher is — streaming or already depleting — a failing worker sets worker_error and the watcher can only end "
    "failed; hypothesis `deplEscalates`, tie-checked); no_timelock, stop_flag_felt_at_once, gone_is_not_a_failure (HTTP 404). "
    "PARTIAL (a guard or a weaker conclusion really remains): returns_partial — a POSSIBILITY (EF): from every cooperatively "
    "reachable triggered state SOME continuation of internal steps reaches `exited`; that every fair run returns "
    "(inevitability) is NOT proved: it rests on no_timelock + the bounds + the oracle; exit_bound_partial (exit <= t0 + E + W + D + "
    "C + H) and failure_to_stop_bound_partial (from the first escalated failure: run_tasks begins to stop within 2(E+W+D), the "
    "operator is gone within 3(E+W+D) + C + H — the oracle's bound): for COOPERATIVE runs only "
    "(noncooperative_exit_unbounded_witness, model-level, NOT replayed: a real instance is a sync handler blocking in a thread); "
    "peering_withdrawal_attempted_partial (ATTEMPTED, not withdrawn: withdrawal_may_fail_witness, deviation C20-D3); "
    "head_abandoned_only_by_orchestrator_failure_partial (guard: no orchCrash in the run; the full 'no run of the current tree ever "
    "leaves the model' is FALSE: open finding C20-F12). "
    "FULL, since /repo 26a293c (the orchestrator's exit is two sequential stops; the time bounds above are re-proved on that order: the "
    "streams within E, the keep-alives cancelled not later than t0 + E and withdrawing within W — still E + W + D): "
    "withdrawal_after_handling_stopped (once the exiting orchestrator has begun to stop the keep-alives — whose finally is what "
    "withdraws the record — every watcher and peering observer of the ensemble has ended and no worker of theirs runs; every "
    "reachable state, unguarded) and exit_stops_keepalives_last (the first stop spares the keep-alives; during the exit a running, "
    "uncancelled keep-alive stays so under every label but the second stop and its own failure; the second stop is enabled only "
    "when no stream is alive; the orchestrator does not end before both stops). "
    "FULL, about the bookkeeping behind `fixed` (Kopf.Model.C20_Monitor: the orchestrator attaches its done-callback to current_tasks - "
    "monitored_tasks, sets of TASK OBJECTS, and replaces the bookkeeping; tie T monitors_by_task_eq): every_generation_monitored "
    "(after ANY sequence of adjustments — keys dropped, served again, tasks replaced within one adjustment — every task object of the "
    "ensemble carries the callback: the failure of any generation under any key escalates) and "
    "by_key_bookkeeping_misses_later_generations_witness (a bookkeeping by KEY that never forgets monitors the first generation only: "
    "the seeded change C20g; on the real code the regen_fail histories decide). "
    "FULL, about the release of a dimension (Kopf.Model.C20_Release: terminate_redundancies stops and awaits the redundant tasks, THEN "
    "forgets their keys; the orchestrator's exit stops what the ensemble knows; tie T release_stops_before_forgetting_eq): "
    "release_leaves_nothing_behind (after ANY sequence of adjustments, with the cancellation arriving inside the last release's wait or "
    "not at all, every live key is known: the exit leaves nothing behind) and forgetting_before_stopping_leaves_behind_witness (keys "
    "forgotten before the wait: the released key is alive and unknown when interrupted, same end state when not — the seeded change "
    "C20h; on the real code the drop_then_stop histories decide). "
    "WITNESS about the current tree: repeated_cancel_skips_cleanup_witness (deviation C20-D4, by design, replayed: a cancellation "
    "that arrives while operator() is already stopping skips the cleanup handlers; everything else is over before the return). "
    "HISTORICAL witnesses (about OLD code = a variant flag false, not about the tree; their corpus witnesses are replayed on real "
    "kopf as REGRESSIONS that must pass; they show that a variant hypothesis is needed): historical_stream_failure_lingers_witness "
    "(F3, before 9ef1bcb), historical_core_failure_lingers_witness + historical_core_failure_skips_cleanup_witness (C20-F6, before "
    "ed52a1a), historical_double_cancel_abandons_ensemble_witness (C20-F8, before ab6fb15), "
    "historical_cancel_in_spawn_abandons_tasks_witness (C20-F10, before d6da86b), "
    "historical_cancel_while_stopping_abandons_tasks_witness (C20-F11, before 883284c), "
    "historical_worker_failure_during_depletion_dropped_witness + historical_worker_failure_after_gone_keeps_running_witness "
    "(C20-F5, before 69d1957). "
    "Clauses that rest on ORACLE/TIE only (no theorem): 'the RUN CALL returns, re-raising the failure' for kopf.run() itself (the "
    "real run() around a scripted operator(): outcome and hand-over of every argument; the theorems are about operator()); the "
    "what follows the orchestrator's own failure (open finding C20-F12: the model stops at orchCrash); orphaned discovery requests vs the cleanup; the identity of the re-raised "
    "exception (type name of some failure); 'daemons are stopped' for daemons and timers whose stopper gives them up (deviation "
    "C20-D1), 'the record is withdrawn' when the PATCH fails (C20-D3) and 'cleanup handlers run' after a repeated cancellation "
    "(C20-D4) are recorded as by-design findings, not exempted. "
    "Defects met by this check and repaired in /repo since: F3 (9ef1bcb), C20-F2 (ca0106f), C20-F4 (06bf1c1), C20-F6 (ed52a1a), "
    "C20-F7 (83aec44), C20-F9 (1d3a667), C20-F5 (69d1957), C20-F8 (ab6fb15), C20-F10 (d6da86b), C20-F11 (883284c); their witnesses "
    "stay in the corpus and their oracle clauses stay strict.")
THEOREMS = [("Kopf.Props.C20", "Kopf.C20." + n) for n in [
    "no_api_before_startup", "failed_startup_no_api", "ready_after_startup", "root_failure_stops_all",
    "returns_partial", "no_timelock", "stop_flag_felt_at_once", "cleanup_last", "reraise",
    "no_daemon_alive_at_return", "nothing_alive_at_return", "interrupted_killer_never_meets_cleanup",
    "peering_withdrawal_attempted_partial", "withdrawal_may_fail_witness",
    "withdrawal_after_handling_stopped", "exit_stops_keepalives_last",
    "worker_failure_reaches_watcher", "worker_failure_stops_all", "exit_bound_partial",
    "noncooperative_exit_unbounded_witness", "failure_to_stop_bound_partial", "stream_failure_stops_all",
    "gone_is_not_a_failure", "core_failure_stops_all", "repaired_never_abandoned",
    "head_abandoned_only_by_orchestrator_failure_partial", "orchestrator_own_failure_leaves_model_witness",
    "repeated_cancel_skips_cleanup_witness",
    "every_generation_monitored", "by_key_bookkeeping_misses_later_generations_witness",
    "release_leaves_nothing_behind", "forgetting_before_stopping_leaves_behind_witness",
    "historical_stream_failure_lingers_witness", "historical_core_failure_lingers_witness",
    "historical_core_failure_skips_cleanup_witness", "historical_double_cancel_abandons_ensemble_witness",
    "historical_cancel_in_spawn_abandons_tasks_witness", "historical_cancel_while_stopping_abandons_tasks_witness",
    "historical_worker_failure_during_depletion_dropped_witness",
    "historical_worker_failure_after_gone_keeps_running_witness"]]
TIE_THEOREMS = [("Kopf.Tie.C20", "Kopf.C20.Tie." + n) for n in [
    "escalates_eq", "head_is_fixed", "ignores_not_found_eq", "restarts_exited_eq", "scan_cancels_children_eq",
    "watches_core_eq", "head_core_variant", "shields_stop_eq", "head_shield_variant", "stops_pingers_last_eq", "sweeps_spawn_eq", "sweeps_stop_eq",
    "head_sweep_variant", "escalates_depletion_eq", "head_depletion_variant", "head_handles_cancellations",
    "no_spawn_while_exiting_eq", "sweeps_own_failure_eq", "head_own_failure_variant", "monitors_by_task_eq",
    "release_stops_before_forgetting_eq"]]
RULE = ("seeded lifecycle histories: 0-2 startup handlers (ok / sleeping / temporary with retries / permanent / retries "
        "exhausted), 0-2 cleanup handlers (ok / sleeping / temporary / permanent), 0-2 daemons (obey / needs cancellation / "
        "swallows one cancellation / exits on its own / polls its flag with asyncio.sleep / needs time to unwind after the "
        "cancellation; with and without cancellation_timeout/backoff, inside and outside their stopper's patience), a timer "
        "(25 %: an invocation in flight at the stop is always given up), in-flight update handlers (sleep), 0-3 objects, a second "
        "served kind with a handler in flight on ITS stream (35 % of the stream-failure / stop histories), peering on/off, an empty "
        "vault at the start (15 %: the login handlers run behind the started flag), and ONE OR TWO triggers placed at every phase "
        "(during startup, exactly at its end, during discovery, while watchers start, steady state, with handlers in flight): stop "
        "flag, cancellation of operator(), fatal ERROR on the resource / peering / CRD watch, a worker exception (poisoned event, "
        "failing memo copy), 500s on discovery (initial scan, re-scan from a CRD event) and on the peering keep-alive (also fails "
        "the withdrawal), startup and cleanup handler failures, deletion and re-creation of the served CRD (HTTP 404 in the "
        "watcher: not a failure; watched again), login_fail (HTTP 401 invalidates the credentials, the re-login fails for good — or "
        "the very first login does, with an empty vault: the core task dies and must stop the operator, cleanup handlers included; "
        "with peering in ~30 %), login_fail_at_stop (a stop flag and, at the same moment, HTTP 401 on the next request — the peering "
        "withdrawal or the patch of a handler in flight —: the core task dies DURING the shutdown, after the stop-flag checker has "
        "gone; the failure must still be re-raised, after the cleanup handlers), worker_fail_depletion (a poisoned event queued behind a handler in flight, then a stop), "
        "worker_fail_gone (the same with a CRD deletion instead of the stop: regression of C20-F5 'keeps running'), early_stop_peering (the API "
        "server applies a peering PATCH at once but answers late; the stop comes while the FIRST keep-alive is in flight), and the "
        "two-trigger histories failure_then_stop (stream failure, 1/64-1/4 s later a flag or a cancellation: regression of C20-F8; with "
        "a cancellation after the orchestrator has ended: C20-D4), two_failures, flag_then_cancel (a handler in flight, a flag, "
        "1/64-1/2 s later a cancellation: regression of C20-F11, and C20-D4 — the repeated cancellation catches the startup/cleanup "
        "task in its wait, in the cleanup, or not at all), respawn_daemon (two events of an object with a daemon queued at the stop: "
        "regression of C20-F9), cancel_in_spawn (a cancellation one or two loop iterations after the call: regression of C20-F10), "
        "cancel_in_hung_wait (a daemon its stopper gives up at once, a flag, and a cancellation 0.5-4 s after the root tasks are over: "
        "operator() is cancelled while run_tasks waits for the hung tasks), watch_http (the list/watch requests of the served resource, of "
        "the CRDs or — NAMESPACED operator — of the namespaces are answered with HTTP 403 / 500 / 503 for good: the stream fails with an "
        "API error after the client's retries; an ENVIRONMENT-level failure for the oracle, whatever the tasks make of it), ns_stream (a "
        "NAMESPACED operator, namespaces=['ns']: the namespace observer's own watch stream fails, by an ERROR event or by HTTP 5xx), "
        "orch_fail (the orchestrator's own adjustment of the ensemble raises: open finding C20-F12), pause_stop_race (the API answers "
        "the watch requests of the served resource 0.5 s late; the stream is cut; while the re-watch request is pending a peer of a higher "
        "priority appears and, 0-5 loop iterations apart, the stop comes: the watcher's task is cancelled by the pause-stopper AND by the "
        "exiting operator), regen_fail (a dimension of the orchestrator's ensemble is dropped and served AGAIN under the same key, "
        "once or twice — the served CRD deleted and created again; HTTP 404 for the watcher alone, restarted in ONE adjustment at the "
        "next revision; the namespace of a NAMESPACED operator deleted and created again under its name; the peering CRD with its "
        "object deleted and installed again — the new generation is seen to handle a new object, and then ITS task fails for good: "
        "in-stream ERROR, HTTP 403 / 5xx on its list/watch, a failing worker, an ERROR on the peering stream, 500s on the keep-alive "
        "PATCH; ~5 % of the histories). In 15 % of the stop / stream-failure "
        "histories an object is marked for deletion 1/64-1 s before the trigger (its daemons are being stopped the multi-step way); in 25 % of "
        "those with peering a peer of a higher priority appears 0-3 s before the trigger: the operator is PAUSED (or pausing) when the stop / "
        "the failure comes. 20 % of the histories without "
        "peering run a NAMESPACED operator. A 32 s startup handler in half of the stop-during-startup histories and a 24 s handler in "
        "flight in 20 % of the flag / cancel / stream-failure histories outlast every grace period (a stop felt late, a depletion without "
        "its timeout cannot hide in the slack of the bound). Beside the histories: kopf.run() — the synchronous run call — around a scripted "
        "operator() (returns / raises / is cancelled; with a loop of its own and without): what comes out of it, and that every argument "
        "reaches operator(). "
        "drop_then_stop: a dimension of the ensemble is BEING RELEASED when the stop comes — the served CRD / the namespace of a namespaced "
        "operator / the CRD of the second kind is deleted with update handlers (0.5-24 s) in flight on it since 0.25 s, or the peering CRD "
        "with the farewell answered 0.25-1 s late and refused (retried); 4/64-2.5 s later (inside the release's wait, or just after it) "
        "the stop: flag / cancellation / ERROR on the CRD observer's or the other kind's stream; at least one cleanup handler. "
        "A case is distinct by (trigger kind, phase, startup/cleanup outcome shapes, daemon modes, timer, second kind, empty "
        "vault, in-flight, peering, outcome); non-trivial when a trigger fires.")
TRUSTED = ["harness/sim (virtual-time loop, fake API server, scripted handlers) and harness/props/sim_c20.py (attribute-level "
           "instrumentation: each log entry is written inside the atomic segment it names)",
           "CPython asyncio task/cancellation semantics — exercised, not modelled",
           "the ready flag is observed on the flag object handed to operator() (its `set`), the started flag likewise; "
           "harness/sim/runner.py replaces aiotasks.all_tasks by a per-incarnation one (a defect of all_tasks / of the `ignored` "
           "hand-over is not visible to this check)",
           "three label arguments are chosen by the abstraction by LOOK-AHEAD in the log (prophecy): `fail` of the daemon killer's "
           "and of the keep-alive task's `finally:` (from how the task ends) and `coop` of a daemon at its spawn (from what its exit "
           "stopper observes later: task over / given up); the orchestrator's `fail` is forced by the model (`fail = orchErr`), the "
           "watchers' is observed (exception in flight)"]
ASSUMPTIONS = ["oracle bound = the bound of the Lean theorems + 1 s slack for request latencies: operator() must return within "
               "G + C + H + 1 s after a stop request (flag, cancellation) and within 3*G + C + H + 1 s after the first failure, "
               "G = E + W + D (E = settings.queueing.exit_timeout; W = sum(error_backoffs) + retries of the withdrawal PATCH, peering "
               "only; D = max(cancellation_backoff + cancellation_timeout) over daemons; C = scripted duration of the cleanup "
               "handlers; H = 5 s hard-coded hung-task grace of run_tasks). The three G are sequential in the code: the failing "
               "watcher's own depletion, the orchestrator stopping the other streams, the root observers at shutdown. A lingering "
               "shorter than that bound is invisible to the oracle (only the tie's timing check sees it)",
               "the bounds (exit_bound_partial, failure_to_stop_bound_partial) are proved and checked for COOPERATIVE runs only: tasks "
               "honour cancellation (a daemon swallowing more cancellations than stop_daemon + run_tasks send hangs the exit: "
               "aiotasks.stop has no timeout — noncooperative_exit_unbounded_witness); every generated history is cooperative. SYNC "
               "handlers are a non-cooperative class by kopf's design (a thread cannot be cancelled: a sync startup handler in "
               "time.sleep(12) delays the return by 11.5 s after a flag at 0.5 s — reproduced by the reviewer, /tmp/audit_b2/C20/"
               "exp_sync_handler.py); the harness runs sync handlers inline, so that class is not generated",
               "settings.process.ultimate_exiting_timeout is set to None by the harness (kopf's default, 600 s, arms "
               "loop.call_later(..., pthread_kill, SIGKILL) on every non-flag stop and never disarms it when operator() returns: an "
               "embedding process whose loop lives on is killed 10 min after a failed operator) — not modelled, not checked",
               "stop triggers: one or two per run, at every await of spawn_tasks / run_tasks the current tree handles (sleep(0) of "
               "spawn_tasks; the wait for the first root task; stop(root_pending); the wait for the hung tasks — trigger "
               "cancel_in_hung_wait). NOT modelled and not "
               "generated: a further cancellation of an operator() that is already inside one of its stop(…, cancelled=True) "
               "(aiotasks.stop gives up BY DESIGN, 'double-cancelling': its tasks are left behind — a third trigger after "
               "flag-then-cancel, a second one after a plain cancellation or a cancellation inside spawn_tasks), or inside the final "
               "stop(hung_pending), which has no handler but is instantaneous in a cooperative run; a cancellation of the "
               "startup/cleanup task inside stop(core_tasks) after a FAILED startup (1-2 loop iterations: it would replace the "
               "startup failure)",
               "'cleanup handlers run': PROVED as 'cleanup LAST' (cleanup_last); that they RUN is demanded by the oracle and fails, by "
               "kopf's documented design, when operator() is cancelled while it is already stopping (two stop triggers): deviation "
               "C20-D4 (repeated_cancel_skips_cleanup_witness); after ONE trigger of any kind the cleanup handlers do run (oracle)",
               "the cleanup activity is bounded by the scripted duration C (kopf sets no timeout for cleanup handlers)",
               "the orchestrator's OWN failure (an exception out of its adjusting loop; it handles only CancelledError) is modelled as "
               "the label orchCrash at which the run LEAVES the model (variant orchSwept := false = the current tree, tie-checked; the "
               "ghost flag `abandoned`, as for the historical variants): what the code does AFTER it is judged by the oracle only — the "
               "orchestrator ends at once and its ensemble is orphaned (open finding C20-F12: cleanup beside live streams and handlers; "
               "with peering operator() never returns); generated by the trigger orch_fail (the harness makes one adjust_tasks raise), "
               "the trace tie compares such a history up to that label (`tie_truncated_at: orchCrash`). proposals/fix-C20-F12.diff makes "
               "it the model's 'cancelled by a failed ensemble task' path (then sweeps_own_failure_eq fails until the model follows)",
               "the by-design deviations are accepted only under their documented conditions, OBSERVED: C20-D1 only for a daemon whose "
               "exit stopper ended on its own after its whole patience (cancellation_backoff + cancellation_timeout) and — with a timeout — "
               "after it had asked the task to cancel (Task.cancelling()); a stopper cut short while operator() was not cancelled, or one "
               "that gave up early, is a plain violation. C20-D3 only when the API refused the withdrawal PATCH or the credentials were "
               "gone (dead credentials retriever / HTTP 401) — a withdrawal failing for any other reason is a plain violation",
               "a stream failure by the ENVIRONMENT's doing (HTTP 403 / 5xx for good on the list/watch of a served resource, of the CRDs, "
               "of the namespaces of a namespaced operator) is a failure for the oracle from the moment the client's retries are used up "
               "(sum(error_backoffs) + latencies + 0.5 s), whether or not any task ends failed; by kopf's documented design a 403 on the "
               "CRDs / namespaces is the restricted mode, not a failure: not generated",
               "'the peering record is withdrawn' is PROVED as 'the withdrawal was attempted by every keep-alive task' "
               "(peering_withdrawal_attempted_partial); the oracle demands the record to be gone and reports a failed withdrawal "
               "(request error after the retries, or no credentials after the credentials retriever died) as the by-design "
               "deviation C20-D3",
               "'daemons are stopped': PROVED for the daemons whose exit stopper does not give them up, and that every daemon running "
               "after the killer's sweep has a stopper (cleanup_last_partial); the oracle demands that NO daemon or timer invocation "
               "runs when the cleanup begins and reports those kopf abandons by design (kopf-default daemons that ignore their flag; "
               "timers, which cannot have a cancellation_timeout) as deviation C20-D1. settings.background.instant_exit_timeout is "
               "left at its default (None; 10 zero-time cycles)",
               "a run in which the oracle reports the signature of C20-F7 (fixed by 83aec44: operator() never returns with peering on "
               "and a dead credentials retriever) would be NON-COOPERATIVE and is skipped by the trace tie (counted as "
               "`tie_skipped`); on the current tree there is none",
               "liveness endpoint, _command, real admission webhooks and the event poster (posting disabled) are not started; one "
               "namespace scope (cluster-wide); requests of daemons/timers themselves are not generated (scripted daemons make none)"]

F3_SIG = {"site": "orchestration.orchestrator", "shape": "ensemble task ended with an exception while the operator keeps running"}

CORE_SIG = {"site": "running.spawn_tasks", "shape": "core task ended with an exception while the operator keeps running"}
DOUBLE_SIG = {"site": "orchestration.orchestrator",
              "shape": "orchestrator cancelled a second time while stopping its ensemble: it ends cancelled, the ensemble is orphaned, "
                       "the recorded failure is dropped"}
RESPAWN_SIG = {"site": "daemons.daemon_killer",
               "shape": "daemon spawned by a depleting worker after the daemon killer's sweep: nobody stops it, it runs through the "
                        "cleanup activity and holds the exit until the hung-task stop"}
SPAWNCANCEL_SIG = {"site": "running.spawn_tasks",
                   "shape": "operator() cancelled inside spawn_tasks: the spawned tasks are never stopped and run on after it returned"}
STOPCANCEL_SIG = {"site": "running.run_tasks",
                  "shape": "operator() cancelled while it was stopping its root tasks: it returns at once, its tasks run on after it returned"}
# deviations from the property text that are kopf's documented design (recorded as findings, not exempted)
ABANDON_SIG = {"site": "daemons.stop_daemon",
               "shape": "a daemon that does not exit on its stopper within cancellation_timeout (default: none) is abandoned: it runs "
                        "through the cleanup activity until the hung-task stop"}
WITHDRAW_SIG = {"site": "peering.keepalive",
                "shape": "a failed withdrawal (request error or no credentials) is logged and ignored: the peering record outlives the operator"}
CLEANUP_CUT_SIG = {"site": "running.startup_cleanup_activities",
                   "shape": "operator() cancelled while it is already stopping: the repeated cancellation interrupts the startup/cleanup "
                            "task, the cleanup handlers are skipped or cut short"}
VAULT_SIG = {"site": "peering.keepalive",
             "shape": "withdrawal waits for credentials for ever after the credentials retriever died: operator() never returns"}
DROPPED_SIG = {"site": "queueing.watcher",
               "shape": "worker failed while its watcher was already depleting its workers: only logged, not escalated, not re-raised"}
DK_SIG = {"site": "daemons.daemon_killer",
          "shape": "daemon killer fails (running_daemons changed size during iteration) while spawning the exit stoppers"}
ORCHFAIL_SIG = {"site": "orchestration.orchestrator",
                "shape": "the orchestrator ended with an exception of its own (not a cancellation) without stopping its ensemble: the "
                         "streams, their handlers in flight and the keep-alives run on through the cleanup activity until the hung-task stop"}
ORPHAN_SIG = {"site": "scanning.scan_resources",
              "shape": "discovery requests by orphaned as_completed children after the observer task ended, concurrent with the cleanup activity"}

TPS = 64
LAT = 1.0 / 64
H_S = 5.0                         # run_tasks: `wait(hung_tasks, timeout=5)`
BACKOFFS = (1, 1, 2)              # harness default of settings.networking.error_backoffs
SLACK_S = 1.0


def ticks(x: float) -> int:
    v = x * TPS
    r = round(v)
    if abs(v - r) > 1e-6:
        raise ValueError(f"time {x!r} is not a multiple of 1/{TPS} s")
    return int(r)


# =================================================================================================
# Translator (tie T): which variant of the model is the model of THIS source?
# =================================================================================================
def _find_def(tree: ast.AST, name: str) -> ast.AST:
    for n in ast.walk(tree):
        if isinstance(n, (ast.FunctionDef, ast.AsyncFunctionDef)) and n.name == name:
            return n
    raise ExtractError(f"function `{name}` not found")


def _calls(node: ast.AST, attr: str) -> list[ast.Call]:
    return [n for n in ast.walk(node) if isinstance(n, ast.Call) and isinstance(n.func, ast.Attribute) and n.func.attr == attr]


def extract(ctx: Ctx) -> None:
    """Facts of `orchestration.py` / `scanning.py` that decide the model variant, as Lean booleans. Unknown shapes
    (a function that is not there any more) are an ExtractError; a fact that does not hold is `false`, and then
    Kopf/Tie/C20.lean no longer proves."""
    try:
        otree = ast.parse((ctx.repo / "kopf/_core/reactor/orchestration.py").read_text())
        stree = ast.parse((ctx.repo / "kopf/_cogs/clients/scanning.py").read_text())
    except (OSError, SyntaxError) as e:
        raise ExtractError(f"cannot parse the sources: {e}")
    orch = _find_def(otree, "orchestrator")
    inner = [n for n in ast.walk(orch) if isinstance(n, ast.FunctionDef)]
    # (1) a local callback is attached with add_done_callback to the tasks of the ensemble, inside the adjusting loop
    loops = [n for n in ast.walk(orch) if isinstance(n, ast.While)]
    attached = {c.args[0].id for w in loops for c in _calls(w, "add_done_callback")
                if c.args and isinstance(c.args[0], ast.Name)}
    callbacks = [f for f in inner if f.name in attached]
    attaches = bool(callbacks) and any("get_tasks" in ast.unparse(w) for w in loops)
    # (1b) WHICH tasks get it — the bookkeeping (`Kopf.Model.C20_Monitor`, variant byTask): the callback is attached in
    #      `for task in <current> - <monitored>:` where <current> is, in the same loop body, the set of the TASK OBJECTS of the whole
    #      ensemble (`…get_tasks(…get_keys())`) and <monitored> is REPLACED by <current> after that loop (`<monitored> = <current>`):
    #      a task object that is new under an old key is in the difference. Any other shape (bookkeeping by key, kept elsewhere,
    #      only ever added to by key, …) is `false`: then monitors_by_task_eq fails and the `regen_fail` histories decide.
    by_task = False
    for w in loops:
        for blk in [n.body for n in ast.walk(w) if isinstance(n, (ast.While, ast.AsyncWith, ast.With, ast.If, ast.Try))]:
            for k_, st_ in enumerate(blk):
                if isinstance(st_, ast.For) and _calls(st_, "add_done_callback") and isinstance(st_.iter, ast.BinOp) \
                        and isinstance(st_.iter.op, ast.Sub) and isinstance(st_.iter.left, ast.Name) and isinstance(st_.iter.right, ast.Name):
                    cur, mon = st_.iter.left.id, st_.iter.right.id
                    cur_ok = any(isinstance(x, ast.Assign) and any(isinstance(t_, ast.Name) and t_.id == cur for t_ in x.targets)
                                 and "get_tasks" in ast.unparse(x.value) and "get_keys" in ast.unparse(x.value) for x in blk[:k_])
                    mon_ok = any(isinstance(x, ast.Assign) and any(isinstance(t_, ast.Name) and t_.id == mon for t_ in x.targets)
                                 and isinstance(x.value, ast.Name) and x.value.id == cur for x in blk[k_ + 1:])
                    others = [x for x in ast.walk(orch) if isinstance(x, (ast.Assign, ast.AugAssign, ast.AnnAssign))
                              and any(isinstance(t_, ast.Name) and t_.id == mon
                                      for t_ in (x.targets if isinstance(x, ast.Assign) else [x.target]))]
                    by_task = by_task or (cur_ok and mon_ok and len(others) == 2)     # (its initialisation and the replacement)
    # (2) that callback looks at the task's exception and cancels the orchestrator's own task
    own_task = {t.id for n in ast.walk(orch) if isinstance(n, ast.Assign) and "current_task" in ast.unparse(n.value)
                for t in n.targets if isinstance(t, ast.Name)}
    cancels = any(_calls(f, "exception") and any(isinstance(c.func.value, ast.Name) and c.func.value.id in own_task
                                                   for c in _calls(f, "cancel")) for f in callbacks)
    # (3) ... but passes over APINotFoundError
    ignores404 = any(any(isinstance(n, ast.If) and "isinstance" in ast.unparse(n.test) and "APINotFoundError" in ast.unparse(n.test)
                         and all(isinstance(b, ast.Pass) for b in n.body) for n in ast.walk(f)) for f in callbacks)
    # ... and passes over NOTHING ELSE: every branch of the callback that does nothing (`pass` only) must be exactly
    # `isinstance(<name>, [errors.]APINotFoundError)` — a tuple of classes, a base class (APIClientError), an `or` are other
    # failures the operator would survive half-alive: unknown shape (the generated stream failures — HTTP 403 / 5xx on the
    # list/watch, in-stream ERROR events — are what finds the failing input then)
    def _only_not_found(test: ast.AST) -> bool:
        return (isinstance(test, ast.Call) and isinstance(test.func, ast.Name) and test.func.id == "isinstance" and len(test.args) == 2
                and not test.keywords and isinstance(test.args[0], ast.Name) and isinstance(test.args[1], (ast.Attribute, ast.Name))
                and ast.unparse(test.args[1]).split(".")[-1] == "APINotFoundError")
    for f in callbacks:
        for n in ast.walk(f):
            if isinstance(n, ast.If) and all(isinstance(b, ast.Pass) for b in n.body) and not _only_not_found(n.test):
                raise ExtractError(f"the orchestrator's done-callback passes over `{ast.unparse(n.test)[:100]}`: only "
                                   f"`isinstance(exc, errors.APINotFoundError)` is a known shape")
    # (4) the CancelledError handler stops the streams and then raises the recorded error (not only the cancellation)
    recorded = {n.id for f in callbacks for st in ast.walk(f) if isinstance(st, ast.Nonlocal) for n in
                [ast.Name(id=x) for x in st.names]}
    reraises = False
    for t in [n for n in ast.walk(orch) if isinstance(n, ast.Try)]:
        for h in t.handlers:
            if h.type is not None and "CancelledError" in ast.unparse(h.type):
                src = [ast.unparse(x) for x in h.body]
                stops = any("aiotasks.stop" in x for x in src)
                raises = [n for n in ast.walk(h) if isinstance(n, ast.Raise) and isinstance(n.exc, ast.Name) and n.exc.id in recorded]
                reraises = reraises or (stops and bool(raises))
    # (4b) ... and is that stop shielded from a SECOND cancellation (`asyncio.shield` inside the handler, as queueing.watcher does)?
    shields_stop = False
    for tnode in [n for n in ast.walk(orch) if isinstance(n, ast.Try)]:
        for h in tnode.handlers:
            if h.type is not None and "CancelledError" in ast.unparse(h.type):
                shields_stop = shields_stop or (bool(_calls(h, "shield")) and any("aiotasks.stop" in ast.unparse(x) for x in h.body))
    # (4c) ... and the ORDER inside that shielded task (since /repo 26a293c, `stop_in_order`): first every ensemble task but the
    #      pinging ones, then the pinging ones — `rootStopping orchestrator` / `orchStopPingers` of the model. Known shapes: ONE
    #      `aiotasks.stop(<all tasks of the ensemble>)` (the tree before: fact false), or a local coroutine function whose body is
    #      exactly TWO awaited `aiotasks.stop(...)` in sequence over {the pinging tasks, the rest}, wrapped in the shielded task
    #      (fact true iff the rest comes first). Anything else is an unknown shape.
    cancel_handlers = [h for tnode in ast.walk(orch) if isinstance(tnode, ast.Try) for h in tnode.handlers
                       if h.type is not None and "CancelledError" in ast.unparse(h.type)]
    if len(cancel_handlers) != 1:
        raise ExtractError(f"orchestrator has {len(cancel_handlers)} handlers of CancelledError: unknown shape")
    xh = cancel_handlers[0]
    # (4d) does that handler — the only place where the orchestrator stops its ensemble — take the orchestrator's OWN failures too
    #      (a bare `except:`, `BaseException`, or `Exception` beside `CancelledError`)? FALSE in the current tree: open finding
    #      C20-F12 (the model's label `orchCrash`, variant `orchSwept := false`); proposals/fix-C20-F12 makes it true
    sweeps_own_failure = xh.type is None or any(n in ("Exception", "BaseException") for n in
                                                [ast.unparse(x).split(".")[-1] for x in
                                                 (xh.type.elts if isinstance(xh.type, ast.Tuple) else [xh.type])])
    exit_stops = [c for c in _calls(xh, "stop") if isinstance(c.func.value, ast.Name) and c.func.value.id == "aiotasks"]

    def _stop_set(call: ast.Call) -> str:
        """which tasks does this `aiotasks.stop(<name>, …)` stop: 'all' | 'pingers' | 'rest' (everything but the pingers)"""
        if not call.args or not isinstance(call.args[0], ast.Name):
            raise ExtractError(f"orchestrator's exit stop has an unknown first argument: {ast.unparse(call)[:80]}")
        name = call.args[0].id
        vals = [n.value for n in ast.walk(xh) if isinstance(n, ast.Assign) and any(isinstance(t, ast.Name) and t.id == name for t in n.targets)]
        if len(vals) != 1:
            raise ExtractError(f"`{name}` (stopped at the orchestrator's exit) is assigned {len(vals)} times in the handler: unknown shape")
        v = vals[0]
        src = ast.unparse(v)
        if isinstance(v, ast.Call) and isinstance(v.func, ast.Attribute) and v.func.attr == "get_tasks":
            return "all"
        if isinstance(v, (ast.SetComp, ast.ListComp)) and len(v.generators) == 1:
            it = ast.unparse(v.generators[0].iter)
            conds = v.generators[0].ifs
            if "pinging_tasks" in it and "get_tasks" not in src:
                return "pingers"
            excl = [c for c in conds if isinstance(c, ast.Compare) and len(c.ops) == 1 and isinstance(c.ops[0], ast.NotIn)
                    and isinstance(c.comparators[0], ast.Name)]
            if "get_tasks" in it and len(conds) == 1 and len(excl) == 1:
                # ... `not in <a name that is itself the set of the pinging tasks>`
                pv = [n.value for n in ast.walk(xh) if isinstance(n, ast.Assign)
                      and any(isinstance(t, ast.Name) and t.id == excl[0].comparators[0].id for t in n.targets)]
                if len(pv) == 1 and "pinging_tasks" in ast.unparse(pv[0]) and "get_tasks" not in ast.unparse(pv[0]):
                    return "rest"
        raise ExtractError(f"cannot tell which tasks `{name} = {src[:80]}` are: unknown shape")

    if len(exit_stops) == 1:
        if _stop_set(exit_stops[0]) != "all":
            raise ExtractError("the orchestrator's single exit stop does not stop all tasks of the ensemble: unknown shape")
        stops_pingers_last = False
    elif len(exit_stops) == 2:
        seqs = [f for f in ast.walk(xh) if isinstance(f, ast.AsyncFunctionDef)
                and all(any(c is x for x in ast.walk(f)) for c in exit_stops)]
        if len(seqs) != 1:
            raise ExtractError("the orchestrator's two exit stops are not inside one local coroutine function: unknown shape")
        body = [st_ for st_ in seqs[0].body if not (isinstance(st_, ast.Expr) and isinstance(st_.value, ast.Constant))]
        if not (len(body) == 2 and all(isinstance(st_, ast.Expr) and isinstance(st_.value, ast.Await) and st_.value.value is c
                                       for st_, c in zip(body, sorted(exit_stops, key=lambda c: c.lineno)))):
            raise ExtractError(f"`{seqs[0].name}` is not exactly two awaited aiotasks.stop(...) in sequence: unknown shape")
        # the shielded task runs that function: `create_task(<name>())` in the handler, and that task is what `shield` gets
        made = [n for n in ast.walk(xh) if isinstance(n, ast.Assign) and isinstance(n.value, ast.Call)
                and ast.unparse(n.value.func).endswith("create_task") and n.value.args
                and isinstance(n.value.args[0], ast.Call) and isinstance(n.value.args[0].func, ast.Name)
                and n.value.args[0].func.id == seqs[0].name]
        shielded = {ast.unparse(c.args[0]) for c in _calls(xh, "shield") if c.args}
        if len(made) != 1 or not any(isinstance(t, ast.Name) and t.id in shielded for t in made[0].targets):
            raise ExtractError(f"`{seqs[0].name}()` is not the task the orchestrator shields at its exit: unknown shape")
        order = [_stop_set(c) for c in sorted(exit_stops, key=lambda c: c.lineno)]
        if sorted(order) != ["pingers", "rest"]:
            raise ExtractError(f"the orchestrator's two exit stops stop {order}: unknown shape")
        stops_pingers_last = order == ["rest", "pingers"]
    else:
        raise ExtractError(f"the orchestrator's CancelledError handler has {len(exit_stops)} aiotasks.stop calls: unknown shape")
    # (5) terminate_redundancies: exited tasks make their key redundant
    term = _find_def(otree, "terminate_redundancies")
    comps = [n for n in ast.walk(term) if isinstance(n, ast.SetComp)]
    done_redundant = any(_calls(c, "done") and "get_tasks" in ast.unparse(c) for c in comps)
    # (5b) terminate_redundancies: the redundant tasks are stopped (and awaited) BEFORE their keys are deleted from the ensemble
    #      (`Kopf.Model.C20_Release`, variant stopFirst): top-level statements of the function, in order
    i_stop = [k for k, st_ in enumerate(term.body) if any(isinstance(x, ast.Await) for x in ast.walk(st_)) and _calls(st_, "stop")]
    i_del = [k for k, st_ in enumerate(term.body) if _calls(st_, "del_keys")]
    if len(i_stop) != 1 or len(i_del) != 1:
        raise ExtractError(f"terminate_redundancies has {len(i_stop)} awaited stop(…) and {len(i_del)} del_keys(…) statements: unknown shape")
    stops_before_forgetting = i_stop[0] < i_del[0]
    # (6) scan_resources and its helpers: gather + cancel in finally, no as_completed
    for name in ("scan_resources", "_read_old_api", "_read_new_apis"):
        _find_def(stree, name)
    uses_as_completed = bool(_calls(stree, "as_completed"))
    helpers = [f for f in ast.walk(stree) if isinstance(f, ast.AsyncFunctionDef) and _calls(f, "gather")]
    cancels_children = any(any(isinstance(t, ast.Try) and any(_calls(x, "cancel") for x in t.finalbody) for t in ast.walk(f))
                           for f in helpers)
    helper_names = {f.name for f in helpers}
    gathers = bool(helpers) and all(any(isinstance(c.func, ast.Name) and c.func.id in helper_names
                                        for c in ast.walk(_find_def(stree, n)) if isinstance(c, ast.Call))
                                    for n in ("scan_resources", "_read_old_api", "_read_new_apis"))
    # (7) running.py: is there a ROOT task that awaits the core tasks (FIRST_COMPLETED) and re-raises their errors, and are
    #     those errors re-raised by startup_cleanup_activities only AFTER the cleanup activity? (finding C20-F6 / its repair)
    try:
        rtree = ast.parse((ctx.repo / "kopf/_core/reactor/running.py").read_text())
    except (OSError, SyntaxError) as e:
        raise ExtractError(f"cannot parse running.py: {e}")
    spawn = _find_def(rtree, "spawn_tasks")
    sca = _find_def(rtree, "startup_cleanup_activities")
    if not any(isinstance(n, ast.keyword) and n.arg == "core_tasks" for n in ast.walk(spawn)):
        raise ExtractError("spawn_tasks passes no `core_tasks` to anybody: unknown shape")
    root_appends = [c for c in _calls(spawn, "append") if isinstance(c.func.value, ast.Name) and c.func.value.id == "tasks"]
    awaiting = set()
    for c in root_appends:
        for call in ast.walk(c):
            if isinstance(call, ast.Call) and isinstance(call.func, ast.Name) and call.func.id != "startup_cleanup_activities" \
                    and any(k.arg == "core_tasks" for k in call.keywords):
                awaiting.add(call.func.id)
    root_awaits_core = False
    for name in awaiting:
        f = _find_def(rtree, name)
        waits = [c for c in _calls(f, "wait") if any(k.arg == "return_when" and "FIRST_COMPLETED" in ast.unparse(k.value)
                                                      for k in c.keywords)]
        # ... and re-raises: `reraise(done)`, or `await` of the future popped from `done`
        reraises_core = bool(_calls(f, "reraise")) or any(isinstance(n, ast.Await) and isinstance(n.value, ast.Name) for n in ast.walk(f))
        root_awaits_core = root_awaits_core or (bool(waits) and reraises_core)
    checker_awaits_core = "stop_flag_checker" in awaiting
    cleanup_lines = [c.lineno for c in _calls(sca, "run_activity") if "CLEANUP" in ast.unparse(c)]
    core_reraise = [c.lineno for c in _calls(sca, "reraise") if c.args and "core" in ast.unparse(c.args[0])]
    if not cleanup_lines:
        raise ExtractError("startup_cleanup_activities runs no cleanup activity: unknown shape")
    core_after_cleanup = bool(core_reraise) and all(l > max(cleanup_lines) for l in core_reraise)
    ctx.extra["core_awaited_by_stop_flag_checker"] = checker_awaits_core and root_awaits_core
    # (8) daemons.py: the killer's `finally:` marks the memories as exiting BEFORE it looks for the daemons, and spawn_daemons
    #     spawns nothing for a marked memory (/repo 1d3a667)
    try:
        dtree = ast.parse((ctx.repo / "kopf/_core/engines/daemons.py").read_text())
    except (OSError, SyntaxError) as e:
        raise ExtractError(f"cannot parse daemons.py: {e}")
    killer = _find_def(dtree, "daemon_killer")
    spawner = _find_def(dtree, "spawn_daemons")
    marks = False
    for tnode in [n for n in ast.walk(killer) if isinstance(n, ast.Try) and n.finalbody]:
        first = tnode.finalbody[0]
        marks = marks or bool(_calls(first, "mark_operator_exiting"))
    honours = any(isinstance(n, ast.If) and "operator_exiting" in ast.unparse(n.test)
                  and any(isinstance(b, ast.Return) for b in n.body) for n in ast.walk(spawner))
    # (9) running.py: is a cancellation of operator() handled (a) inside spawn_tasks' final `await asyncio.sleep(0)` and (b) while
    #     run_tasks awaits `aiotasks.stop(root_pending, …)`? (findings C20-F10 / C20-F11: neither is, in the current tree)
    def _guarded_by_cancel_handler(fn: ast.AST, is_target: Any) -> bool:
        for tnode in [n for n in ast.walk(fn) if isinstance(n, ast.Try)]:
            handles = any(h.type is not None and "CancelledError" in ast.unparse(h.type) and _calls(h, "stop") for h in tnode.handlers)
            if handles and any(is_target(x) for b in tnode.body for x in ast.walk(b)):
                return True
        return False
    run_t = _find_def(rtree, "run_tasks")
    sleeps0 = [c for c in _calls(spawn, "sleep") if c.args and isinstance(c.args[0], ast.Constant) and c.args[0].value == 0]
    stops_pending = [c for c in _calls(run_t, "stop") if c.args and "root_pending" in ast.unparse(c.args[0])]
    if not sleeps0 or not stops_pending:
        raise ExtractError("spawn_tasks has no final `sleep(0)` / run_tasks no `stop(root_pending)`: unknown shape")
    spawn_sweeps = _guarded_by_cancel_handler(spawn, lambda x: x in sleeps0)
    stop_sweeps = _guarded_by_cancel_handler(run_t, lambda x: x in stops_pending)
    # (10) queueing.py: does the watcher re-check `worker_error` in its `finally:` AFTER the depletion of the workers and the
    #      closing of the scheduler, and raise? (finding C20-F5 / its repair, /repo 69d1957)
    try:
        qtree = ast.parse((ctx.repo / "kopf/_core/reactor/queueing.py").read_text())
    except (OSError, SyntaxError) as e:
        raise ExtractError(f"cannot parse queueing.py: {e}")
    qwatcher = _find_def(qtree, "watcher")
    finals = [n.finalbody for n in ast.walk(qwatcher) if isinstance(n, ast.Try) and n.finalbody
              and any("_wait_for_depletion" in ast.unparse(x) for x in n.finalbody)]
    if not finals:
        raise ExtractError("queueing.watcher has no `finally:` that waits for the depletion of the workers: unknown shape")
    rechecks = False
    for fb in finals:
        closes = [k for k, st_ in enumerate(fb) if "scheduler.close" in ast.unparse(st_)]
        after = fb[(max(closes) + 1) if closes else len(fb):]
        rechecks = rechecks or any(isinstance(st_, ast.If) and "worker_error" in ast.unparse(st_.test)
                                   and any(isinstance(x, ast.Raise) for x in ast.walk(st_)) for st_ in after)
    facts = {"orchestratorSweepsOnOwnFailure": sweeps_own_failure, "watcherRechecksWorkerError": rechecks, "spawnTasksSweepsOnCancel": spawn_sweeps, "runTasksSweepsOnCancel": stop_sweeps, "killerMarksExiting": marks, "spawnHonoursExiting": honours, "rootTaskAwaitsCore": root_awaits_core, "coreErrorsAfterCleanup": core_after_cleanup,
             "orchestratorShieldsStop": shields_stop, "orchestratorStopsPingersLast": stops_pingers_last, "attachesDoneCallback": attaches, "monitorsByTaskObject": by_task, "callbackCancelsOrchestrator": cancels, "callbackIgnoresNotFound": ignores404,
             "reraisesTaskError": reraises, "doneTasksAreRedundant": done_redundant, "releaseStopsBeforeForgetting": stops_before_forgetting, "scanGathers": gathers,
             "scanCancelsInFinally": cancels_children, "scanUsesAsCompleted": uses_as_completed}
    ctx.extra["extracted_facts"] = facts
    text = ("/- GENERATED by harness/props/c20.py::extract from kopf/_core/reactor/orchestration.py, running.py, queueing.py,\n"
            "   kopf/_core/engines/daemons.py and kopf/_cogs/clients/scanning.py — do not edit. -/\nnamespace Kopf.C20.Extracted\n"
            + "".join(f"def {k} : Bool := {'true' if v else 'false'}\n" for k, v in facts.items())
            + "end Kopf.C20.Extracted\n")
    leanio.write_generated("Kopf/Extracted/C20.lean", text)


# =================================================================================================
# Grace periods (derived from the code; see the module docstring of the Lean model)
# =================================================================================================
def script_duration(h: dict) -> float:
    """Upper bound of the time one activity handler keeps `run_activity` busy (all attempts)."""
    total = 0.0
    backoff = float((h.get("opts") or {}).get("backoff", 60.0))
    for a in h.get("script", []):
        while isinstance(a, list) and a and a[0] == "sleep":
            total += float(a[1])
            a = a[2] if len(a) > 2 else "ok"
        name = a[0] if isinstance(a, list) else a
        if name == "temp":
            total += float(a[1]) if isinstance(a, list) and len(a) > 1 else backoff
        elif name == "arb":
            total += backoff
        else:
            break
    return total


def graces(sc: dict) -> dict:
    st = sc.get("settings", {})
    e = float(st.get("queueing.exit_timeout", 2.0))
    w = (sum(BACKOFFS) + (len(BACKOFFS) + 1) * (2 * LAT + float(sc.get("peering_response_latency") or 0.0))) if sc.get("peering") else 0.0
    c = sum(script_duration(h) for h in sc.get("handlers", []) if h["kind"] == "cleanup")
    d = max([float((h.get("opts") or {}).get("cancellation_backoff") or 0) + float((h.get("opts") or {}).get("cancellation_timeout") or 0)
             for h in sc.get("handlers", []) if h["kind"] == "daemon"] or [0.0])
    return {"E": e, "W": w, "D": d, "C": c, "H": H_S}


def bound_s(sc: dict, kind: str = "failure") -> float:
    """operator() must have returned within this many seconds after the trigger — the bounds of the Lean theorems plus slack:
       after a stop request (flag, cancellation: `run_tasks` begins to stop at once)  G + C + H   (`exit_bound_partial`),
       after a failure                                                              3·G + C + H   (`failure_to_stop_bound_partial`:
       the failing task's own `finally:`, the orchestrator stopping the other streams, then the shutdown proper),
       G = E + W + D: E depletion of workers (exit_timeout), W peering withdrawal incl. retries, D exit stoppers of daemons
       (cancellation_backoff + cancellation_timeout); C scripted cleanup duration; H hung tasks, 5 s."""
    g = graces(sc)
    G = g["E"] + g["W"] + g["D"]
    return (1 if kind in ("flag", "cancel") else 3) * G + g["C"] + g["H"] + SLACK_S


def given_up(log: list, upto: int | None = None) -> set[tuple]:
    """OBSERVED: the daemons (handler id, object) whose stopper ended while their task was still alive — `stop_daemon` has set the
    stopper, waited `cancellation_backoff`, cancelled the task if `cancellation_timeout` is set, waited that long, and then given
    the daemon up ("Leaving it orphaned"). Every other daemon that got a stopper ended within its stopper's patience."""
    return {(e[2], e[4] if len(e) > 4 else None) for e in log[:upto] if e[1] == "stopperEnd" and not e[3]}


def unjustified_give_ups(sc: dict, log: list, upto: int | None = None) -> list[tuple]:
    """The by-design deviation C20-D1 is: `stop_daemon` sets the stopper, waits `cancellation_backoff`, cancels the task if
    `cancellation_timeout` is set, waits that long, and only THEN gives the daemon up. A daemon left alive by a stopper that did
    NOT go through all of that — it ended before its patience (backoff + timeout) was over, it never asked the task to cancel
    although a timeout is configured, or it was itself cut short (cancelled / failed) while operator() was not cancelled — was not
    "given up by design": it simply was not stopped. OBSERVED: the stopper's begin/end times, how it ended, `Task.cancelling()`
    of the daemon's task; from the scenario: the configured backoff / timeout of that handler."""
    opts_of = {h["id"]: (h.get("opts") or {}) for h in sc.get("handlers", []) if h["kind"] in ("daemon", "timer")}
    out: list[tuple] = []
    begun: dict[tuple, float] = {}
    op_cancelled = False
    for e in log[:upto]:
        if e[1] == "op" and e[2] in ("cancel", "cancel_yields"):
            op_cancelled = True
        elif e[1] == "stopperBegin":
            begun[(e[2], e[4] if len(e) > 4 else None, e[5] if len(e) > 5 else None)] = e[0]
        elif e[1] == "stopperEnd" and not e[3]:
            key = (e[2], e[4] if len(e) > 4 else None)
            how = e[5] if len(e) > 5 else "ended"
            cancelling = e[6] if len(e) > 6 else None
            o = opts_of.get(e[2], {})
            b, t = o.get("cancellation_backoff"), o.get("cancellation_timeout")
            patience = float(b or 0) + float(t or 0)
            spent = e[0] - begun.get((*key, e[7] if len(e) > 7 else None), e[0] - patience)    # (begin and end of the SAME stopper)
            if how != "ended":
                if not op_cancelled:        # (a repeated cancellation of operator() cuts the killer and its stoppers short: C20-D4)
                    out.append((key, f"its stopper was {how} after {spent} s"))
            elif spent + 1e-9 < patience:
                out.append((key, f"its stopper gave up after {spent} s of {patience} s (backoff {b}, timeout {t})"))
            elif t is not None and cancelling is not None and cancelling < 1:
                out.append((key, f"its stopper never cancelled the task although cancellation_timeout={t}"))
    return out


def model_cfg(sc: dict, fixed: bool, core_watched: bool, orch_shielded: bool = True, spawn_swept: bool = True,
              stop_swept: bool = True, depl_escalates: bool = True, orch_swept: bool = False) -> dict:
    g = graces(sc)
    return {"fixed": fixed, "coreWatched": core_watched, "orchShielded": orch_shielded, "spawnSwept": spawn_swept,
            "stopSwept": stop_swept, "deplEscalates": depl_escalates, "orchSwept": orch_swept, "E": ticks(g["E"]), "W": ticks(g["W"]), "D": ticks(g["D"]),
            "C": ticks(g["C"]), "H": ticks(g["H"])}


# =================================================================================================
# Abstraction: the global order log → model labels (tie A)
# =================================================================================================
ROOTS = {"stopFlag", "ultimate", "startupCleanup", "coreWatcher", "daemonKiller", "poster", "admChain", "admValidating", "admMutating",
         "admServer", "resObserver", "nsObserver", "orchestrator"}


def abstract(obs: dict, sc: dict | None = None, checker_awaits_core: bool = False) -> list[list]:
    """`checker_awaits_core`: in this tree the stop-flag checker is the root task that awaits the core tasks (no task of its
    own): when it ends BECAUSE OF a core task (failed; or done with no flag set while run_tasks still waits) it plays the model's
    `coreWatcher`, and the model's `stopFlag` is the phantom that ends when run_tasks cancels the root tasks."""
    log = obs["log"]
    stopping_begun = False
    checker_was_watcher = False
    hung_wait_cancelled = False
    orch_err = False               # a (non-404) failed ensemble task has cancelled the running orchestrator
    orch_stopping = False
    orch_poisoned = False          # the harness has made the orchestrator's own loop raise (`poisoned orchestrator`)
    open_stop_redundant = False    # the orchestrator's latest `aiotasks.stop` is the one of `terminate_redundancies`
    wd_requests: dict[int, int] = {}
    out: list[list] = []
    spawned_seen = False
    # cooperativity of a daemon task = what its stopper OBSERVED (label argument of `daemonSpawn`: a prophecy by look-ahead in the
    # log): for the k-th task of (handler, object), was the first stopper outcome after its creation "gave it up"?
    gave_up_at: dict[tuple, list[int]] = {}
    for i_, e_ in enumerate(log):
        if e_[1] == "stopperEnd" and not e_[3]:
            gave_up_at.setdefault((e_[2], e_[4] if len(e_) > 4 else None), []).append(i_)
    created_at: dict[tuple, list[int]] = {}
    for i_, e_ in enumerate(log):
        if e_[1] == "daemonCreated":
            created_at.setdefault((e_[2], e_[3]), []).append(i_)

    def observed_coop(key: tuple, pos: int) -> bool:
        later = [p for p in created_at.get(key, []) if p > pos]
        nxt = later[0] if later else len(log)
        return not any(pos < g < nxt for g in gave_up_at.get(key, []))
    # outcomes of the withdrawal PATCHes, in the order of their requests
    wd_ok = [isinstance(r.get("response"), int) and r["response"] < 400 for r in obs.get("requests", []) if r.get("withdraw")]
    n_wd = 0
    # the "core tasks watcher" exists only in a tree with the repair of C20-F6; otherwise the model's root task of that name is
    # a phantom, which ends (cancelled) at the moment `run_tasks` cancels the root tasks
    has_cw = any((e[1] == "rootEnd" and e[2] == "coreWatcher") or (e[1] == "spawned" and "coreWatcher" in e[2]) for e in log)
    sub_end = {e[2]: e[4] for e in log if e[1] == "subEnd"}
    sub_exc = {e[2]: e[5] for e in log if e[1] == "subEnd"}
    root_end = {e[2]: e[3] for e in log if e[1] == "rootEnd"}
    sub_stopping: set[int] = set()
    daemons: dict[tuple, int] = {}
    n_daemons = 0
    flag_set = False
    killer_stopping = False
    exited = False
    orphans: set[int] = set()
    orphans_ended: set[int] = set()
    ended_roots: set[str] = set()
    ended_subs: set[int] = set()

    def task(kind: str, ref: Any) -> list:
        if kind in ROOTS:
            return ["root", kind]
        if kind in ("watcher", "peerWatcher", "pinger") and ref is not None:
            return ["sub", ref]
        if kind == "worker" and ref is not None:
            return ["worker", ref - 1]
        return ["root", f"unknown:{kind}"]

    for pos_, e in enumerate(log):
        t, kind, a = ticks(e[0]), e[1], e[2:]

        def put(*lab: Any) -> None:
            out.append([t, *lab])
        if kind == "spawned":
            spawned_seen = True
        if kind == "poisoned" and a and a[0] == "orchestrator":
            orch_poisoned = True
        if kind == "rtStopRootsCancelled":
            # operator() was cancelled while run_tasks awaited `stop(root_pending)`: since /repo 883284c it stops ALL root tasks
            # again (`rtStopRootsBegin … cancelled`, below: `rtCancel`); a tree without that handler ends operator() here (the
            # historical variant `stopSwept := false`, finding C20-F11: the run leaves the model)
            if not any(x[1] == "rtStopRootsBegin" and x[3] for x in log[pos_ + 1:]):
                put("stopCancel")
            continue
        if kind in ("scWaitRootsCancelled", "scStopCoreCancelled", "vaultCloseCancelled"):
            # a repeated cancellation reached `startup_cleanup_activities` where it waited: no (further) cleanup, by design
            put("scCut")
            continue
        if kind in ("spawn", "spawned", "spawnCancelled", "rtWaitDone", "rtCancelled", "rtStopRootsEnd", "rtHungWaitEnd",
                    "rtStopHungEnd", "rtReraise", "scReraiseCore", "scCleanupBegin", "orchStopSubsEnd", "stopperEnd", "zombies",
                    "poisoned", "abandoned"):
            continue
        if kind == "orchStopSubsCancelled":
            # the orchestrator's EXIT stop `await aiotasks.stop(ensemble)` was interrupted by a second cancellation: a tree without
            # the shield of /repo ab6fb15 (historical variant `orchShielded := false`, finding C20-F8) — the model does not describe
            # the code beyond this label, the driver stops comparing here ("truncated"). (When the interrupted stop is the one of
            # `terminate_redundancies`, this is merely the cancellation of the RUNNING orchestrator arriving: no label.)
            if not open_stop_redundant:
                put("orchAbandon")
            continue
        if kind == "killerFinally":
            if not killer_stopping:
                killer_stopping = True
                put("rootStopping", "daemonKiller", root_end.get("daemonKiller") == "failed")
            continue
        if kind == "stopperBegin":
            if "EXITING" in a[1] and not killer_stopping:
                killer_stopping = True
                put("rootStopping", "daemonKiller", root_end.get("daemonKiller") == "failed")
            continue
        if kind == "hungEnd" and len(a) > 2 and a[2] == "failed":
            put("hungFail")             # a hung task ended with an exception: run_tasks re-raises it as well
        if kind in ("hungTask", "hungEnd"):
            if a[0] == "other:stop-flag waiter":
                if kind == "hungEnd" and not flag_set:      # (`setStopFlag` itself ends the waiter in the model)
                    put("waiterEnd")
            elif a[0] not in ("daemon",):
                if kind == "hungTask":
                    if a[1] not in orphans:
                        orphans.add(a[1])
                        put("orphan")
                elif a[1] in orphans and a[1] not in orphans_ended:
                    orphans_ended.add(a[1])
                    put("orphanEnd")
            continue
        if kind == "childEnd":
            if a[0] in orphans and a[0] not in orphans_ended:
                orphans_ended.add(a[0])
                put("orphanEnd")
            continue
        if kind == "op":
            if a[0] == "flag" and not flag_set:
                flag_set = True
                put("setStopFlag")
            continue
        if kind == "end":
            if not exited:
                put("end")
        elif kind == "scStartupBegin":
            put("scStartupBegin")
        elif kind in ("scStartupEnd", "scCleanupEnd"):
            put(kind, a[0])
        elif kind in ("setStarted", "ready", "scWaitRootsEnd", "vaultClosed"):
            put(kind)
        elif kind == "scWaitRootsBegin":
            put("scWake")
        elif kind == "scStopCoreBegin":
            put("scStopCore")
        elif kind == "scStopCoreEnd":
            put("scCoreStopped")
        elif kind == "enter":
            put("coreEnter") if a[0] == "core" else put("enter", a[0])
        elif kind == "rootEnd" and a[0] == "orchestrator" and a[1] == "failed" and orch_poisoned and not orch_stopping:
            # the orchestrator's OWN loop has raised (the harness poisoned one adjustment) and it ended without ever beginning to stop
            # its ensemble: the current tree leaves the model here (`orchCrash`, variant `orchSwept := false`, open finding C20-F12);
            # the driver stops comparing at this label ("truncated")
            ended_roots.add(a[0])
            put("orchCrash")
        elif kind == "rootEnd":
            ended_roots.add(a[0])
            if checker_awaits_core and a[0] == "stopFlag" and (a[1] == "failed" or (not flag_set and not stopping_begun)):
                checker_was_watcher = True
                put("rootEnd", "coreWatcher", a[1])
            else:
                put("coreEnd", a[1]) if a[0] == "core" else put("rootEnd", a[0], a[1])
        elif kind == "orchStopSubsBegin":
            open_stop_redundant = bool(a[1])
            title = a[3] if len(a) > 3 else "streaming"
            if not a[1] and title == "pinging" and orch_stopping:
                # the second half of `stop_in_order` (since /repo 26a293c): the streams are over, the keep-alives are cancelled
                put("orchStopPingers")
            elif not a[1] and title == "streaming" and not orch_stopping:
                # `fail` is what the model forces it to be: has a failed ensemble task cancelled the orchestrator? (observed so far)
                orch_stopping = True
                put("rootStopping", "orchestrator", orch_err)
            elif not a[1]:
                put("unknown:orchStop:" + str(title))       # an exit stop the model does not know (never a default)
            else:                       # terminate_redundancies: tasks of keys no longer served / with an exited task
                for i in a[2]:
                    if i not in ended_subs:
                        put("subCancel", i)
        elif kind == "depletionBegin":
            # `fail` is OBSERVED: the exception in flight when the watcher's `finally:` begins (not how the task ends later)
            exc = a[2] if len(a) > 2 else None
            failing = exc not in (None, "CancelledError")
            if a[0] in ROOTS:
                put("rootStopping", a[0], failing)
            else:
                sub_stopping.add(a[1])
                if exc == "APINotFoundError":
                    put("subGone", a[1])
                else:
                    put("subStopping", a[1], failing)
        elif kind == "subSpawn":
            put("subSpawn", a[0], a[1])
        elif kind == "subEnd":
            ended_subs.add(a[0])
            if a[2] == "failed" and a[3] != "APINotFoundError" and not orch_stopping and "orchestrator" not in ended_roots:
                orch_err = True
            put("subEnd", a[0], a[2])
        elif kind == "withdrawBegin":
            if a[1] is not None and a[1] not in sub_stopping:
                sub_stopping.add(a[1])
                put("subStopping", a[1], sub_end.get(a[1]) == "failed")
        elif kind == "withdrawEnd":
            # an attempt that failed before any request left (no credentials): still an attempt, logged and ignored by kopf
            if a[1] is not None and a[2] not in (None, "CancelledError") and not wd_requests.get(a[1]):
                put("withdraw", a[1], False)
        elif kind == "workerStart":
            owner = ["root", a[1]] if a[1] in ROOTS else ["sub", a[2]]
            put("workerStart", a[0] - 1, owner)
        elif kind == "workerEnd":
            put("workerEnd", a[0] - 1, a[1])
        elif kind == "api":
            actor, ref, _method, _path, _watch, withdraw, child = a
            if child is not None and actor in ended_roots:
                # a child task (as_completed / gather) that outlived its cancelled root task
                if child not in orphans:
                    orphans.add(child)
                    put("orphan")
                put("act", ["orphan"])
            elif withdraw and actor == "pinger" and ref is not None:
                if ref not in sub_stopping:
                    sub_stopping.add(ref)
                    put("subStopping", ref, sub_end.get(ref) == "failed")
                put("withdraw", ref, wd_ok[n_wd] if n_wd < len(wd_ok) else False)
                wd_requests[ref] = wd_requests.get(ref, 0) + 1
                n_wd += 1
            else:
                put("act", task(actor, ref))
        elif kind in ("hBegin", "hEnd"):
            hkind, hid, name = a[0], a[1], a[2]
            if hkind in ("startup", "cleanup", "login"):     # activities: the core task's login has no label of its own
                continue
            if hkind in ("daemon", "timer"):
                pass        # (the model's daemon is the daemon/timer TASK: labels at `daemonCreated` / `daemonGone`)
            else:
                put("act", task("worker", a[-1]))
        elif kind == "daemonCreated":
            daemons[(a[0], a[1])] = n_daemons
            put("daemonSpawn", n_daemons, observed_coop((a[0], a[1]), pos_))
            n_daemons += 1
        elif kind == "daemonGone":
            put("daemonExit", daemons[(a[0], a[1])])
        elif kind == "rtStopRootsBegin":
            put("rtCancel" if a[1] else "rtStopRoots")
            if stopping_begun:          # the second call (`stop(root_tasks, cancelled=True)` after `stop(root_pending)`)
                continue
            stopping_begun = True
            if checker_was_watcher:
                put("rootEnd", "stopFlag", "done")
            elif not has_cw:
                put("rootEnd", "coreWatcher", "cancelled")
        elif kind == "rtHungWaitBegin":
            put("rtHungWait")
        elif kind == "rtHungWaitCancelled":
            hung_wait_cancelled = True
            put("rtCancel")             # operator() cancelled while run_tasks waits for the hung tasks
        elif kind == "rtStopHungBegin":
            if not (a[1] and hung_wait_cancelled):      # (`rtCancel` from `hungWait` goes to `cStoppingHung` at once)
                put("rtCStopHung" if a[1] else "rtStopHung")
        elif kind == "opEnd" and not spawned_seen and not stopping_begun:
            # operator() ended before spawn_tasks had returned and without having stopped anything: cancelled inside its `sleep(0)`
            # in a tree without the handler of /repo d6da86b (historical variant `spawnSwept := false`, finding C20-F10): the run
            # leaves the model. (In the current tree the same two stops follow as for a cancellation of `run_tasks`: `rtCancel`.)
            exited = True
            put("spawnCancel")
        elif kind == "opEnd":
            exited = True
            put("rtExit", {"done": "returned", "failed": "raised", "cancelled": "cancelled"}[a[0]])
        else:
            put("unknown:" + kind)
    return out


# =================================================================================================
# The oracle: from the property statement, over implementation-level observations only.
# =================================================================================================
CHANGE_KINDS = ("create", "update", "delete", "resume", "field", "event", "index", "timer")


def oracle(sc: dict, obs: dict) -> tuple[list[tuple[str, dict]], dict]:
    """Returns ([(what, signature)], facts). Empty list = the property held on this run."""
    bad: list[tuple[str, dict]] = []
    log = obs["log"]
    facts: dict[str, Any] = {}

    def fail(site: str, shape: str, what: str) -> None:
        bad.append((what, {"site": site, "shape": shape}))

    pos = {k: [i for i, e in enumerate(log) if e[1] == k] for k in
           ("api", "hBegin", "hEnd", "ready", "opEnd", "rootEnd", "subEnd", "workerEnd", "op", "end")}
    apis = pos["api"]
    startup_ids = [h["id"] for h in sc.get("handlers", []) if h["kind"] == "startup"]
    cleanup_ids = [h["id"] for h in sc.get("handlers", []) if h["kind"] == "cleanup"]

    # ---- startup: when did the LAST startup handler succeed? -----------------------------------------
    ok_pos: dict[str, int] = {}
    last_end: dict[str, str] = {}
    for i in pos["hEnd"]:
        e = log[i]
        if e[2] == "startup":
            last_end[e[3]] = e[5]
            if e[5] == "ok":
                ok_pos[e[3]] = i
    startup_ok = all(h in ok_pos for h in startup_ids)
    startup_done_pos = max(ok_pos.values()) if (startup_ok and startup_ids) else -1
    startup_done_t = log[startup_done_pos][0] if startup_done_pos >= 0 else 0.0
    facts["startup_ok"] = startup_ok

    # O1 — no API activity before all startup handlers have succeeded
    if not startup_ok and apis:
        e = log[apis[0]]
        fail("running.spawn_tasks", "API request although the startup handlers have not all succeeded",
             f"request {e[4]} {e[5]} by {e[2]} at t={e[0]} but startup never completed ({last_end})")
    elif apis and apis[0] < startup_done_pos:
        e = log[apis[0]]
        fail("running.spawn_tasks", "API request before the last startup handler succeeded",
             f"request {e[4]} {e[5]} by {e[2]} at t={e[0]} precedes the end of startup at t={startup_done_t}")
    # handlers of resources are API-driven activity too: none before startup is over
    for i in pos["hBegin"]:
        e = log[i]
        if e[2] not in ("startup",) and (not startup_ok or i < startup_done_pos) and e[2] != "cleanup":
            fail("running.spawn_tasks", "resource handler invoked before the startup handlers have all succeeded",
                 f"{e[2]} handler {e[3]} at t={e[0]}")
            break

    # O3 — the ready flag is raised only after startup
    if pos["ready"]:
        i = pos["ready"][0]
        if not startup_ok or i < startup_done_pos:
            fail("running.startup_cleanup_activities", "ready flag raised before the startup handlers have all succeeded",
                 f"ready at t={log[i][0]}, startup done: {startup_ok} at t={startup_done_t}")

    # ---- triggers --------------------------------------------------------------------------------------
    ret = obs.get("returned")
    end_pos = pos["end"][0] if pos["end"] else len(log)
    op_end = pos["opEnd"][0] if pos["opEnd"] else None
    trig: list[tuple[int, float, str]] = []            # (log position, time, kind)
    for i in pos["op"]:
        if log[i][2] in ("flag", "cancel", "cancel_yields"):
            trig.append((i, log[i][0], "cancel" if log[i][2] == "cancel_yields" else log[i][2]))
    failures: list[tuple[int, float, str, str]] = []    # (position, time, where, exception)
    for i in pos["rootEnd"]:
        if log[i][3] == "failed":
            failures.append((i, log[i][0], "root:" + log[i][2], log[i][4]))
    gone = [i for i in pos["subEnd"] if log[i][4] == "failed" and log[i][5] == "APINotFoundError"]
    for i in pos["subEnd"]:
        if log[i][4] == "failed" and i not in gone:     # HTTP 404: the resource is gone — not a failure of the operator
            failures.append((i, log[i][0], "ensemble:" + log[i][3], log[i][5]))
    # a worker that fails while its watcher is already in its `finally:` (depletion) — kopf only logs that (finding C20-F5)
    owner_of = {e[2]: (e[3], e[4]) for e in log if e[1] == "workerStart"}
    depl_pos: dict[tuple, int] = {}
    for i, e in enumerate(log):
        if e[1] == "depletionBegin":
            depl_pos.setdefault((e[2], e[3]), i)
    dropped: list[tuple[int, float, str, str]] = []
    for i in pos["workerEnd"]:
        if log[i][3] == "failed":
            f = (i, log[i][0], "worker", log[i][4])
            failures.append(f)
            if depl_pos.get(owner_of.get(log[i][2], ("?", None)), len(log)) < i:
                dropped.append(f)
    raised_n: dict[str, int] = {}
    for i in pos["hEnd"]:
        if log[i][2] == "startup" and log[i][5].startswith("raised"):
            raised_n[log[i][3]] = raised_n.get(log[i][3], 0) + 1
    limits = {h["id"]: (h.get("opts") or {}).get("retries") for h in sc.get("handlers", []) if h["kind"] == "startup"}
    startup_failed = any(h not in ok_pos and (last_end.get(h, "") == "raised:PermanentError" or
                                               (limits.get(h) is not None and raised_n.get(h, 0) >= limits[h]))
                         for h in startup_ids)
    cleanup_raised = any(log[i][2] == "cleanup" and log[i][5].startswith("raised:Permanent") for i in pos["hEnd"])
    # a watch stream that fails unrecoverably BY THE ENVIRONMENT's doing — the API answers the list/watch requests of a served
    # resource with an HTTP error for good (felt after the client's retries) — is a failure of an essential task
    # whatever the code makes of it: the oracle does not wait for a task to END failed (a task that swallows the error and lives
    # on half-alive is exactly what the property forbids). By kopf's documented design a 403 on the CRDs / namespaces is not a
    # failure (restricted mode: no runtime observation) — not generated, not demanded.
    env_failures: list[tuple[int, float, str, str]] = []
    for i in pos["op"]:
        if log[i][2] == "watch_http":
            resname, status = log[i][3], int(log[i][4])
            if resname in ("crd", "ns") and status == 403:
                continue
            # (kopf's client retries EVERY error answer, 4xx included, `settings.networking.error_backoffs` times; the cut stream
            #  reconnects after `settings.watching.reconnect_backoff`)
            allowance = sum(BACKOFFS) + (len(BACKOFFS) + 1) * 2 * LAT + 0.5
            env_failures.append((i, log[i][0] + allowance, "env:" + str(resname), f"HTTP {status}"))
    facts["env_failures"] = [f[2] + ":" + f[3] for f in env_failures]
    for f in failures + env_failures:
        if f[0] < end_pos:
            trig.append((f[0], f[1], "failure"))
    trig.sort()
    # finding C20-F4: the daemon killer crashes in its own `finally:` during the shutdown
    dk_failed = [f for f in failures if f[2] == "root:daemonKiller" and f[3] == "RuntimeError" and trig and f[0] > trig[0][0]
                 and any(log[i][1] == "stopperBegin" for i in range(trig[0][0], f[0]))]
    if dk_failed:
        running_at = sum(1 for i in range(dk_failed[0][0]) if log[i][1] == "hBegin" and log[i][2] == "daemon") - \
            sum(1 for i in range(dk_failed[0][0]) if log[i][1] == "hEnd" and log[i][2] == "daemon")
        bad.append((f"daemon killer ended with RuntimeError at t={dk_failed[0][1]} while stopping the daemons after a {trig[0][2]} "
                    f"({running_at} daemon(s) still running, no exit stopper for the rest); operator() outcome: {obs.get('returned')}",
                    DK_SIG))
        failures = [f for f in failures if f not in dk_failed]
    facts["daemon_killer_crashed"] = bool(dk_failed)
    # the situations of the open findings C20-F8 … F11 (each reported under its own signature, see below)
    # (a cancellation that interrupts the stop of `terminate_redundancies` (quiet) is merely the cancellation of the RUNNING
    #  orchestrator arriving while it releases a dimension — not a second cancellation of its exit stop)
    def _interrupts_exit_stop(i: int) -> bool:
        begins = [j for j in range(i) if log[j][1] == "orchStopSubsBegin"]
        return bool(begins) and not log[begins[-1]][3]
    double_cancel = [i for i, e in enumerate(log) if e[1] == "orchStopSubsCancelled" and i < end_pos     # (not the harness' final kill)
                     and _interrupts_exit_stop(i)]
    killer_pos = next((i for i, e in enumerate(log) if e[1] == "killerFinally"), None)
    # (a daemon is "late" when its TASK was created after the sweep: one whose handler merely begins after the sweep was seen
    #  by the killer and got its exit stopper)
    created = {(e[2], e[3]): i for i, e in enumerate(log) if e[1] == "daemonCreated"}
    late_daemons = [] if killer_pos is None else [(log[i][3], log[i][4], i) for i in pos["hBegin"]
                                                  if log[i][2] in ("daemon", "timer") and created.get((log[i][3], log[i][4]), i) > killer_pos]
    stop_cancelled = [i for i, e in enumerate(log) if e[1] == "rtStopRootsCancelled"]
    never_stopped = ret is not None and ret["how"] == "cancelled" and not any(e[1] == "rtStopRootsBegin" for e in log)
    facts["double_cancelled_orchestrator"] = bool(double_cancel)
    # finding C20-F12: the orchestrator's OWN loop failed (here: the harness poisoned its next adjustment — an error of the class
    # "framework bug", as the poisoned event is for a worker) and it ended WITHOUT stopping its ensemble (no exit stop at all,
    # ensemble tasks alive at its end). Attributed only when the environment did poison it.
    orch_end = next((i for i in pos["rootEnd"] if log[i][2] == "orchestrator"), None)
    orch_poisoned = next((i for i, e in enumerate(log) if e[1] == "poisoned" and e[2] == "orchestrator"), None)
    orch_own_failure = False
    if orch_end is not None and orch_poisoned is not None and orch_poisoned < orch_end and log[orch_end][3] == "failed" \
            and log[orch_end][4] == "Poison" and not any(e[1] == "orchStopSubsBegin" and not e[3] for e in log[:orch_end]):
        alive = [e[2] for e in log[:orch_end] if e[1] == "subSpawn"
                 and not any(x[1] == "subEnd" and x[2] == e[2] for x in log[:orch_end])]
        orch_own_failure = bool(alive)
        facts["ensemble_alive_at_orchestrator_failure"] = len(alive)
    facts["orchestrator_own_failure"] = orch_own_failure
    # (observations that name the regression when one of the repaired findings C20-F10 / C20-F11 comes back; no clause below is
    #  relaxed for them)
    if never_stopped:
        facts["operator_cancelled_in_spawn_tasks_nothing_stopped"] = True
    if stop_cancelled:
        facts["operator_cancelled_while_stopping_roots"] = True
    # a REPEATED cancellation reached the startup/cleanup task where it waited (for the other root tasks, for the core tasks, in
    # the cleanup activity, in vault.close()): kopf skips / cuts the cleanup handlers short then, by design (deviation C20-D4)
    cleanup_cut = [e for e in log if e[1] in ("scWaitRootsCancelled", "scStopCoreCancelled", "vaultCloseCancelled")
                   or (e[1] == "scCleanupEnd" and e[2] == "cancelled")]
    facts["cleanup_cut_by_repeated_cancellation"] = [e[1] for e in cleanup_cut]
    facts["late_daemons"] = [d[:2] for d in late_daemons]
    facts["workers_failed_during_depletion"] = len(dropped)
    facts["failures"] = [f[2] + ":" + str(f[3]) for f in failures]
    facts["trigger"] = trig[0][2] if trig else None

    # (an OBSERVATION for the evidence, no clause: the order of the orchestrator's exit since /repo 26a293c — were the keep-alives
    #  spared while the streams depleted? The order itself is claimed by the model and checked by the trace tie.)
    exit_stops = [e for e in log if e[1] == "orchStopSubsBegin" and not e[3]]
    if not exit_stops:
        facts["exit_order"] = "no-orchestrator-exit"
    elif len(exit_stops) == 1:
        facts["exit_order"] = "one-stop-of-everything"
    elif exit_stops[1][2] == 0:
        facts["exit_order"] = "two-stops/no-keep-alive"
    elif exit_stops[1][0] > exit_stops[0][0]:
        facts["exit_order"] = "two-stops/keep-alives-spared-while-the-streams-depleted"
    else:
        facts["exit_order"] = "two-stops/no-stream-to-wait-for"
    # O2 — a failed startup aborts the operator without any API call, and run() raises
    if startup_failed and not any(k in ("flag", "cancel") for _, _, k in trig if _ is not None):
        if apis:
            fail("running.startup_cleanup_activities", "API request after a failed startup", f"{len(apis)} requests")
        if ret is None or ret["how"] != "failed":
            fail("running.run_tasks", "failed startup not re-raised by operator()",
                 f"startup handlers ended {last_end}, operator() outcome: {ret}")

    # "daemons are stopped": an exit stopper that leaves its daemon alive WITHOUT having done what kopf documents (flag, backoff,
    # cancellation, timeout) has not stopped it, by design or otherwise
    unjust = [u for u in unjustified_give_ups(sc, log) if not dk_failed]
    facts["daemons_left_alive_by_a_cut_short_stopper"] = [list(u[0]) for u in unjust]
    if unjust:
        fail("daemons.stop_daemon", "a daemon was left alive by an exit stopper that had not gone through its procedure (stopper set, "
             "cancellation_backoff, cancellation, cancellation_timeout)", f"{unjust[:3]}")

    # ---- after a failure of an essential task or a stop request: the whole operator shuts down --------------
    lingering = False
    if trig:
        p0, t0, kind0 = trig[0]
        bound = bound_s(sc, kind0)
        limit = t0 + bound
        facts["t0"] = t0
        facts["bound"] = bound
        if ret is None or ret["t"] > limit:
            lingering = True
            roots_alive = not any(log[i][0] <= limit and i < end_pos and log[i][2] != "core" for i in pos["rootEnd"])
            ens_failed = [f for f in failures if f[2].startswith("ensemble:") and f[1] <= limit]
            core_failed = [f for f in failures if f[2] == "root:core" and f[0] == p0]
            later_edit = [log[i] for i in pos["op"] if log[i][2] == "edit" and log[i][0] > t0 and i < end_pos]
            handled_later = any(log[i][2] in CHANGE_KINDS and log[i][0] > t0 + bound for i in pos["hBegin"] if i < end_pos)
            facts["lingering"] = {"alive_at": limit, "returned": ret, "later_edits": len(later_edit),
                                  "later_edit_handled": handled_later}
            if core_failed and roots_alive and kind0 == "failure":
                cl_ran = any(log[i][2] == "cleanup" for i in pos["hBegin"])
                bad.append((f"the core task (credentials retriever) ended with {core_failed[0][3]} at t={t0}; operator() still running "
                            f"at t={limit} (bound {bound} s), all root tasks alive; {len(later_edit)} later edit(s), handled: "
                            f"{handled_later}; when finally stopped: outcome {ret}, cleanup handlers ran: {cl_ran}", CORE_SIG))
            elif ens_failed and roots_alive and kind0 == "failure":
                bad.append((f"{ens_failed[0][2]} ended with {ens_failed[0][3]} at t={ens_failed[0][1]} (first failure: "
                            f"{failures[0][2]} {failures[0][3]} at t={t0}); operator() still running at t={limit} "
                            f"(bound {bound} s), all root tasks alive; {len(later_edit)} later edit(s), handled: {handled_later}",
                            F3_SIG))
            elif sc.get("peering") and any(f[2] == "root:core" for f in failures) and any(e[1] == "rtStopRootsBegin" for e in log) \
                    and any(e[1] == "subSpawn" and e[3] == "pinger" and not any(x[1] == "subEnd" and x[2] == e[2] and x[0] <= limit
                                                                                for x in log) for e in log):
                # finding C20-F7: the stop has begun, the keep-alive task is in its `finally:` and never gets out of it
                cf = [f for f in failures if f[2] == "root:core"][0]
                t_stop = [e[0] for e in log if e[1] == "rtStopRootsBegin"][0]
                wd_sent = any(log[i][7] for i in apis)
                bad.append((f"the credentials retriever ended with {cf[3]} at t={cf[1]}; run_tasks began to stop the root tasks at "
                            f"t={t_stop}; operator() still not returned at t={limit} (bound {bound} s): the peering keep-alive task has "
                            f"not ended, its withdrawal request was {'sent' if wd_sent else 'never sent (waiting for credentials)'}; "
                            f"outcome when abandoned: {ret}", VAULT_SIG))
                facts["noncooperative"] = True
            elif double_cancel:
                bad.append((f"the orchestrator, stopping its ensemble after {failures[0][2] if failures else '?'} failed at t={t0}, was "
                            f"cancelled again at t={log[double_cancel[0]][0]} (triggers {[k for _p, _t, k in trig]}) and left its ensemble "
                            f"orphaned; a watcher of it, cancelled as a hung task, never ends (its scheduler's helper tasks were "
                            f"cancelled alongside): operator() still not returned at t={limit} (bound {bound} s); outcome {ret}",
                            DOUBLE_SIG))
            elif late_daemons and ret is not None and any(log[j][1] == "hEnd" and log[j][2] in ("daemon", "timer") and
                                                          (log[j][3], log[j][4]) == d[:2] and log[j][0] > limit - H_S
                                                          for d in late_daemons for j in pos["hEnd"] if j > d[2]):
                d = late_daemons[0]
                bad.append((f"daemon {d[0]} of {d[1]} was spawned at t={log[d[2]][0]}, after the daemon killer had swept the daemons at "
                            f"t={log[killer_pos][0]}; nobody stopped it; operator() returned only at t={ret['t']} (bound {bound} s "
                            f"after the {kind0} at t={t0}): {ret}", RESPAWN_SIG))
            elif dropped and dropped[0][0] == p0 and kind0 == "failure":
                bad.append((f"a worker failed with {dropped[0][3]} at t={t0} while its watcher was depleting its workers; nothing was "
                            f"escalated: operator() still running at t={limit} (bound {bound} s); outcome {ret}", DROPPED_SIG))
            elif orch_own_failure:
                wd_open = [e for e in log if e[1] == "withdrawBegin"] and not [e for e in log if e[1] == "withdrawEnd" and e[0] <= limit]
                bad.append((f"the orchestrator failed with {log[orch_end][4]} at t={log[orch_end][0]} and left its ensemble "
                            f"({facts['ensemble_alive_at_orchestrator_failure']} tasks) running; operator() still not returned at "
                            f"t={limit} (bound {bound} s)" + ("; the keep-alive, cancelled as a hung task after the cleanup has closed the "
                            "vault, waits for credentials for ever in its withdrawal" if wd_open else "") + f"; outcome {ret}", ORCHFAIL_SIG))
            else:
                fail("running.run_tasks", f"operator() did not return within the grace periods after a {kind0}",
                     f"trigger {kind0} at t={t0}, bound {bound} s, outcome {ret}")
    facts["is_lingering"] = lingering
    facts["gone_watchers"] = len(gone)
    # a resource that is gone is not a failure, and when it is served again it is watched again
    for k, i in enumerate(pos["op"]):
        if log[i][2] in ("crd_create", "ns_create"):
            later = [j for j in pos["op"] if j > i and log[j][2] == "create" and log[j][0] >= log[i][0] + 1.0]
            stops = [p for p, _t, _k in trig if p < (later[0] if later else 0)]
            if later and not stops:
                name = log[later[0]][3]
                if not any(log[j][2] == "create" and log[j][4] == name for j in pos["hBegin"] if j > later[0]):
                    fail("orchestration.terminate_redundancies", "a resource served again after its deletion is not watched again",
                         f"CRD re-created at t={log[i][0]}, object {name!r} created at t={log[later[0]][0]}: no handler call")

    if ret is not None and not lingering:
        # the outcome of the run call
        kinds = [k for _, _, k in trig]
        if "cancel" in kinds:
            want = {"cancelled"}
        elif failures or env_failures or startup_failed or cleanup_raised:
            want = {"failed"}
        else:
            want = {"done"}
        if not trig:
            fail("running.run_tasks", "operator() returned although nothing failed and no stop was requested", f"{ret}")
        elif dk_failed:
            pass        # the outcome is the crash of the daemon killer or of a stopper it left behind (same finding)
        elif double_cancel and ret["how"] not in want:
            f0 = failures[0] if failures else ("?", "?", "?", "?")
            bad.append((f"{f0[2]} failed with {f0[3]} at t={f0[1]}; the orchestrator, stopping its ensemble, was cancelled again at "
                        f"t={log[double_cancel[0]][0]} (triggers {kinds}) and ended cancelled: the failure is not re-raised, operator() "
                        f"outcome {ret}", DOUBLE_SIG))
        elif late_daemons and ret["how"] == "failed" and ret["exc"] == "TimeoutError" and want != {"failed"}:
            d = late_daemons[0]
            bad.append((f"daemon {d[0]} of {d[1]} was spawned at t={log[d[2]][0]}, after the daemon killer's sweep at "
                        f"t={log[killer_pos][0]}; cancelled as a hung task, its helper raised TimeoutError: operator() outcome {ret} "
                        f"on a plain {kinds[0]}", RESPAWN_SIG))
        elif ret["how"] == "done" and dropped and want == {"failed"} and len(dropped) == len(failures) \
                and not (startup_failed or cleanup_raised):
            bad.append((f"a worker failed with {dropped[0][3]} at t={dropped[0][1]} while its watcher was depleting its workers "
                        f"(after a {kinds[0]} at t={trig[0][1]}): the failure was only logged, operator() returned normally: {ret}",
                        DROPPED_SIG))
        elif ret["how"] not in want:
            fail("running.run_tasks", "operator() outcome does not re-raise the failure / reflect the stop request",
                 f"outcome {ret}, triggers {kinds}, failures {facts['failures']}, startup_failed={startup_failed}, "
                 f"cleanup_raised={cleanup_raised}")
        elif ret["how"] == "failed":
            names = {f[3] for f in failures} | ({"ActivityError"} if (startup_failed or cleanup_raised) else set()) \
                | ({"APIForbiddenError", "APIServerError"} if env_failures else set())
            if ret["exc"] not in names:
                fail("running.run_tasks", "operator() raised something else than the failure of a task",
                     f"raised {ret['exc']}, failures {sorted(map(str, names))}")
        assert op_end is not None
        # daemons are stopped
        open_d: dict[tuple, int] = {}
        for i in range(op_end):
            e = log[i]
            if e[1] == "hBegin" and e[2] in ("daemon", "timer"):
                open_d[(e[3], e[4])] = i
            elif e[1] == "hEnd" and e[2] in ("daemon", "timer"):
                open_d.pop((e[3], e[4]), None)
        if open_d:
            fail("daemons.daemon_killer", "a daemon was still running when operator() returned", f"{sorted(open_d)}")
        # nothing goes on after the run call returned
        after = [log[i] for i in range(op_end + 1, len(log)) if log[i][1] in ("api", "hBegin", "hEnd", "rootEnd", "subEnd", "workerEnd")]
        if after and never_stopped:
            bad.append((f"operator() was cancelled at t={ret['t']} before run_tasks was reached (inside spawn_tasks): nobody stopped "
                        f"the spawned tasks; afterwards: {after[:3]}", SPAWNCANCEL_SIG))
        elif after and stop_cancelled:
            bad.append((f"operator() was cancelled at t={log[stop_cancelled[0]][0]} while stopping its root tasks (after a {kinds[0]} at "
                        f"t={trig[0][1]}): it returned at once; afterwards: {after[:3]}", STOPCANCEL_SIG))
        elif after:
            fail("running.run_tasks", "activity after operator() returned", f"{after[:3]}")
        # ... and nothing is LEFT that could go on: every task the operator created is over when the run call has returned (the
        # simulation sweeps the tasks of the incarnation that are still pending at its end: `zombies`), silent ones included
        zombies = [e for e in log if e[1] == "zombies"]
        if zombies and not (after and (never_stopped or stop_cancelled)):
            fail("running.run_tasks", "tasks of the operator are still pending after operator() returned",
                 f"{zombies[0][2]} task(s): {zombies[0][3]}; operator() outcome {ret}")
        # the peering record is withdrawn
        if sc.get("peering"):
            pings = [i for i in apis if log[i][2] == "pinger" and not log[i][7]]
            wd = [i for i in apis if log[i][7]]
            attempts = [e for e in log if e[1] == "withdrawEnd"]
            present = (obs.get("peering_status") or {}).get("op") is not None
            # kopf's design: the withdrawal is attempted; when it FAILS (request errors after the retries, or no credentials left)
            # that is logged and ignored — a deviation from the property text, recorded as C20-D3, not exempted
            failed_attempt = [e for e in attempts if e[4] not in (None, "CancelledError")] or \
                [r for r in obs.get("requests", []) if r.get("withdraw") and not (isinstance(r.get("response"), int) and r["response"] < 400)]
            # ... by design only when the ENVIRONMENT made it fail: the API answered the withdrawal PATCH with an error, or the
            # credentials were gone (the credentials retriever had died / an HTTP 401 had invalidated them) and the attempt failed
            # for want of them; a withdrawal that fails for any other reason is a plain violation
            req_failed = [r for r in obs.get("requests", []) if r.get("withdraw") and not (isinstance(r.get("response"), int) and r["response"] < 400)]
            creds_lost = any(f[2] == "root:core" for f in failures) or any(log[i][2] == "unauthorized" for i in pos["op"])
            exc_attempts = [e for e in attempts if e[4] not in (None, "CancelledError")]
            by_env = bool(req_failed) or (bool(exc_attempts) and creds_lost and
                                          all(e[4] in ("LoginError", "AccessError", "APIUnauthorizedError") for e in exc_attempts))
            if pings and present and failed_attempt and not by_env:
                fail("peering.keepalive", "the withdrawal of the peering record failed although the API had not refused it",
                     f"attempts {[e[4] for e in attempts]}, requests {[r.get('response') for r in obs.get('requests', []) if r.get('withdraw')]}; "
                     f"record after the return: {obs.get('peering_status')}")
            elif pings and present and failed_attempt:
                bad.append((f"the withdrawal of the peering record failed ({failed_attempt[0][4] if isinstance(failed_attempt[0], list) else failed_attempt[0].get('response')}) "
                            f"and was ignored: the record is still there after operator() returned: {obs.get('peering_status')}", WITHDRAW_SIG))
            elif pings and not wd and not attempts:
                fail("peering.keepalive", "peering record not withdrawn at exit", f"{len(pings)} keep-alives, no withdrawal")
            elif pings and present:
                fail("peering.keepalive", "peering record still present after exit", f"{obs.get('peering_status')}")
        # cleanup handlers run after everything else has stopped
        cl_begin = [i for i in pos["hBegin"] if log[i][2] == "cleanup"]
        n_stops = sum(1 for _p, _t, k_ in trig if k_ in ("flag", "cancel")) + (1 if failures else 0)
        cl_cancelled = [log[i] for i in pos["hEnd"] if log[i][2] == "cleanup" and log[i][5] == "cancelled"]
        if startup_ok and cleanup_ids and cleanup_cut and "cancel" in kinds and n_stops >= 2 and (not cl_begin or cl_cancelled):
            # "cleanup handlers run after everything else has stopped": they did not run (or not to their end), because operator()
            # was cancelled while it was already stopping — kopf's documented design ("no graceful period at all"), recorded as the
            # by-design deviation C20-D4, not exempted
            bad.append((f"operator() was cancelled at t={[t_ for _p, t_, k_ in trig if k_ == 'cancel'][0]} while it was already stopping "
                        f"(triggers {kinds}): the startup/cleanup task was interrupted ({cleanup_cut[0][1]} at t={cleanup_cut[0][0]}); the "
                        f"cleanup handlers {'did not run at all' if not cl_begin else 'were cut short: ' + str(cl_cancelled[0][3]) + ' ended cancelled'}"
                        f"; outcome {ret}", CLEANUP_CUT_SIG))
        elif startup_ok and cleanup_ids and cl_cancelled:
            fail("running.startup_cleanup_activities", "a cleanup handler was cancelled before its end", f"{cl_cancelled[0]}, outcome {ret}")
        elif startup_ok and cleanup_ids and not cl_begin:
            # (also after a cancellation of operator(): the startup/cleanup task swallows the first cancellation and runs the
            #  cleanup handlers once the other root tasks are gone)
            fail("running.startup_cleanup_activities", "cleanup handlers did not run although startup had completed",
                 f"outcome {ret}")
        if cl_begin:
            c0 = cl_begin[0]
            if not startup_ok:
                fail("running.startup_cleanup_activities", "cleanup handlers ran although startup never completed", "")
            root_end_pos = {log[i][2]: i for i in pos["rootEnd"]}
            orphan_api = [log[i] for i in range(c0 + 1, op_end) if log[i][1] == "api" and log[i][8] is not None
                          and log[i][2] in ("resObserver", "nsObserver") and root_end_pos.get(log[i][2], op_end) < c0]
            if orphan_api:
                bad.append((f"cleanup began at t={log[c0][0]}; {len(orphan_api)} discovery request(s) by orphaned children of the "
                            f"cancelled observer followed, first: {orphan_api[0][4]} {orphan_api[0][5]} at t={orphan_api[0][0]}", ORPHAN_SIG))
            DK = ("daemon", "timer")            # daemons and timers: one machinery (`_runner`, exit stoppers)
            late = [log[i] for i in range(c0 + 1, op_end) if
                    (log[i][1] == "api" and log[i][2] not in ("startupCleanup", "daemon") and log[i] not in orphan_api) or
                    (log[i][1] in ("hBegin", "hEnd") and log[i][2] in CHANGE_KINDS and log[i][2] not in DK) or
                    (log[i][1] in ("rootEnd",) and log[i][2] not in ("startupCleanup",)) or
                    (log[i][1] in ("subEnd", "workerEnd"))]
            if late and orch_own_failure:
                bad.append((f"the orchestrator failed with {log[orch_end][4]} at t={log[orch_end][0]} and ended at once, its ensemble "
                            f"({facts['ensemble_alive_at_orchestrator_failure']} tasks) alive: cleanup began at t={log[c0][0]}; later: "
                            f"{late[:3]}", ORCHFAIL_SIG))
            elif late and double_cancel:
                bad.append((f"the orchestrator was cancelled again at t={log[double_cancel[0]][0]} while stopping its ensemble and ended "
                            f"at once: cleanup began at t={log[c0][0]} with the ensemble still alive; later: {late[:3]}", DOUBLE_SIG))
            elif late:
                fail("running.startup_cleanup_activities", "cleanup handlers began before the other activity had stopped",
                     f"cleanup began at t={log[c0][0]}; later: {late[:3]}")
            # "daemons are stopped … cleanup handlers run after everything else has stopped": EVERY daemon or timer invocation that
            # runs when the cleanup begins — or begins later — is a deviation; which one depends on how it got there (OBSERVED:
            # was its task created after the killer's sweep? did its exit stopper give it up?)
            running_d: dict[tuple, int] = {}
            for i in range(max(c0, op_end)):       # (c0 > op_end only when operator() returned before its shutdown: C20-F10 / F11)
                e = log[i]
                if e[1] == "hBegin" and e[2] in DK:
                    running_d[(e[3], e[4])] = i
                elif e[1] == "hEnd" and e[2] in DK and i < c0:
                    running_d.pop((e[3], e[4]), None)
            # (requests and further invocations of such daemons / timers during the cleanup belong to the same deviation)
            # (only the daemons given up BY DESIGN — by a stopper that went through its whole procedure — belong to C20-D1)
            not_by_design = {k for k, _why in unjustified_give_ups(sc, log, max(c0, op_end))}
            gave_up = given_up(log, max(c0, op_end)) - not_by_design
            late_running = sorted(d for d, i in running_d.items() if killer_pos is not None and created.get(d, i) > killer_pos)
            swept = {d: i for d, i in running_d.items() if d not in late_running}
            abandoned = sorted(d for d in swept if d in gave_up)
            unstopped = sorted(d for d in swept if d not in gave_up)
            facts["abandoned_daemons_at_cleanup"] = abandoned
            if late_running:
                bad.append((f"cleanup began at t={log[c0][0]} while daemons {late_running}, spawned after the daemon killer's sweep at "
                            f"t={log[killer_pos][0]}, were running: nobody stops them before the hung-task stop", RESPAWN_SIG))
            if unstopped and not dk_failed:
                fail("daemons.daemon_killer", "cleanup activity began while a daemon that no exit stopper had given up was still running",
                     f"cleanup began at t={log[c0][0]} while daemons/timers {unstopped} were running (or started later); stoppers that "
                     f"gave up: {sorted(gave_up)}")
            # requests of daemon/timer tasks during the cleanup: API activity that has not stopped — part of the deviations above when
            # such a daemon is reported there; a violation of its own otherwise
            daemon_api = [log[i] for i in range(c0 + 1, op_end) if log[i][1] == "api" and log[i][2] == "daemon"]
            if daemon_api and not (late_running or unstopped or abandoned):
                fail("daemons.daemon_killer", "a daemon's API request during the cleanup activity",
                     f"cleanup began at t={log[c0][0]}; later: {daemon_api[:3]}")
            if abandoned and not dk_failed:
                opts_of = {h["id"]: (h.get("opts") or {}) for h in sc.get("handlers", []) if h["kind"] in DK}
                bad.append((f"cleanup began at t={log[c0][0]} while daemons/timers {abandoned} were still running: they did not exit on "
                            f"their stopper and kopf abandoned them (cancellation_timeout: "
                            f"{sorted({str(opts_of.get(d[0], {}).get('cancellation_timeout')) for d in abandoned})})", ABANDON_SIG))
    return bad, facts


# =================================================================================================
# Generator
# =================================================================================================
STARTUP_SHAPES = [
    ("ok", ["ok"], {}), ("sleep", [["sleep", 1.0, "ok"]], {}), ("sleep", [["sleep", 2.5, "ok"]], {}),
    ("temp-ok", [["temp", 1.0], "ok"], {}), ("temp2-ok", [["temp", 0.5], ["sleep", 0.5, ["temp", 1.0]], "ok"], {}),
    ("arb-ok", ["arb", "ok"], {"backoff": 1.0}),
    ("perm", ["perm"], {}), ("sleep-perm", [["sleep", 1.0, "perm"]], {}),
    ("exhausted", [["temp", 0.5], ["temp", 0.5], ["temp", 0.5]], {"retries": 2}),
]
CLEANUP_SHAPES = [
    ("ok", ["ok"], {}), ("sleep", [["sleep", 0.5, "ok"]], {}), ("sleep", [["sleep", 2.0, "ok"]], {}),
    ("temp-ok", [["temp", 1.0], "ok"], {}), ("perm", ["perm"], {}),
]
DAEMON_SHAPES = [
    ("obey", {"mode": "obey", "poll": 0.5}, {}),
    ("obey", {"mode": "obey", "poll": 2.0}, {"cancellation_timeout": 1.0}),
    ("cancel", {"mode": "cancel"}, {"cancellation_timeout": 1.0}),
    ("cancel-backoff", {"mode": "cancel"}, {"cancellation_backoff": 1.0, "cancellation_timeout": 2.0}),
    ("cancel-hung", {"mode": "cancel"}, {}),
    ("ignore1", {"mode": "ignore"}, {"cancellation_timeout": 1.0}),
    ("exit", {"mode": "exit", "after": 3.0}, {}),
    # daemons that leave the "wakes at once or sleeps for ever" pattern: polling with asyncio.sleep, slow unwinding
    ("poll-default", {"mode": "poll", "poll": 0.5}, {}),                                  # abandoned at once (C20-D1)
    ("poll-backoff", {"mode": "poll", "poll": 0.5}, {"cancellation_backoff": 1.0}),       # exits within the backoff
    ("poll-timeout", {"mode": "poll", "poll": 2.0}, {"cancellation_timeout": 0.5}),       # exits on the cancellation
    ("unwind", {"mode": "unwind", "unwind": 0.5}, {"cancellation_timeout": 1.0}),         # needs 0.5 s of the 1 s it is given
    ("unwind-late", {"mode": "unwind", "unwind": 2.0}, {"cancellation_timeout": 1.0}),    # given up after 1 s (C20-D1), ends at 2 s
]
TRIGGERS = ["flag", "flag", "cancel", "cancel", "watch_error_kex", "watch_error_crd", "watch_error_peering", "poison",
            "memo_poison", "discovery_500_initial", "discovery_500_rescan", "pinger_500", "startup_fail", "cleanup_fail",
            "flag", "watch_error_kex", "crd_gone", "login_fail", "worker_fail_depletion", "early_stop_peering",
            # two triggers in one history, and the stop at the very first moment
            "failure_then_stop", "failure_then_stop", "two_failures", "flag_then_cancel", "respawn_daemon", "cancel_in_spawn",
            "worker_fail_gone", "login_fail_at_stop",
            # a stream failing by an HTTP error on its list/watch (403 at once, 5xx beyond the retries) instead of an in-stream ERROR
            # event; the namespace observer's OWN stream (a NAMESPACED operator); the orchestrator's own failure (finding C20-F12)
            "watch_http", "watch_http", "ns_stream", "orch_fail",
            # a cancellation of operator() while run_tasks WAITS FOR THE HUNG TASKS (a daemon its stopper has given up is one)
            "cancel_in_hung_wait",
            # the operator is PAUSED and STOPPED within the same few loop iterations, while a watch request waits for its response
            "pause_stop_race",
            # a dimension of the orchestrator's ensemble is dropped and served AGAIN under the same key (once or twice); the task of
            # the NEW generation then fails for good (seeded change C20g: failures escalated for first-generation tasks only)
            "regen_fail", "regen_fail",
            # a dimension of the ensemble is BEING RELEASED — its streams are cancelled and deplete (a handler in flight on it), its
            # keep-alive says its farewell (answered late) — when the stop comes: what is being released is still part of "everything
            # else" that must have stopped before the cleanup (seeded change C20h: the keys were forgotten before the tasks had ended)
            "drop_then_stop", "drop_then_stop"]
DROP_DIMS = ["crd", "ns", "crd2", "peering", "ns", "crd"]
REGEN_DIMS = ["crd", "http404", "ns", "peering", "crd", "http404"]
PHASES = ["startup", "startup_end", "discovery", "spawning", "steady", "inflight"]


def gen_history(rng: Any, i: int, force: dict | None = None) -> dict:
    force = force or {}
    trigger = force.get("trigger") or rng.choice(TRIGGERS)
    peering = force.get("peering", rng.random() < 0.4 or trigger in ("watch_error_peering", "pinger_500"))
    if trigger == "early_stop_peering":
        peering = True
    if trigger in ("failure_then_stop", "two_failures"):
        peering = force.get("peering", rng.random() < 0.7)
    if trigger == "worker_fail_gone":
        peering = False
    if trigger == "login_fail":
        # with peering: before /repo 83aec44 the dead vault blocked the withdrawal PATCH for ever (finding C20-F7)
        peering = force.get("peering", rng.random() < 0.3)
    if trigger == "login_fail_at_stop":
        peering = force.get("peering", rng.random() < 0.6)
    if trigger == "ns_stream":
        peering = False
    if trigger == "pause_stop_race":
        peering = True
    regen_dim = None
    if trigger == "regen_fail":
        # WHICH dimension goes and comes back: the served CRD (its absence noticed by the resource observer: the key is dropped, and
        # added again), `http404` (the watcher alone meets HTTP 404 for a moment and ends, the resource stays in the insights: the
        # task is restarted under its key in ONE adjustment, at the next revision — a new CRD of the group makes one),
        # the NAMESPACE of a namespaced operator (deleted and created again under its name), the PEERING CRD with its object
        regen_dim = force.get("dim") or (REGEN_DIMS[PHASES.index(force["phase"])] if force.get("phase") in PHASES
                                         else rng.choice(REGEN_DIMS))
        peering = regen_dim == "peering" or (regen_dim != "ns" and rng.random() < 0.3)
    drop_dim = None
    if trigger == "drop_then_stop":
        # WHICH dimension is being released at the stop: the (only) served CRD, the NAMESPACE of a namespaced operator, the CRD of
        # the second served kind (the first stays), the PEERING CRD (the keep-alive's farewell is answered late / refused + retried)
        drop_dim = force.get("dim") or (DROP_DIMS[PHASES.index(force["phase"])] if force.get("phase") in PHASES
                                        else rng.choice(DROP_DIMS))
        peering = drop_dim == "peering" or (drop_dim != "ns" and rng.random() < 0.25)
    handlers: list[dict] = []
    shape: dict[str, Any] = {"trigger": trigger, "peering": peering}
    # startup handlers
    ns = rng.choice([0, 1, 1, 2])
    st_shapes = []
    for k in range(ns):
        ok_only = [s for s in STARTUP_SHAPES if s[0] not in ("perm", "sleep-perm", "exhausted")]
        name, script, opts = rng.choice(ok_only)
        st_shapes.append(name)
        handlers.append({"kind": "startup", "id": f"st{k}", "script": script, "opts": dict(opts)})
    if trigger == "startup_fail":
        name, script, opts = rng.choice([s for s in STARTUP_SHAPES if s[0] in ("perm", "sleep-perm", "exhausted")])
        st_shapes.append(name)
        handlers.insert(rng.randrange(len(handlers) + 1),
                        {"kind": "startup", "id": "stF", "script": script, "opts": dict(opts)})
    if trigger in ("flag", "cancel") and force.get("phase", None) in (None, "startup") and not any(
            h["kind"] == "startup" and any(isinstance(a, list) for a in h["script"]) for h in handlers) and rng.random() < 0.5:
        # (a LONG startup handler, half of the time: a stop request during the startup must be felt AT ONCE, not when the startup
        #  is over — with a short handler the delay hides inside the grace periods of the bound)
        long_ = rng.random() < 0.5
        handlers.append({"kind": "startup", "id": "stS", "script": [["sleep", 32.0 if long_ else 2.0, "ok"]], "opts": {}})
        st_shapes.append("sleep-long" if long_ else "sleep")
    shape["startup"] = sorted(st_shapes)
    # cleanup handlers
    cl_shapes = []
    for k in range(rng.choice([0, 1, 1, 2])):
        name, script, opts = rng.choice([s for s in CLEANUP_SHAPES if s[0] != "perm"])
        cl_shapes.append(name)
        handlers.append({"kind": "cleanup", "id": f"cl{k}", "script": script, "opts": dict(opts)})
    if trigger == "cleanup_fail":
        cl_shapes.append("perm")
        handlers.append({"kind": "cleanup", "id": "clF", "script": ["perm"], "opts": {}})
    shape["cleanup"] = sorted(cl_shapes)
    # daemons, change handlers, objects
    dm = []
    for k in range(rng.choice([0, 1, 1, 2]) if trigger != "respawn_daemon" else 0):
        name, d, opts = rng.choice(DAEMON_SHAPES)
        dm.append(name)
        handlers.append({"kind": "daemon", "id": f"d{k}", "daemon": dict(d), "opts": dict(opts)})
    if trigger == "respawn_daemon":
        name, d, opts = rng.choice([s for s in DAEMON_SHAPES if s[0] in ("obey", "cancel", "cancel-backoff")])
        dm.append(name)
        handlers.append({"kind": "daemon", "id": "d0", "daemon": dict(d), "opts": dict(opts)})
    if trigger == "cancel_in_hung_wait":
        # a daemon that its exit stopper gives up at once (C20-D1): it is what run_tasks waits for as a hung task, for 5 s
        name, d, opts = rng.choice([s for s in DAEMON_SHAPES if s[0] in ("cancel-hung", "poll-default")])
        dm.append(name)
        handlers.append({"kind": "daemon", "id": "dH", "daemon": dict(d), "opts": dict(opts)})
    shape["daemons"] = sorted(dm)
    SPECIAL = ("worker_fail_depletion", "respawn_daemon", "worker_fail_gone", "crd_gone", "cancel_in_spawn", "login_fail",
               "login_fail_at_stop", "regen_fail", "drop_then_stop")
    # a timer (same machinery as daemons: `_runner`, exit stoppers — but no cancellation_timeout can be configured for it:
    # an invocation in flight at the stop is always given up)
    has_timer = trigger not in SPECIAL and rng.random() < 0.25
    if has_timer:
        handlers.append({"kind": "timer", "id": "t0", "script": [], "default": ["sleep", rng.choice([0.25, 0.75]), "ok"],
                         "opts": {"interval": 1.0}})
    shape["timer"] = has_timer
    dur = rng.choice([0.5, 1.5, 1.5, 3.0]) if trigger not in ("worker_fail_depletion", "respawn_daemon", "worker_fail_gone") \
        else rng.choice([1.0, 1.5])
    if trigger in ("flag", "cancel", "watch_error_kex", "watch_error_crd", "watch_http") and rng.random() < 0.2:
        # a handler that outlasts EVERY grace period: in flight at the stop, it is cut after `exit_timeout` — the depletion of the
        # workers must not wait for it (with handlers of 0.5-3 s a depletion without a timeout hides inside the bound's slack)
        dur = 24.0
    handlers.append({"kind": "create", "id": "c", "script": [], "default": "ok"})
    handlers.append({"kind": "update", "id": "u", "script": [], "default": ["sleep", dur, "ok"]})
    if trigger in ("login_fail", "login_fail_at_stop"):
        # the credentials are invalidated later on (HTTP 401); the re-login fails for good: the core task dies
        handlers.append({"kind": "login", "id": "lg", "script": ["ok", "perm"], "default": "perm"})
    n_obj = rng.choice([0, 1, 1, 2, 3]) if trigger not in ("poison", "memo_poison", "login_fail", "worker_fail_depletion",
                                                              "respawn_daemon", "flag_then_cancel", "worker_fail_gone",
                                                              "login_fail_at_stop", "cancel_in_hung_wait", "drop_then_stop") \
        else rng.choice([1, 2])
    objects = [{"name": f"o{k}"} for k in range(n_obj)]
    # the trigger's moment
    s_dur = sum(script_duration(h) for h in handlers if h["kind"] == "startup")
    phase = force.get("phase") or rng.choice(PHASES)
    if trigger in ("startup_fail", "discovery_500_initial"):
        phase = "startup"
    if trigger not in ("flag", "cancel", "startup_fail", "discovery_500_initial") and phase in ("startup", "startup_end", "discovery"):
        phase = rng.choice(["spawning", "steady", "inflight"])
    if trigger in ("worker_fail_depletion", "failure_then_stop", "two_failures", "flag_then_cancel", "respawn_daemon",
                   "worker_fail_gone", "login_fail_at_stop"):
        phase = "steady"
    if trigger in ("cancel_in_hung_wait", "pause_stop_race", "regen_fail", "drop_then_stop"):
        phase = "steady"
    if trigger in ("watch_http", "ns_stream", "orch_fail") and phase == "spawning":
        phase = rng.choice(["steady", "inflight"])
    if trigger == "cancel_in_spawn":
        phase = "startup"
    if trigger == "early_stop_peering":
        phase = "spawning"
    if phase == "startup" and s_dur == 0:
        phase = "startup_end"
    t = {"startup": (rng.randrange(1, max(2, ticks(s_dur))) / TPS) if s_dur else 0.0,
         "startup_end": max(s_dur, 1 / TPS),
         "discovery": s_dur + rng.choice([1, 2]) / TPS,
         "spawning": s_dur + rng.choice([3, 4, 5, 6]) / TPS,
         "steady": s_dur + rng.choice([2.0, 4.0, 7.5]),
         "inflight": s_dur + rng.choice([3.0, 6.0])}[phase]
    ops: list[list] = []
    inflight = False
    if phase == "inflight" and objects:
        inflight = True
        for k, o in enumerate(objects[:2]):
            ops.append([t - rng.choice([0.25, 0.5]), "edit", o["name"], 10 + k])
    shape["phase"] = phase
    shape["inflight"] = inflight
    sc: dict[str, Any] = {"seed": i, "handlers": handlers, "objects": objects, "peering": peering, "settings": {}}
    # a second served kind: its watch stream is one of "the other streams" the orchestrator stops after a stream failure, with a
    # handler in flight on it (the second G of the failure bound is consumed by a depletion, not only by the keep-alive task)
    second = trigger in ("watch_error_kex", "watch_error_crd", "watch_error_peering", "failure_then_stop", "two_failures", "flag",
                         "cancel", "poison", "pinger_500", "regen_fail") and rng.random() < 0.35 \
        or (trigger == "drop_then_stop" and (drop_dim == "crd2" or rng.random() < 0.3))
    if second:
        handlers.append({"kind": "update", "id": "u2", "resource": "kopfwidgets", "script": [],
                         "default": ["sleep", rng.choice([0.5, 1.5]), "ok"]})
        sc["second_kind"] = {"objects": [{"name": "w0"}]}
        if phase in ("steady", "inflight"):
            ops.append([t - rng.choice([0.25, 0.5]), "edit2", "w0", 30])
    shape["second_kind"] = second
    # the operator starts without credentials: the login handlers run at the start (core task, behind the started flag)
    if trigger not in ("login_fail", "login_fail_at_stop", "cancel_in_spawn") and rng.random() < 0.15:
        handlers.append({"kind": "login", "id": "lg0", "script": [], "default": "ok"})
        sc["empty_vault"] = True
    shape["empty_vault"] = bool(sc.get("empty_vault"))
    # a NAMESPACED operator (namespaces=["ns"] instead of cluster-wide): the namespace observer runs a watch stream of its own,
    # the watchers are per (resource, namespace); without peering (the fake cluster has the cluster-wide peering object only)
    if trigger == "ns_stream" or (not peering and trigger not in SPECIAL + ("early_stop_peering",) and rng.random() < 0.2) \
            or regen_dim == "ns" or (regen_dim in ("crd", "http404") and not peering and rng.random() < 0.3) \
            or drop_dim == "ns" or (drop_dim in ("crd", "crd2") and not peering and rng.random() < 0.3):
        sc["namespaced"] = ["ns"]
    shape["namespaced"] = bool(sc.get("namespaced"))
    if rng.random() < 0.3 and trigger not in ("worker_fail_depletion", "respawn_daemon", "worker_fail_gone"):
        sc["settings"]["queueing.exit_timeout"] = rng.choice([0.5, 1.0, 4.0])
    if trigger == "flag":
        ops.append([t, "flag"])
    elif trigger == "cancel":
        ops.append([t, "cancel"])
    elif trigger.startswith("watch_error_"):
        ops.append([t, "watch_error", trigger.rsplit("_", 1)[1]])
    elif trigger == "poison":
        ops.append([t, "poison", objects[0]["name"], 77])
    elif trigger == "memo_poison":
        sc["memo_poison"] = len(objects) + 1
        ops.append([t, "create", "late", 0])
    elif trigger == "discovery_500_initial":
        sc["initial_faults"] = {"path_equals": rng.choice(["/apis", "/api/v1", "/apis/kopf.dev/v1"])}
    elif trigger == "discovery_500_rescan":
        ops.append([t - 0.25, "faults", {"path_equals": "/apis/kopf.dev/v1"}])
        ops.append([t, "new_crd"])
    elif trigger == "pinger_500":
        sc["peering_faulted"] = True
        ops.append([t, "faults", {"method": "PATCH", "path_contains": "clusterkopfpeerings"}])
    elif trigger == "crd_gone":
        # the served CRD is deleted (the watcher meets HTTP 404: not a failure) and created again; then a new object.
        # No objects exist meanwhile: a real API server deletes a CRD only after its instances (and their finalizers)
        # are gone, while the fake API drops them at once — daemons of such objects would be left to the hung-task stop.
        sc["crd_object"] = True
        sc["objects"] = []
        sc["handlers"] = [h for h in handlers if h["kind"] != "daemon"]
        shape["daemons"] = []
        gap = rng.choice([1 / TPS, 0.5, 3.0])
        ops.append([t, "crd_delete"])
        ops.append([t + gap, "crd_create"])
        ops.append([t + gap + 2.0, "create", "late", 5])
    elif trigger == "regen_fail":
        # "When ANY essential task fails — including a watch stream …": also the stream (peering observer, keep-alive) that was
        # started for a dimension the operator HAD SERVED BEFORE. The dimension goes and comes back `cycles` times; the new generation
        # is seen to work (a new object is handled); then ITS task fails for good — by an in-stream ERROR event, by HTTP 403 / 5xx on
        # its list/watch, by a failing worker; the peering tasks by an ERROR on the peering stream or 500s on the keep-alive PATCH.
        # No objects and no daemons meanwhile, as for crd_gone (the fake API drops the instances of a deleted CRD at once).
        sc["crd_object"] = True
        sc["objects"] = []
        sc["handlers"] = [h for h in handlers if h["kind"] != "daemon"]
        shape["daemons"] = []
        # (a stream that is cut or un-paused reconnects after `reconnect_backoff`, 0.1 s by default: virtual times must be dyadic)
        sc["settings"]["watching.reconnect_backoff"] = 0.125
        del_op, add_op = {"crd": (["crd_delete"], ["crd_create"]), "http404": (["watch_gone", "kex", 0.25], ["new_crd"]),
                          "ns": (["ns_delete", "ns"], ["ns_create", "ns"]),
                          "peering": (["peering_crd_delete"], ["peering_crd_create"])}[regen_dim]
        cycles = force.get("cycles") or rng.choice([1, 1, 2])
        tt = t
        for _ in range(cycles):
            gap = rng.choice([0.5, 3.0])
            ops.append([tt, *(del_op if regen_dim != "http404" else ["watch_gone", "kex", gap - 0.25])])
            ops.append([tt + gap, *add_op])
            tt += gap + rng.choice([1.0, 2.0])
        ops.append([tt, "create", "late", 5])
        tt += rng.choice([1.0, 2.5])
        how = force.get("how") or (rng.choice(["watch_error_peering", "watch_error_peering", "pinger_500"]) if regen_dim == "peering"
                                   else rng.choice(["watch_error", "watch_http", "poison"]))
        if how == "watch_error":
            ops.append([tt, "watch_error", "kex"])
        elif how == "watch_http":
            status = rng.choice([403, 500, 503])
            ops.append([tt, "watch_http", "kex", status])
            shape["stream"] = f"kex:{status}"
        elif how == "poison":
            ops.append([tt, "poison", "late", 77])
        elif how == "watch_error_peering":
            ops.append([tt, "watch_error", "peering"])
        elif how == "pinger_500":
            sc["peering_faulted"] = True
            ops.append([tt, "faults", {"method": "PATCH", "path_contains": "clusterkopfpeerings"}])
        else:
            raise ValueError(f"unknown failure {how!r}")
        shape["regen"] = f"{regen_dim}x{cycles}:{how}"
        t = tt
    elif trigger == "drop_then_stop":
        # "… or a stop is requested, the WHOLE operator shuts down … cleanup handlers run after EVERYTHING ELSE has stopped": also the
        # streams, workers, handlers in flight and keep-alives of a dimension the operator is just ceasing to serve. At `t` the
        # dimension goes (CRD / namespace deleted: the observers revise the insights, the orchestrator cancels the dimension's tasks
        # and waits for them); the release TAKES TIME: a handler of `dur` s is in flight on an object of it since t - 0.25 (its watcher
        # depletes for up to `exit_timeout`), the farewell PATCH of the peering is answered late (and refused: retried). At t + δ,
        # inside that window (or just after it), the stop comes: flag, cancellation, or a failure of ANOTHER essential stream.
        # No daemons (as for crd_gone: the fake API drops the instances of a deleted CRD at once); at least one cleanup handler.
        sc["crd_object"] = True
        sc["handlers"] = handlers = [h for h in handlers if h["kind"] != "daemon"]
        shape["daemons"] = []
        if not any(h["kind"] == "cleanup" for h in handlers):
            handlers.append({"kind": "cleanup", "id": "cl0", "script": rng.choice([["ok"], [["sleep", 0.5, "ok"]]]), "opts": {}})
            shape["cleanup"] = ["ok"]
        ops[:] = [o for o in ops if o[1] not in ("edit", "edit2")]
        sc["settings"]["watching.reconnect_backoff"] = 0.125
        flight = force.get("flight") or rng.choice([0.5, 1.5, 1.5, 3.0, 24.0])
        for h in handlers:
            if h["kind"] == "update":
                h["default"] = ["sleep", flight, "ok"]
        if drop_dim == "peering":
            sc["peering_crd_object"] = True
            sc["peering_response_latency"] = rng.choice([0.25, 0.5, 1.0])
            if rng.random() < 0.5:
                ops.append([t - 0.25, "edit", objects[0]["name"], 10])      # (a handler in flight on the dimension that STAYS)
                shape["inflight"] = True
            ops.append([t, "peering_crd_delete"])
        else:
            if peering:
                sc["peering_response_latency"] = rng.choice([0.0, 0.25])
            # (the handlers in flight are those of the dimension that GOES: one on the dimension that stays would keep the
            #  orchestrator's exit waiting just as long and hide what has been forgotten; sometimes a SHORT one on the staying kind)
            if drop_dim != "crd2":
                for k_, o in enumerate(objects[:2]):
                    ops.append([t - 0.25, "edit", o["name"], 10 + k_])
            if second:
                for h in handlers:
                    if h["id"] == "u2":
                        h["default"] = ["sleep", flight if drop_dim == "crd2" else 0.5, "ok"]
                if drop_dim == "crd2" or rng.random() < 0.5:
                    ops.append([t - 0.25, "edit2", "w0", 30])
            shape["inflight"] = True
            ops.append([t, {"crd": "crd_delete", "crd2": "crd2_delete", "ns": "ns_delete"}[drop_dim], *(["ns"] if drop_dim == "ns" else [])])
        delta = force.get("delta") or rng.choice([4 / TPS, 0.125, 0.25, 0.25, 0.5, 1.0, 2.5])
        stop = force.get("stop") or rng.choice(["flag", "flag", "cancel", "watch_error_crd"] + (["watch_error_kex"] if drop_dim in ("crd2", "peering") else []))
        ops.append([t + delta, *(["watch_error", stop.rsplit("_", 1)[1]] if stop.startswith("watch_error_") else [stop])])
        shape["drop"] = f"{drop_dim}:{stop}:flight={flight}:delta={'in' if delta <= 0.5 else 'late'}"
        t = t + delta
    elif trigger == "early_stop_peering":
        # a stop within the first moments: the first keep-alive PATCH is applied by the API server but not yet answered
        sc["peering_response_latency"] = rng.choice([8 / TPS, 0.25, 0.5, 0.5])
        t = s_dur + rng.choice([4, 6, 8, 10, 12, 16]) / TPS
        ops.append([t, rng.choice(["flag", "flag", "cancel"])])
    elif trigger == "failure_then_stop":
        # an ensemble / observer stream fails; while the failure is being escalated (the orchestrator stops the other streams:
        # a withdrawal answered late, a handler in flight) the stop request comes
        if peering:
            sc["peering_response_latency"] = rng.choice([0.25, 0.5])
        if objects and rng.random() < 0.6:
            ops.append([t - 0.5, "edit", objects[0]["name"], 10])
            shape["inflight"] = True
        ops.append([t, "watch_error", rng.choice(["kex", "kex", "crd"] + (["peering"] if peering else []))])
        ops.append([t + rng.choice([1 / TPS, 0.125, 0.125, 0.25]), rng.choice(["flag", "flag", "cancel"])])
    elif trigger == "two_failures":
        if peering:
            sc["peering_response_latency"] = rng.choice([0.25, 0.5])
        first, second = rng.sample(["kex", "crd"] + (["peering"] if peering else []), 2)
        ops.append([t, "watch_error", first])
        ops.append([t + rng.choice([0.0, 1 / TPS, 0.125, 0.25]), "watch_error", second])
    elif trigger == "flag_then_cancel":
        ops.append([t - 0.5, "edit", objects[0]["name"], 10])
        ops.append([t, "flag"])
        ops.append([t + rng.choice([1 / TPS, 0.25, 0.5]), "cancel"])
        shape["inflight"] = True
    elif trigger == "respawn_daemon":
        # two events of an object with a daemon are queued behind a handler in flight when the stop comes
        ops.append([t - 0.5, "edit", objects[0]["name"], 10])
        ops.append([t - 0.25, "edit", objects[0]["name"], 11])
        ops.append([t, rng.choice(["flag", "flag", "cancel"])])
        shape["inflight"] = True
    elif trigger == "cancel_in_spawn":
        ops.append([0.0, "cancel_yields", rng.choice([1, 1, 2])])
    elif trigger == "worker_fail_gone":
        # the served CRD is deleted while a handler is in flight and a poisoned event waits behind it: the worker fails while
        # its watcher (ended by HTTP 404: not a failure) depletes — nothing stops the operator (C20-F5, "keeps running")
        sc["crd_object"] = True
        sc["handlers"] = handlers = [h for h in handlers if h["kind"] != "daemon"]
        shape["daemons"] = []
        ops.append([t - 0.5, "edit", objects[0]["name"], 10])
        ops.append([t - 0.25, "poison", objects[0]["name"], 77])
        ops.append([t, "crd_delete"])
        ops.append([t + 3.0, "crd_create"])
        shape["inflight"] = True
    elif trigger == "login_fail" and rng.random() < 0.3:
        # the very FIRST login fails for good: no credentials at the start, the core task dies right behind the started flag
        sc["empty_vault"] = True
        for h in handlers:
            if h["kind"] == "login":
                h["script"], h["default"] = ["perm"], "perm"
        shape["phase"] = phase = "startup_end"
        shape["empty_vault"] = True
        t = s_dur
    elif trigger == "login_fail":
        ops.append([t, "unauthorized"])
        ops.append([t + rng.choice([1 / TPS, 0.5]), "edit", objects[0]["name"], 20])
    elif trigger == "login_fail_at_stop":
        # the core task dies DURING the shutdown: the stop flag is set and the credentials are revoked at the same moment; the first
        # request of the shutdown (the peering withdrawal, or the patch of a handler in flight) gets HTTP 401, the re-login fails
        # for good. The stop-flag checker — which escalates a dead core task at any other time — is gone by then: the only path left
        # is startup_cleanup_activities' `reraise(core_done)` after the cleanup activity
        ops[:] = [o for o in ops if o[1] != "edit"]
        ops.append([t - 0.25, "edit", objects[0]["name"], 10])
        ops.append([t, "unauthorized"])
        ops.append([t, "flag"])
        shape["inflight"] = True
    elif trigger == "worker_fail_depletion":
        # a handler is in flight, a poisoned event waits behind it; the stop comes; the worker fails during the depletion
        stop = rng.choice(["flag", "flag", "cancel"])
        ops[:] = [o for o in ops if o[1] != "edit"]
        ops.append([t - 0.5, "edit", objects[0]["name"], 10])
        ops.append([t - 0.25, "poison", objects[0]["name"], 77])
        ops.append([t, stop])
        shape["inflight"] = True
    elif trigger == "watch_http":
        res = rng.choice(["kex", "kex", "crd"] + (["ns", "ns"] if sc.get("namespaced") else []))
        status = rng.choice([403, 500, 503]) if res == "kex" else rng.choice([500, 503])
        ops.append([t, "watch_http", res, status])
        shape["stream"] = f"{res}:{status}"
    elif trigger == "ns_stream":
        how = rng.choice(["error", "http"])
        ops.append([t, "watch_error", "ns"] if how == "error" else [t, "watch_http", "ns", rng.choice([500, 503])])
        shape["stream"] = "ns:" + how
    elif trigger == "orch_fail":
        ops.append([t, "orch_poison"])
    elif trigger == "pause_stop_race":
        # the API server is slow to answer the WATCH requests of the served resource (0.5 s before the headers); its stream ends
        # (server timeout) and the watcher re-watches: while that request is pending, `api.stream` lets the pause-stopper cancel it.
        # In that window a peer of a higher priority appears (the operator pauses: the stopper cancels the request) and, n loop
        # iterations later (or before), the stop comes (the operator cancels the watcher too): a cancellation that is BOTH must not
        # be swallowed as the stopper's own (C03-N5 / d8da165; `Task.uncancel()`), or the watcher goes back to wait for the un-pause
        # and the operator never exits
        sc["watch_response_latency"] = 0.5
        n_it = force.get("n", rng.randrange(0, 6))
        stop = [rng.choice(["flag", "flag", "cancel"])]
        pause = ["rival", 100, 60]
        first, second = (pause, stop) if force.get("order", rng.choice(["pause", "pause", "stop"])) == "pause" else (stop, pause)
        ops.append([t, "watch_eof", "kex"])
        ops.append([t + 0.375, *first])
        ops.append([t + 0.375, "yields", n_it])
        ops.append([t + 0.375, *second])
        shape["race"] = n_it
    elif trigger == "cancel_in_hung_wait":
        # the root tasks are over after D (the other daemons' stoppers) + W (withdrawal) + C (cleanup); the hung wait lasts 5 s
        g_ = graces(sc)
        ops.append([t, "flag"])
        ops.append([t + g_["D"] + g_["C"] + (0.25 if peering else 0.0) + rng.choice([0.5, 1.0, 2.5, 4.0]), "cancel"])
    elif trigger in ("startup_fail",):
        pass
    elif trigger == "cleanup_fail":
        ops.append([t, rng.choice(["flag", "flag", "cancel"])])
    # the operator is PAUSED at the trigger: a peer of a higher priority has appeared in the peering object a moment before (the streams
    # are disconnected, the daemon killer stops the daemons with PAUSING stoppers, every second anew; the peering observer's worker
    # sleeps until the rival's record expires)
    if peering and not sc.get("namespaced") and trigger in ("flag", "cancel", "watch_error_kex", "watch_error_peering",
                                                             "failure_then_stop", "flag_then_cancel", "cancel_in_hung_wait") \
            and phase in ("steady", "inflight") and rng.random() < 0.25:
        ops.append([max(0.0, t - rng.choice([0.0, 1 / TPS, 2 / TPS, 0.25, 1.0, 3.0])), "rival", 100, 60])
        shape["paused"] = True
    # a DELETION in progress at the trigger: the object is marked shortly before (its daemons are being stopped the multi-step way,
    # `stop_daemons`, its finalizer is being released) when the exit stoppers / the depletion come
    if objects and trigger in ("flag", "cancel", "watch_error_kex", "watch_error_crd", "failure_then_stop", "flag_then_cancel",
                               "watch_http", "cancel_in_hung_wait") and phase in ("steady", "inflight") and rng.random() < 0.15:
        ops.append([t - rng.choice([1 / TPS, 0.25, 1.0]), "delete", objects[-1]["name"]])
        shape["deleting"] = True
    # when is the trigger felt at the latest? (keep-alive period <= 60 s; retries of a failing request)
    felt = {"login_fail_at_stop": t, "failure_then_stop": t + 0.25, "two_failures": t + 0.25, "flag_then_cancel": t + 0.5, "cancel_in_spawn": 0.0,
            "worker_fail_gone": t + 2.0, "login_fail": t + 1.0, "pinger_500": t + 60.0 + 8.0, "discovery_500_rescan": t + 8.0, "discovery_500_initial": s_dur + 8.0,
            "startup_fail": s_dur + 1.0, "memo_poison": t + 1.0, "watch_http": t + 6.0, "ns_stream": t + 6.0,
            "orch_fail": t + 1.0, "cancel_in_hung_wait": t + 12.0, "pause_stop_race": t + 0.375,
            "regen_fail": t + (68.0 if sc.get("peering_faulted") else 6.0)}.get(trigger, t)
    b = bound_s(sc)
    probe = felt + b + 2.0
    if trigger == "regen_fail":
        ops.append([probe, "edit", "late", 99])
    elif objects and trigger not in ("crd_gone", "drop_then_stop"):
        ops.append([probe, "edit", objects[0]["name"], 99])
    sc["ops"] = sorted(ops, key=lambda e: e[0])
    sc["end"] = probe + 8.0
    sc["shape"] = shape
    return sc


# =================================================================================================
# Subprocess pool (stall-safe, hard timeouts) — same protocol as harness/sim/pool.py
# =================================================================================================
def _run_batch(items: list[tuple[int, dict]], wall: float, results: dict[int, dict]) -> None:
    pending = list(items)
    env = dict(os.environ)
    env["PYTHONPATH"] = f"{ROOT}:{env.get('KOPF_REPO', '/repo')}"
    env["PYTHONHASHSEED"] = "0"
    while pending:
        payload = "".join(json.dumps({"i": i, "sc": sc}) + "\n" for i, sc in pending)
        try:
            p = subprocess.run([sys.executable, "-W", "ignore", "-m", "harness.props.sim_c20", str(wall)], input=payload,
                               capture_output=True, text=True, cwd=str(ROOT), env=env,
                               timeout=wall * (len(pending) + 2) + 120)
            stdout, stderr, rc = p.stdout, p.stderr, p.returncode
        except subprocess.TimeoutExpired as e:      # subprocess.run has SIGKILLed the worker
            stdout = (e.stdout or b"").decode() if isinstance(e.stdout, bytes) else (e.stdout or "")
            stderr = (e.stderr or b"").decode() if isinstance(e.stderr, bytes) else (e.stderr or "")
            rc = -9
        done = set()
        for line in stdout.splitlines():
            if line.startswith("{"):
                r = json.loads(line)
                results[r["i"]] = r
                done.add(r["i"])
        rest = [(i, sc) for i, sc in pending if i not in done]
        if not rest:
            return
        if rc == 0 and len(rest) == len(pending):
            for i, _ in rest:
                results[i] = {"i": i, "harness_error": "worker produced no output", "tb": stderr[-2000:]}
            return
        i0, _sc0 = rest[0]
        tail = stderr[stderr.rfind(f"@@BEGIN {i0}"):][-6000:]
        results[i0] = {"i": i0, "stall": True, "returncode": rc, "stderr": tail}
        pending = rest[1:]


def run_many(histories: list[dict], wall: float = 30.0, batch: int = 20) -> list[dict]:
    jobs = int(os.environ.get("VERIF_JOBS", "0")) or min(16, os.cpu_count() or 4)
    items = list(enumerate(histories))
    batches = [items[k:k + batch] for k in range(0, len(items), batch)]
    results: dict[int, dict] = {}
    with ThreadPoolExecutor(max_workers=jobs) as ex:
        list(ex.map(lambda b: _run_batch(b, wall, results), batches))
    return [results.get(i, {"i": i, "harness_error": "missing"}) for i in range(len(histories))]


# =================================================================================================
# The check
# =================================================================================================
def _corpus() -> list[tuple[str, dict]]:
    return [(n, d["history"] if "history" in d else d.get("replay", {}).get("history", d)) for n, d in load_corpus(ID)]


def _evaluate(ctx: Ctx, histories: list[dict], tie: bool = True) -> None:
    results = run_many(histories)
    obs_list = []
    for sc, res in zip(histories, results):
        if "obs" not in res:
            raise RuntimeError(f"simulation failed (harness problem): {str(res)[:3000]}")
        obs = res["obs"]
        if obs.get("sim_error"):
            raise RuntimeError(f"simulation error: {obs['sim_error']} in history seed {sc.get('seed')}")
        obs_list.append(obs)
    # the oracle on every implementation run, regardless of the model
    noncoop: set[int] = set()
    for k, (sc, obs) in enumerate(zip(histories, obs_list)):
        ctx.traces += 1
        bad, facts = oracle(sc, obs)
        if facts.get("noncooperative"):
            noncoop.add(k)
            ctx.count("tie_skipped", "C20-F7")

        shape = dict(sc.get("shape") or {"corpus": sc.get("name")})
        shape["outcome"] = (obs.get("returned") or {}).get("how")
        ctx.case(key=shape, nontrivial=facts.get("trigger") is not None,
                 sample={"history": {k: v for k, v in sc.items() if k != "shape"}, "returned": obs.get("returned"), "facts": facts})
        ctx.count("trigger", (sc.get("shape") or {}).get("trigger", "corpus"))
        ctx.count("phase", (sc.get("shape") or {}).get("phase", "corpus"))
        ctx.count("outcome", str((obs.get("returned") or {}).get("how")) + ("/lingering" if facts.get("is_lingering") else ""))
        ctx.count("first_trigger_observed", str(facts.get("trigger")))
        for d in (sc.get("shape") or {}).get("daemons", []):
            ctx.count("daemon_mode", d)
        ctx.count("peering", bool(sc.get("peering")))
        ctx.count("orchestrator_exit_order", str(facts.get("exit_order")))
        for extra in ("timer", "second_kind", "empty_vault", "namespaced", "deleting", "paused"):
            ctx.count(extra, bool((sc.get("shape") or {}).get(extra)))
        ctx.count("daemons_given_up_by_their_stopper", str(len(given_up(obs["log"]))))
        if (sc.get("shape") or {}).get("stream"):
            ctx.count("stream_failure_by_http", str(sc["shape"]["stream"]))
        for what, sig in bad:
            ctx.oracle_fail(what, {"history": sc, "facts": facts, "returned": obs.get("returned"),
                                   "log_tail": obs["log"][-40:]}, sig)
    if not tie:
        return
    # tie A: the driver must accept every label trace of the model of the current tree (`headCfg`: fixed := true;
    # that this IS the variant of the source is re-checked from the AST by `extract` + Kopf/Tie/C20.lean)
    fixed = True
    xf = ctx.extra.get("extracted_facts") or {}
    core_watched = bool(xf.get("rootTaskAwaitsCore") and xf.get("coreErrorsAfterCleanup"))
    ctx.extra["model_variant"] = ("headCfg (fixed := true: failed ensemble task -> orchestrator; coreWatched := "
                                  f"{str(core_watched).lower()}: " + ("a root task awaits the core tasks" if core_watched else
                                                                      "nobody awaits the core task, finding C20-F6")
                                  + "; orchShielded / spawnSwept / stopSwept / deplEscalates := "
                                  + " / ".join(str(bool(xf.get(k))).lower() for k in
                                               ("orchestratorShieldsStop", "spawnTasksSweepsOnCancel", "runTasksSweepsOnCancel",
                                                "watcherRechecksWorkerError")) + ")")
    swap = bool(ctx.extra.get("core_awaited_by_stop_flag_checker"))
    orch_shielded = bool(xf.get("orchestratorShieldsStop"))
    # non-cooperative runs (the signature of C20-F7, fixed by 83aec44: the operator never returns) are outside `ReachC`:
    # oracle only; none on the current tree
    if noncoop:
        histories = [sc for k, sc in enumerate(histories) if k not in noncoop]
        obs_list = [o for k, o in enumerate(obs_list) if k not in noncoop]
    reqs = [["C20.trace", model_cfg(sc, fixed, core_watched, orch_shielded, bool(xf.get("spawnTasksSweepsOnCancel")),
                                    bool(xf.get("runTasksSweepsOnCancel")), bool(xf.get("watcherRechecksWorkerError")),
                                    bool(xf.get("orchestratorSweepsOnOwnFailure"))),
             abstract(obs, sc, swap)]
            for sc, obs in zip(histories, obs_list)]
    try:
        outs = ctx.driver.ask(reqs)
    except leanio.LeanError as e:
        ctx.tie_fail(f"Lean driver failed: {e}", {"log": e.log})
        return
    for sc, obs, req, out in zip(histories, obs_list, reqs, outs):
        ctx.tie_comparisons += 1
        if not out or out[0] != "ok":
            ctx.tie_fail("driver could not parse a trace (an observation outside the model's vocabulary)",
                         {"history": sc, "answer": out, "labels": [l for l in req[2] if "unknown" in json.dumps(l)][:5]})
            continue
        m = out[1]
        if not m["accepted"]:
            i = m["index"]
            ctx.tie_fail(f"the model rejects the observed trace at label {i}: {m['reason']}",
                         {"history": sc, "label": m["label"], "reason": m["reason"], "model_state": m["state"],
                          "context": req[2][max(0, i - 12): i + 3]})
            continue
        if m.get("truncated"):
            # (only in a tree WITHOUT one of the repairs ab6fb15 / d6da86b / 883284c, whose historical model variant the extracted
            #  facts select — the tie theorems fail then as well:) the run left the model at `orchAbandon` / `spawnCancel` /
            #  `stopCancel` (C20-F8 / F10 / F11, reported by the oracle): compared up to that label only
            left = [l[1] for l in req[2] if l[1] in ("orchAbandon", "spawnCancel", "stopCancel", "orchCrash")]
            ctx.count("tie_truncated_at", {"orchAbandon": "orchAbandon (C20-F8)", "spawnCancel": "spawnCancel (C20-F10)",
                                           "stopCancel": "stopCancel (C20-F11)",
                                           "orchCrash": "orchCrash (C20-F12, open: the current tree leaves the model there)"}
                      .get(left[0] if left else "", "?"))
            continue
        fin = m["final"]
        ret = obs.get("returned")
        impl = {"result": None if ret is None else {"done": "returned", "failed": "raised", "cancelled": "cancelled"}[ret["how"]],
                "exitAt": None if ret is None else ticks(ret["t"]),
                "started": any(e[1] == "setStarted" for e in obs["log"]), "ready": any(e[1] == "ready" for e in obs["log"])}
        model = {k: fin[k] for k in ("result", "exitAt", "started", "ready")}
        ctx.compare("C20 final state of the run", impl, model, {"history": sc})


RUN_SIG_RERAISE = {"site": "running.run", "shape": "the run call does not re-raise the failure operator() ended with"}
RUN_SIG_RETURN = {"site": "running.run", "shape": "the run call does not return normally although operator() returned / was cancelled"}
RUN_SIG_KWARGS = {"site": "running.run", "shape": "the run call does not hand an argument over to operator() (e.g. the stop flag is never seen)"}


def _check_run_call(ctx: Ctx, only: dict | None = None) -> None:
    """"… and the RUN CALL returns (re-raising the failure)": `kopf.run()` is the synchronous call around `operator()` (what
    `kopf run` and every embedding program call). The whole-operator histories drive `operator()`; here the REAL `run()` is
    called around a scripted `operator` (module attribute replaced for the call), with a loop of its own and with none: whatever
    operator() ends with must come out of run() — a failure re-raised, a normal return and a cancellation (documented) as a normal
    return — and every argument (stop flag, ready flag, registry, settings, …) must reach operator() as it was given."""
    import asyncio
    import inspect
    from kopf._core.reactor import running

    class Boom(Exception):
        pass
    from kopf._core.engines import activities as _act
    outcomes = {"returns": None, "raises": Boom("scripted failure of an essential task"),
                "raises_activity_error": _act.ActivityError("scripted failed startup", outcomes={}),
                "cancelled": asyncio.CancelledError()}
    params = [p for p in inspect.signature(running.run).parameters if p != "loop"]
    for outcome, exc in outcomes.items():
        for with_loop in (False, True):
            case = {"outcome": outcome, "with_loop": with_loop}
            if only is not None and only != case:
                continue
            sent = {p: object() for p in params}
            got: dict[str, Any] = {}

            async def scripted_operator(**kw: Any) -> None:
                got.update(kw)
                await asyncio.sleep(0)
                if exc is not None:
                    raise exc
            real = running.operator
            running.operator = scripted_operator  # type: ignore[assignment]
            loop = asyncio.new_event_loop() if with_loop else None
            how: tuple[str, str | None]
            try:
                try:
                    running.run(loop=loop, **sent)
                    how = ("returned", None)
                except BaseException as e:  # noqa: BLE001
                    how = ("raised", type(e).__name__)
            finally:
                running.operator = real  # type: ignore[assignment]
                if loop is not None:
                    loop.close()
            ctx.case(key={"run_call": outcome, "with_loop": with_loop}, nontrivial=True)
            ctx.count("run_call", f"{outcome}/{'loop' if with_loop else 'asyncio.run'} -> {how[0]}")
            want = ("raised", type(exc).__name__) if outcome.startswith("raises") else ("returned", None)
            if how != want:
                ctx.oracle_fail(f"kopf.run() around an operator() that {outcome}: {how}, expected {want}", {"run_call": case},
                                RUN_SIG_RERAISE if outcome.startswith("raises") else RUN_SIG_RETURN)
            lost = sorted(p for p in params if got.get(p, None) is not sent[p])
            if lost:
                ctx.oracle_fail(f"kopf.run() does not pass {lost} on to operator() as given", {"run_call": case}, RUN_SIG_KWARGS)


def run(ctx: Ctx) -> None:
    _check_run_call(ctx)
    n = ctx.budget(200, 5000)
    histories = [sc for _, sc in _corpus()]
    ctx.count("histories", "corpus", len(histories))
    # every trigger at every phase it applies to, then random
    k = 0
    for trig in sorted(set(TRIGGERS)):
        for ph in PHASES:
            if k >= n:
                break
            histories.append(gen_history(ctx.rng, ctx.seed * 1_000_000 + k, {"trigger": trig, "phase": ph}))
            k += 1
    while k < n:
        histories.append(gen_history(ctx.rng, ctx.seed * 1_000_000 + k))
        k += 1
    ctx.count("histories", "generated", k)
    _evaluate(ctx, histories)


def search(ctx: Ctx, broken: list) -> None:
    """A proof/tie is broken: look for a concrete failing history with the oracle at a larger budget."""
    n = ctx.budget(1500, 10000)
    histories = []
    for b in broken[:10]:
        sc = (b.replay or {}).get("history") if isinstance(b.replay, dict) else None
        if sc:
            histories.append(sc)
    histories += [gen_history(ctx.rng, 7_000_000 + ctx.seed * 1_000_000 + i) for i in range(n)]
    _evaluate(ctx, histories, tie=False)


def replay(ctx: Ctx, data: dict) -> None:
    rep = data.get("replay", data)
    if "run_call" in rep:
        _check_run_call(ctx, only=rep["run_call"])
        return
    sc = rep.get("history") or (rep.get("input") or {}).get("history")
    if sc is None:
        raise RuntimeError("replay file has no history")
    _evaluate(ctx, [sc], tie=False)
