"""C01 — per-object event processing is serial, ordered and lossless.

Proof: Lean theorems over ALL label lists of the labelled transition system in
`lean/Kopf/Model/C01_Queueing.lean` (labels = atomic code segments of `queueing.watcher/worker`,
`_wait_for_depletion`, `aiotasks.Scheduler`).
Tie (A, trace acceptance): the REAL `queueing.watcher` runs scripted streams under a virtual-time loop
(`sim_c01.py`), every atomic segment is logged as a label with a snapshot of `streams` / scheduler
internals, and the Lean driver (`C01.trace`) must accept every trace.
Oracle: written from the property statement over the processor call log vs. the delivered log; never
consults the model.
"""
from __future__ import annotations

import json
import multiprocessing
import os
import random
import traceback
from typing import Any

from .. import leanio
from ..core import CORPUS, Ctx

ID = "C01"
LEVEL = "proof"
STRENGTH = "full"   # every clause has a theorem; scope guards are the property's own ("while the watch is alive"); see LEVEL_TEXT
ENGINES = ["lean-model", "kopfsim"]
LEVEL_TEXT = ("Lean theorems for every label list (no bound) of an LTS of watcher/worker/Scheduler. Unguarded: at most one busy "
              "worker per key (serial), processed++inflight++backlog is a sub-sequence of arrived in EVERY state incl. shutdown "
              "(ordered_always), running <= limit, pending queue FIFO / never overtaken, every internal segment decreases "
              "`measure`, per key: segments of k decrease `kmeasure k`, nothing but an arrival for k increases it "
              "(key_work_bounded: k's work is bounded whatever other keys do). Under the property's own scope only ('while the "
              "watch is alive' = scheduler not closed and no worker of the key failed): stream entry <=> exactly one live worker, "
              "arrived = processed++inflight++backlog (lossless_ordered; drain_lossless extends it through the graceful drain "
              "up to scheduler.close()), key_progress (a key with work can move by its own enabled segment unless all slots are "
              "taken or an earlier-enqueued worker is at the head), key_done_complete / key_drained_complete. The scope guard "
              "'no worker of the key failed' is the property's own: failure_ends_watch (a failure that drops queued events "
              "ends the watch: the dead task can only `left`, which sets closing; then no arrive/miss is enabled). "
              "watcher_never_blocks / arrival_frame: in ANY state of a live watch every event of every key is taken over at "
              "once and touches nothing but its own backlog (no head-of-line blocking in the multiplexer). Liveness is "
              "'enabled + bounded', i.e. it needs the fairness assumptions listed in ASSUMPTIONS (processors return, timers fire, "
              "the loop runs enabled segments). The event->key map (bookmark filter + get_uid) is a small separate model "
              "(keyOf_spec) tied differentially on an exhaustive grid. Tie of the LTS: trace acceptance of the real "
              "queueing.watcher under virtual time incl. arrivals exactly on the idle deadline in both tie orders; the keys are "
              "the ones the real watcher uses (observed at the queues, not re-computed); two watchers in one loop are two "
              "instances of the LTS (each trace replayed on its own); the watcher must come back to the stream within the "
              "same virtual instant. The hand-over INSIDE Scheduler.spawn() (put into _pending_coros under _condition's lock, "
              "spawner and cleaner needing the same lock) is a second small LTS (C01_Sched.lean, parameter cap = the bound of "
              "the pending queue as Scheduler.__init__ builds it): for the unbounded queue spawn() never suspends in the locked "
              "section and a free slot is always handed on (sched_spawn_never_blocks, sched_free_slot_is_used: what makes "
              "`insert` atomic); for ANY bound a put() that once waits for a place waits for ever (sched_blocked_put_is_forever; "
              "sched_bounded_queue_deadlock_witness). Tie D of that model: the real aiotasks.Scheduler driven directly (spawn "
              "calls, ending jobs; [pending, running, lock held, spawn() calls returned] after every operation), cap read off the "
              "real queue; plus in every watcher run: the scheduler's lock is never seen held from a segment outside the scheduler. This kopf has "
              "no batching in worker() (batch_window is deprecated and ignored), so 'processed' means every single event.")
TIE = ("A: every atomic segment of the real watcher/worker/Scheduler logged as a label + state snapshot, replayed by the Lean LTS "
       "(the Scheduler's own containers observed in place, as its __init__ built them); D: the real Scheduler alone vs. the Lean "
       "scheduler hand-over model after every spawn()/job end")
THEOREMS = [
    ("Kopf.Props.C01", "Kopf.C01.stream_iff_worker"),
    ("Kopf.Props.C01", "Kopf.C01.closed_may_orphan_stream"),
    ("Kopf.Props.C01", "Kopf.C01.lossless_ordered"),
    ("Kopf.Props.C01", "Kopf.C01.drain_lossless"),
    ("Kopf.Props.C01", "Kopf.C01.ordered_always"),
    ("Kopf.Props.C01", "Kopf.C01.inflight_spec"),
    ("Kopf.Props.C01", "Kopf.C01.serial"),
    ("Kopf.Props.C01", "Kopf.C01.serial_step"),
    ("Kopf.Props.C01", "Kopf.C01.limit_respected"),
    ("Kopf.Props.C01", "Kopf.C01.quiescent_complete"),
    ("Kopf.Props.C01", "Kopf.C01.internal_terminates"),
    ("Kopf.Props.C01", "Kopf.C01.internal_run_bounded"),
    ("Kopf.Props.C01", "Kopf.C01.reaches_quiescence"),
    ("Kopf.Props.C01", "Kopf.C01.limit_zero_starves"),
    ("Kopf.Props.C01", "Kopf.C01.key_progress"),
    ("Kopf.Props.C01", "Kopf.C01.key_step_decreases"),
    ("Kopf.Props.C01", "Kopf.C01.key_step_frame"),
    ("Kopf.Props.C01", "Kopf.C01.key_work_bounded"),
    ("Kopf.Props.C01", "Kopf.C01.key_done_complete"),
    ("Kopf.Props.C01", "Kopf.C01.key_drained_complete"),
    ("Kopf.Props.C01", "Kopf.C01.pendingQ_fifo"),
    ("Kopf.Props.C01", "Kopf.C01.pending_never_overtaken"),
    ("Kopf.Props.C01", "Kopf.C01.frame_other_key"),
    ("Kopf.Props.C01", "Kopf.C01.watcher_never_blocks"),
    ("Kopf.Props.C01", "Kopf.C01.arrival_frame"),
    ("Kopf.Props.C01", "Kopf.C01.failure_ends_watch"),
    ("Kopf.Props.C01", "Kopf.C01.no_arrival_when_closing"),
    ("Kopf.Props.C01", "Kopf.C01.keyOf_spec"),
    ("Kopf.Props.C01", "Kopf.C01.buggy_loses"),
    ("Kopf.Props.C01", "Kopf.C01.sched_spawn_never_blocks"),
    ("Kopf.Props.C01", "Kopf.C01.sched_free_slot_is_used"),
    ("Kopf.Props.C01", "Kopf.C01.sched_blocked_put_is_forever"),
    ("Kopf.Props.C01", "Kopf.C01.sched_bounded_queue_deadlock_witness"),
]
# not counted: quiescent_run_complete (corollary), independent_spawn (unfolds canSpawn), and in Lemmas/C01_Frame.lean
# limit_const, take_reads_own_component, finish_reads_own_component. `take` and `timeoutTake` are ONE transition of the
# model (same guard, same effect): the pre-d07cc0b re-wait is recognised by the harness (anomaly `retry`), not by Lean.
RULE = ("scripted watch streams of 1-6 objects (crowds: 12-40) (with/without uid), 2-12 events, idle_timeout/worker_limit/exit_timeout/"
        "consistency scripted, processor durations incl. 0 and idle±1, raising processors, watcher cancellation; arrivals "
        "placed EXACTLY on last_activity+idle_timeout and ±1 tick (adaptive: read off the worker's own wait_for), each "
        "stream run under both orders of same-instant timers (fifo/lifo; rng in thorough). A case is distinct by its "
        "label-name/key sequence; non-trivial when it contains a ttake (timeout with a filled queue: the found event is taken in the same segment), a same-instant "
        "retire+re-insert, an arrival during busy, a limit-blocked pending worker, a kill, a failure or a drained EOS. "
        "exit_timeout incl. 0 and None, a second cancellation during the drain, cancellation at the n-th suspension of the "
        "watcher after an event (same instant). Floods: 40-150 (thorough: -400) events of one object queued behind a slow "
        "processor while other objects get events (sent on an absolute schedule: an event that the watcher takes late counts "
        "from when it was sent). Re-created objects (same name/namespace, new uid). A failing processor with events queued "
        "behind it and later events of other objects. In 12% of the scenarios a SECOND watcher (another resource, own stream, "
        "often ending or cancelled while the first one is busy) runs in the same loop. The scheduler alone: the real "
        "aiotasks.Scheduler(limit=None/1/2/3/5) with 6-40 adaptive operations (spawn a job / end a job that really runs), "
        "spawn-heavy mixes up to 95%: tens of jobs pending beyond the limit; bursts of 2*limit+0..2 jobs first; non-trivial when "
        "jobs wait under a limit. Plus an exhaustive grid of identities through "
        "the real get_uid vs the Lean keyOf (not counted in distinct_nontrivial).")
TRUSTED = ["in the scheduler-alone runs 16 loop cycles after each operation are taken as 'settled' (the longest chain in the code "
           "is done-callback -> cleaner -> spawner -> first step of the task: 5 cycles)",
           "CPython asyncio (Queue, wait_for, timeouts, Condition, Task cancellation) — exercised, not modelled",
           "harness/props/sim_c01.py hook placement: each label is logged inside the atomic segment it names",
           "the actual order CPython gives to same-instant timers is not predicted: both orders are executed"]
ASSUMPTIONS = ["the Kubernetes API never reorders events of one object (the scripted stream is the delivered order)",
               "per-object backlogs of up to 150 (thorough: 400) events are exercised; a loss or a stall that only begins beyond "
               "that depth is not seen by the runs (the model's backlog is an unbounded list: watcher_never_blocks)",
               "an idle worker may hold its worker_limit slot for idle_timeout after its last activity, or — when "
               "persistence.consistency_timeout is set — for that long at most (upper bound; the exact consistency deadline is "
               "C07's subject); one that lingers longer does not excuse another object's waiting (oracle O4/O3b)",
               "FAIRNESS (needed by every 'eventually' reading of internal_run_bounded / key_work_bounded / key_progress; the "
               "model classifies these labels as internal): (1) every processor call returns or raises (`finish`/`fail`); "
               "(2) timers fire: an idle wait_for times out (`retire`/`timeoutTake`); (3) the event loop eventually runs every "
               "enabled segment (asyncio's FIFO ready queue)",
               "ONE shared event loop: a processor that never suspends stalls every object (model segments take zero time); "
               "not a statement about wall-clock latency",
               "an IDLE worker keeps its worker_limit slot for idle_timeout: with a limit, another object's event may wait up to "
               "idle_timeout although nothing is being processed (within 'the configured worker limit' as the scheduler counts "
               "tasks, not busy processors) — observed on the real code, permitted by the text",
               "worker_limit is None or >= 1. worker_limit=0 is accepted by kopf, processes nothing (Lean: limit_zero_starves) and "
               "makes the watcher's shutdown hang in scheduler.close(); corpus/C01/obs-worker-limit-zero.json replays it; not "
               "generated (observation, not a C01 finding: waiting forever is 'within' a limit of 0)",
               "the segment boundaries are those of CPython 3.12 (`asyncio.wait_for` built on `timeouts.timeout`, no inner task); "
               "on 3.10/3.11 wait_for wraps the getter in a task and pops the item there — not exercised by this harness",
               "identity data is valid Kubernetes data: metadata.uid, when present, is a non-empty string; identity fields do not "
               "contain '//' and are not literally '-'; creationTimestamp is a string ({'uid': None} makes all such objects share "
               "the key None; a non-string creationTimestamp raises TypeError in get_uid)",
               "processors raise Exception subclasses only (a BaseException such as SystemExit escaping a worker task is not generated)",
               "one watcher per object: C01 is per `watcher()` call (its own `streams` dict and Scheduler — CHECKED: scenarios "
               "with two watchers in one loop, each judged by the oracle and replayed by the model on its own, with the "
               "scheduler's containers observed where the code keeps them, per instance or per class). kopf starts one "
               "watcher per (resource, namespace) and refuses cluster-wide + namespaced together (running.py raises TypeError); "
               "the same object served under two API versions/resources is two objects for the multiplexer. Overlapping "
               "watch scopes are C19/C20's subject, not modelled here",
               "get_uid: the key of an event is metadata.uid, else '//'.join(kind, apiVersion, name, namespace, creationTimestamp "
               "with None -> '-'): not modelled in Lean; oracle O6 on every run + an exhaustive grid through the real get_uid "
               "(same object <=> same key for valid Kubernetes names, i.e. no '//' inside and no component literally '-'); "
               "two uid-less incarnations of one name without creationTimestamp share a key by design (docstring of get_uid)",
               "processors do not swallow cancellation",
               "idle_timeout <= 0 is covered since /repo d07cc0b (finding F1, fixed): generated with idle_timeout 0 and -1"]

POLICIES_Q = ("fifo", "lifo")
POLICIES_T = ("fifo", "lifo", "rng")


# =================================================================================================
# The oracle: from the property statement, over implementation-level observations only.
# =================================================================================================
def drain_bound(scn: dict) -> int:
    st = scn["settings"]
    evs = [i for i in scn["stream"] if "obj" in i]
    return (sum(max(0, i.get("dur", 0)) for i in evs)
            + (len(evs) + 2) * (max(0, st["idle_timeout"]) + (st.get("consistency_timeout") or 0)) + 64)


def oracle(scn: dict, log: dict) -> list[tuple[str, dict]]:
    """Returns a list of (what, signature). Empty = the property held on this run."""
    bad: list[tuple[str, dict]] = []

    def fail(check: str, what: str) -> None:
        bad.append((what, {"site": "queueing", "check": check}))

    if log["outcome"] == "stall":
        fail("livelock", f"the loop spins without virtual time advancing: {log['error']}")
        return bad
    if log["outcome"] == "deadlock":
        fail("stuck", f"nothing scheduled while the watcher has not finished: {log['error']}")
        # O8 — "while the watch is alive none is dropped ... however event arrivals interleave with ... the worker
        #      limit": the run is over for good (no timer, nothing ready), nobody cancelled the watcher and the stream
        #      has not ended — the watch IS alive —, so every event the API has sent must have been processed. One
        #      that never entered the processor is lost, whatever the limit: no other object is being processed.
        if log["cancel_t"] is None and log["stream_end"] is None:
            started = {c["seq"] for c in log["calls"]}
            n_sent = len([i for i in scn["stream"] if "obj" in i])
            busy = [c["seq"] for c in log["calls"] if c["end"] is None]
            for d in log["delivered"]:
                if d["seq"] not in started:
                    fail("lost", f"object {d['obj']}: event {d['seq']} delivered at t={d['t']} was never handed to the processor: "
                                 f"the watch is alive (not cancelled, the stream not ended) but since t={log['end_t']} nothing moves "
                                 f"any more (processors still running: {busy}; worker_limit={scn['settings'].get('worker_limit')}; "
                                 f"{n_sent - len(log['delivered'])} further events of the API were never even read from the stream)")
        return bad
    if log["outcome"] and log["outcome"].startswith(("error", "runtime-error")):
        fail("crash", f"watcher ended with {log['outcome']}")

    st = scn["settings"]
    limit = st.get("worker_limit")
    delivered = log["delivered"]
    calls = log["calls"]
    by_obj_deliv: dict[int, list[dict]] = {}
    for d in delivered:
        by_obj_deliv.setdefault(d["obj"], []).append(d)
    by_obj_calls: dict[int, list[dict]] = {}
    for c in calls:
        by_obj_calls.setdefault(c["obj"], []).append(c)

    # O6 — one object <-> one per-object worker key (get_uid incl. its fallback)
    obj_keys: dict[int, set] = {}
    for d in delivered:
        if d["k"] is not None:          # None: the watcher never put it into any queue (judged by O3/O3b)
            obj_keys.setdefault(d["obj"], set()).add(d["k"])
    for c in calls:
        if c["obj"] is not None and c["k"] is not None:
            obj_keys.setdefault(c["obj"], set()).add(c["k"])
    seen: dict[int, int] = {}
    for o, ks in obj_keys.items():
        if len(ks) != 1:
            fail("key", f"events of object {o} were multiplexed to several keys {sorted(ks)}")
        for k in ks:
            if k in seen and seen[k] != o:
                fail("key", f"objects {seen[k]} and {o} share one per-object queue")
            seen[k] = o

    # O1 — order, no duplicates: the processed sequence of an object is a strictly increasing
    #      subsequence of what was delivered for that object
    for o, cs in by_obj_calls.items():
        dseqs = {d["seq"] for d in by_obj_deliv.get(o, [])}
        last = 0
        for c in cs:
            if c["seq"] not in dseqs:
                fail("order", f"object {o}: processor got event {c['seq']} that was not delivered for it")
            if c["seq"] <= last:
                fail("order" if c["seq"] < last else "duplicate",
                     f"object {o}: event {c['seq']} processed after event {last}")
            last = max(last, c["seq"])

    # O2 — one at a time: processor calls of one object never overlap (log positions order one instant)
    for o, cs in by_obj_calls.items():
        for a, b in zip(cs, cs[1:]):
            if a["p1"] is None or a["p1"] > b["p0"]:
                fail("serial", f"object {o}: event {b['seq']} entered the processor at t={b['t0']} while event "
                               f"{a['seq']} (t={a['t0']}..{a['t1']}) was still in it")

    # O5 — the worker limit
    if limit is not None:
        if log["max_running"] > limit:
            fail("limit", f"{log['max_running']} worker tasks ran at once, worker_limit={limit}")
        if log["max_busy"] > limit:
            fail("limit", f"{log['max_busy']} processors ran at once, worker_limit={limit}")

    # O7 — pending workers are started in the order they were created (no object is overtaken while
    #      it waits for a slot: the waiting stays "within the worker limit")
    last_p = -1
    for i in log["insts"]:          # creation order
        if i["p_spawn"] is None:
            continue
        if i["p_spawn"] < last_p:
            fail("fifo", f"worker ({i['k']},{i['g']}) was started before a worker that had been enqueued earlier")
        last_p = max(last_p, i["p_spawn"])

    # O3 — nothing lost while the watch is alive
    raised = [c for c in calls if c["end"] == "raised"]
    finished_ok = {c["seq"] for c in calls if c["end"] in ("ok", "raised")}
    started = {c["seq"] for c in calls}
    se = log["stream_end"]
    et = st.get("exit_timeout", 2048)
    generous_exit = et is None or et >= drain_bound(scn)
    if se is not None and not raised and log["cancel_t"] is None:
        if scn.get("tail", 0) >= drain_bound(scn):
            done = set(se["finished"])
            for d in delivered:
                if d["seq"] not in done:
                    fail("lost", f"object {d['obj']}: event {d['seq']} delivered at t={d['t']} was never processed "
                                 f"although the watch stayed alive and idle until t={se['t']}")
            if se["snap"] is not None and (se["snap"][0] or se["snap"][1] or se["snap"][2]):
                fail("leak", f"streams/workers left after a long idle period: {se['snap']}")
        elif generous_exit:
            for d in delivered:
                if d["seq"] not in finished_ok:
                    fail("lost", f"object {d['obj']}: event {d['seq']} was not processed although the stream ended "
                                 f"gracefully with exit_timeout={st.get('exit_timeout')}")
    elif not raised and log["cancel_t"] is not None and generous_exit:
        # every event the stream handed over was handed over before the cancellation took effect
        for d in delivered:
            if d["seq"] not in finished_ok:
                fail("lost", f"object {d['obj']}: event {d['seq']} delivered at t={d['t']} (cancellation at "
                             f"t={log['cancel_t']}) was dropped although exit_timeout={st.get('exit_timeout')} allows draining")
    elif raised and generous_exit and log["cancel_t"] is None:
        failing = {c["obj"] for c in raised}
        t_fail = min(c["t1"] for c in raised)
        for d in delivered:
            if d["obj"] not in failing and d["t"] < t_fail and d["seq"] not in started:
                fail("lost", f"object {d['obj']}: event {d['seq']} delivered at t={d['t']} before another object's worker "
                             f"failed at t={t_fail} was never processed")

    # O4 — promptness/independence: an event starts as soon as it arrived and its predecessor of the
    #      same object ended, unless `limit` other workers occupy all slots the whole time in between
    closing_t = log["closing_t"]
    insts = log["insts"]
    change_points = sorted({i["t_spawn"] for i in insts if i["t_spawn"] is not None}
                           | {i["t_left"] for i in insts if i["t_left"] is not None})

    # A worker task occupies a slot of the limit legitimately while it processes an event, and while it idles for
    # at most idle_timeout after its last activity (or up to the consistency deadline, which is at most
    # consistency_timeout after it). One that lingers longer does not excuse anybody's waiting.
    allow = max(st["idle_timeout"], st.get("consistency_timeout") or 0, 0)
    calls_by_inst: dict[tuple, list[dict]] = {}
    for c in calls:
        calls_by_inst.setdefault((c["k"], c["g"]), []).append(c)

    def holds_slot(i: dict, t: int) -> bool:
        if i["t_spawn"] is None or i["t_spawn"] > t or (i["t_left"] is not None and i["t_left"] <= t):
            return False
        last = i["t_spawn"]
        for c in calls_by_inst.get((i["k"], i["g"]), []):
            if c["t0"] <= t and (c["t1"] is None or c["t1"] > t):
                return True
            if c["t1"] is not None and c["t1"] <= t:
                last = max(last, c["t1"])
        return t < last + allow

    def others_at_end_of(t: int, k: Any) -> int:
        return sum(1 for i in insts if i["k"] != k and holds_slot(i, t))

    # O3b — the strict loss clause, independent of tail / exit_timeout: an event that was NEVER handed to
    #       the processor must have an excuse. Its turn (arrival, predecessor of the same object ended)
    #       must not have come before `scheduler.close()` started killing, or all `limit` slots were
    #       taken by other objects from then on. A failed / killed predecessor ends the object's claim.
    t_close = next((t for lab, _sn, t in log["labels"] if lab[0] == "close"), log["end_t"])
    for o, ds in by_obj_deliv.items():
        cmap = {c["seq"]: c for c in by_obj_calls.get(o, [])}
        prev_end = None
        for d in ds:
            c = cmap.get(d["seq"])
            if c is not None:
                if c["end"] != "ok" or c["t1"] is None:
                    break
                prev_end = c["t1"]
                continue
            expected = d["t"] if prev_end is None else max(d["t"], prev_end)
            if expected < t_close:
                if limit is None:
                    fail("lost", f"object {o}: event {d['seq']} delivered at t={d['t']} was never handed to the processor "
                                 f"although its turn came at t={expected}, before the scheduler was closed at t={t_close}")
                else:
                    pts = [expected] + [t for t in change_points if expected < t < t_close]
                    free = [t for t in pts if others_at_end_of(t, d["k"]) < limit]
                    if free:
                        fail("lost", f"object {o}: event {d['seq']} delivered at t={d['t']} was never handed to the processor "
                                     f"although its turn came at t={expected} and a worker slot was free at t={free[0]} "
                                     f"(limit={limit}, scheduler closed at t={t_close})")
            break

    # O3c — a failed processor drops what is queued behind it for the same object (the dying worker takes its
    #       backlog along). That is only "not while the watch is alive" if the failure ENDS the watch: nothing
    #       more may be taken from the stream once the failed task has been noticed.
    inst_by = {(i["k"], i["g"]): i for i in insts}
    for c in raised:
        i = inst_by.get((c["k"], c["g"]))
        p_left = i["p_left"] if i is not None else None
        if p_left is None:
            continue
        dropped = [d for d in by_obj_deliv.get(c["obj"], []) if d["p"] < p_left and d["seq"] > c["seq"] and d["seq"] not in started]
        later = [d for d in delivered if d["p"] > p_left]
        went_on = bool(later) or (se is not None and se["p"] > p_left)
        if dropped and went_on:
            fail("lost", f"object {c['obj']}: events {[d['seq'] for d in dropped]} queued behind event {c['seq']} (whose processing "
                         f"failed at t={c['t1']}) were dropped, and the watch went on"
                         + (f" (event {later[0]['seq']} was taken from the stream at t={later[0]['t_pull']})" if later else
                            " (the stream was read to its end)"))

    # O3d — nobody but `scheduler.close()` (the very end of the watcher) may abort a processor
    close_p = log.get("close_p")
    for c in calls:
        if c["end"] == "cancelled" and (close_p is None or c["p1"] < close_p):
            fail("lost", f"object {c['obj']}: the processing of event {c['seq']} was cancelled at t={c['t1']} although this "
                         f"watcher had not called scheduler.close() yet (the watch was alive; whatever was queued behind is gone)")

    for o, cs in by_obj_calls.items():
        prev_end = None
        dmap = {d["seq"]: d for d in by_obj_deliv.get(o, [])}
        for c in cs:
            d = dmap.get(c["seq"])
            if d is None:
                continue
            expected = d["t"] if prev_end is None else max(d["t"], prev_end)
            prev_end = c["t1"]
            if closing_t is not None and c["t0"] >= closing_t:
                continue
            if c["t0"] < expected:
                fail("early", f"object {o}: event {c['seq']} started at t={c['t0']} before it could (t={expected})")
            elif c["t0"] > expected:
                if limit is None:
                    fail("late", f"object {o}: event {c['seq']} started at t={c['t0']} instead of t={expected} with no worker limit")
                else:
                    pts = [expected] + [t for t in change_points if expected < t < c["t0"]]
                    for t in pts:
                        n = others_at_end_of(t, d["k"])
                        if n < limit:
                            fail("late", f"object {o}: event {c['seq']} started at t={c['t0']} instead of t={expected} "
                                         f"although only {n} < limit={limit} other workers existed at t={t}")
                            break
    return bad


# =================================================================================================
# Generator
# =================================================================================================
KINDS = ["deadline", "deadline", "deadline", "burst", "limit", "limit", "shutdown", "shutdown", "raise", "mixed", "flood",
         "crowd"]
FLOODS_Q = (40, 40, 70, 150)
FLOODS_T = (40, 70, 150, 400)


def gen_peer(rng: random.Random, idle: int) -> dict:
    """A second watcher (another resource) in the same loop: short stream, and it often ENDS (stream over or
    cancelled: depletion + scheduler.close()) while the first watcher's workers are busy."""
    n_obj = rng.choice([1, 1, 2])
    stream = []
    for _ in range(rng.randint(1, 5)):
        stream.append({"obj": rng.randrange(n_obj), "wait": ["delay", rng.choice([0, 0, 1, 2, idle, 7])],
                       "hops": rng.choice([0, 0, 1]), "dur": rng.choice([0, 1, 2, 64, 300, max(1, idle)]),
                       "type": rng.choice(["ADDED", "MODIFIED", None])})
    peer: dict[str, Any] = {"objects": [{"uid": f"peer-uid-{i}"} for i in range(n_obj)], "stream": stream,
                            "start": rng.choice([0, 0, 0, 1, 50]), "tail": rng.choice([0, 0, 5, 64, 400])}
    if rng.random() < 0.4:
        peer["cancel"] = {"mode": "abs", "at": rng.choice([1, 2, 5, 20, 64, 150, 400])}
    return peer


def gen_crowd(rng: random.Random, n_obj: int, idle: int) -> list[dict]:
    """Many objects (tens), a few events each, mostly at once: a long queue of pending workers under a limit."""
    stream: list[dict] = []
    order = list(range(n_obj))
    rng.shuffle(order)
    for o in order:
        stream.append({"obj": o, "wait": ["delay", rng.choice([0, 0, 0, 1])], "hops": rng.choice([0, 0, 1]),
                       "dur": rng.choice([0, 1, 3, max(1, idle)]), "type": "ADDED"})
    for _ in range(rng.randint(0, n_obj // 2)):
        o = rng.randrange(n_obj)
        stream.append({"obj": o, "wait": ["delay", rng.choice([0, 0, 1, 2, idle])] if rng.random() < 0.8 else ["deadline", o, rng.choice([-1, 0, 1])],
                       "hops": 0, "dur": rng.choice([0, 1, 2]), "type": "MODIFIED"})
    return stream


def gen_flood(rng: random.Random, scn_objects: int, idle: int, sizes: tuple) -> list[dict]:
    """One object is changed much faster than it is handled (tens to hundreds of events queue up behind a slow
    processor) while other objects get events of their own: those must neither wait for the flood nor be lost,
    and every event of the flooded object is still processed, in order."""
    n = rng.choice(sizes)
    flooded = rng.randrange(scn_objects)
    stream: list[dict] = [{"obj": flooded, "wait": ["delay", rng.choice([0, 1])], "hops": 0,
                           "dur": rng.choice([100, 300, 1000]), "type": "ADDED"}]
    others = [o for o in range(scn_objects) if o != flooded]
    for j in range(n):
        if others and rng.random() < 0.04:
            stream.append({"obj": rng.choice(others), "wait": ["delay", rng.choice([0, 1, 2])], "hops": rng.choice([0, 1]),
                           "dur": rng.choice([0, 1, 5]), "type": "MODIFIED"})
        stream.append({"obj": flooded, "wait": ["delay", 0 if rng.random() < 0.9 else 1], "hops": 0,
                       "dur": rng.choice([0, 0, 0, 1]), "type": "MODIFIED"})
    for _ in range(rng.randint(1, 4)):
        o = rng.choice(others) if others else flooded
        stream.append({"obj": o, "wait": ["delay", rng.choice([0, 1, 3, idle])] if rng.random() < 0.7 else ["deadline", o, rng.choice([-1, 0, 1])],
                       "hops": rng.choice([0, 1]), "dur": rng.choice([0, 1, 7]), "type": "MODIFIED"})
    return stream


def gen_scenario(rng: random.Random, force_limit: Any = "any", floods: tuple = FLOODS_Q) -> dict:
    kind = rng.choice(KINDS)
    idle = rng.choice([0, 0, -1, 1, 1, 2, 3, 8, 32, 64, 64, 256, 1024])
    n_obj = rng.choice([1, 1, 2, 2, 3, 4, 6]) if kind not in ("limit", "flood") else rng.choice([2, 3, 4, 5, 6])
    if kind == "crowd":
        n_obj = rng.choice([12, 20, 40])
    objects: list[dict] = []
    for i in range(n_obj):
        if rng.random() < 0.25:
            nouid: dict[str, Any] = {"kind": rng.choice(["ComponentStatus", None]), "apiVersion": "v1", "name": f"n{i}"}
            if rng.random() < 0.5:
                nouid["namespace"] = rng.choice(["ns", None])
            if rng.random() < 0.5:
                nouid["creationTimestamp"] = rng.choice(["2020-01-01T00:00:00Z", None])
            objects.append({"nouid": nouid})
        else:
            o: dict[str, Any] = {"uid": f"uid-{i}-é" if rng.random() < 0.1 else f"uid-{i}"}
            named = [x for x in objects if "uid" in x]
            if named and rng.random() < 0.2:
                # a re-created object: the name (and namespace) of an earlier one, a uid of its own
                twin = rng.choice(named)
                twin.setdefault("name", "shared-" + twin["uid"])
                twin.setdefault("namespace", rng.choice(["ns", None]))
                o["name"], o["namespace"] = twin["name"], twin["namespace"]
            objects.append(o)
    if force_limit != "any":
        limit = force_limit
    elif kind == "crowd":
        limit = rng.choice([None, 1, 2, 3, 8])
    elif kind == "limit":
        limit = rng.choice([1, 1, 2])
    else:
        limit = rng.choice([None, None, None, 1, 2, 3])
    cons = rng.choice([3, 64, idle + 1]) if rng.random() < 0.15 else None
    p_deadline = {"deadline": 0.6, "burst": 0.1, "limit": 0.35, "shutdown": 0.25, "raise": 0.2, "mixed": 0.35, "flood": 0.0, "crowd": 0.0}[kind]
    n_ev = rng.randint(2, 12)
    durs = [0, 0, 1, 2, max(1, idle - 1), idle, idle + 1, 64, 300, 2 * idle]
    delays = [0, 0, 0, 1, 2, max(0, idle - 1), idle, idle + 1, 2 * idle, 7, 100]
    stream: list[dict] = []
    used: list[int] = []
    for n in range(n_ev):
        if rng.random() < 0.06:
            stream.append({"bookmark": rng.choice(["LISTED", "BOOKMARK"]), "wait": ["delay", rng.choice([0, 1, 5])]})
        obj = rng.randrange(n_obj) if (not used or rng.random() < 0.5) else rng.choice(used)
        item: dict[str, Any] = {"obj": obj}
        if used and rng.random() < p_deadline:
            target = obj if (obj in used and rng.random() < 0.75) else rng.choice(used)
            item["wait"] = ["deadline", target, rng.choice([-1, 0, 0, 0, 1, 1, -2, 2])]
        else:
            item["wait"] = ["delay", rng.choice(delays) if kind != "burst" else rng.choice([0, 0, 0, 1, idle])]
        item["hops"] = rng.choice([0, 0, 0, 0, 1, 2, 3])
        item["dur"] = rng.choice(durs)
        if rng.random() < 0.15:
            item["dhops"] = rng.choice([1, 2, 3])
        if kind == "raise" and rng.random() < 0.25:
            item["raise"] = True
            if rng.random() < 0.5:      # with something queued behind it
                item["dur"] = max(1, item["dur"])
                stream.append(item)
                used.append(obj)
                item = {"obj": obj, "wait": ["delay", 0], "hops": 0, "dur": rng.choice([0, 1, 5]), "type": "MODIFIED"}
        if cons is not None and rng.random() < 0.4:
            item["ver"] = str(rng.choice([n + 2, n + 3, 999]))
        item["type"] = rng.choice(["ADDED", "MODIFIED", "MODIFIED", "DELETED", None])
        stream.append(item)
        used.append(obj)
    if kind == "flood":
        stream = gen_flood(rng, n_obj, idle, floods)
    if kind == "crowd":
        stream = gen_crowd(rng, n_obj, idle)
    scn: dict[str, Any] = {
        "kind": kind,
        "settings": {"idle_timeout": idle, "worker_limit": limit,
                     "exit_timeout": rng.choice([0, 1, 64, 2048, 100000, 100000, None]),
                     "consistency_timeout": cons,
                     "batch_window": rng.choice([None, None, 0, 100, 5000])},
        "indexed": rng.random() < 0.15,
        "objects": objects, "stream": stream, "tie_seed": rng.randrange(1 << 30),
    }
    bound = drain_bound(scn)
    if kind == "shutdown" or rng.random() < 0.15:
        if rng.random() < 0.6:
            ev_idx = [i for i, it in enumerate(stream) if "obj" in it]
            i = rng.choice(ev_idx)
            d = stream[i].get("dur", 0)
            scn["cancel"] = {"mode": "after_event", "index": i,
                             "delta": rng.choice([0, 0, 1, max(0, d - 1), d, d + 1, d + idle, d + idle + 1, idle])}
            if rng.random() < 0.5:
                # at the n-th suspension of the watcher after it was given the event (same instant)
                scn["cancel"] = {"mode": "after_event", "index": i, "soon": rng.choice([0, 0, 0, 1, 2, 3])}
        else:
            scn["cancel"] = {"mode": "abs", "at": rng.randint(0, max(1, bound // 3))}
        scn["tail"] = rng.choice([0, 5, bound])
        if rng.random() < 0.3:
            scn["cancel2"] = rng.choice([0, 1, 2, idle, 64])
    else:
        scn["tail"] = bound if rng.random() < 0.8 else rng.choice([0, 1, idle, idle + 1])
    if rng.random() < 0.12:
        scn["peer"] = gen_peer(rng, idle)
    if rng.random() < 0.15:
        # opaque, non-monotone resourceVersions (a re-list, another API server, a restored etcd)
        for it in scn["stream"]:
            if "obj" in it:
                it["rv"] = rng.choice([rng.randrange(1, 60), rng.randrange(1, 60), "9" * rng.randint(1, 4), "abc", ""])
    return scn


# =================================================================================================
# Running scenarios, abstraction, trace requests
# =================================================================================================
NONTRIVIAL = {"ttake", "kill", "fail", "eos"}


def abstract(log: dict) -> tuple[str, bool, dict[str, bool]]:
    labs = log["labels"]
    names = []
    flags = {"ttake": False, "retire+reinsert same instant": False, "arrive while busy": False,
             "pending blocked by limit": False, "kill": False, "fail": False, "eos drained": False,
             "late arrival (no stream)": False}
    busy: set = set()
    last_retire: dict[int, int] = {}
    for lab, sn, t in labs:
        nm = lab[0]
        names.append(nm + (str(lab[1]) if len(lab) > 1 else ""))
        if nm in ("ttake", "kill", "fail"):
            flags[nm] = True
        if nm in ("take", "ttake"):
            busy.add(lab[1])
        if nm in ("finish", "fail", "kill"):
            busy.discard(lab[1])
        if nm == "arrive" and lab[1] in busy:
            flags["arrive while busy"] = True
        if nm == "retire":
            last_retire[lab[1]] = t
        if nm == "miss" and last_retire.get(lab[1]) == t:
            flags["retire+reinsert same instant"] = True
        if nm == "miss" and lab[1] in last_retire:
            flags["late arrival (no stream)"] = True
        if nm == "eos":
            flags["eos drained"] = True
        if sn is not None and sn[0] > 0 and nm not in ("insert", "miss", "arrive"):
            flags["pending blocked by limit"] = True
    return " ".join(names), any(flags.values()), flags


def trace_request(scn: dict, log: dict) -> list:
    return ["C01.trace", {"limit": scn["settings"].get("worker_limit")}, [[lab, sn] for lab, sn, _ in log["labels"]]]


def run_one(scn: dict, policy: str) -> dict:
    from .sim_c01 import simulate
    return simulate(scn, policy)


def watcher_logs(scn: dict, log: dict) -> list[tuple[str, dict, dict]]:
    """(name, sub-scenario, log) of every watcher of the run"""
    out = [("main", scn, log)]
    if log.get("peer") is not None:
        out.append(("peer", dict(scn["peer"], settings=scn["settings"]), log["peer"]))
    return out


def oracle_all(scn: dict, log: dict) -> list[tuple[str, dict]]:
    bad: list[tuple[str, dict]] = []
    for name, sub, lg in watcher_logs(scn, log):
        for what, sig in oracle(sub, lg):
            bad.append((what if name == "main" else f"[second watcher] {what}", sig))
    return bad


def evaluate(scn: dict, policy: str) -> dict:
    """simulate + oracle + what the tie needs; a plain dict (crosses process boundaries)."""
    log = run_one(scn, policy)
    bad = oracle_all(scn, log)
    key, nontrivial, flags = abstract(log)
    parts = []
    for name, sub, lg in watcher_logs(scn, log):
        structural = list(lg["anomalies"])
        if any(l[0][0] == "weird" for l in lg["labels"]):
            structural.append("a worker left its loop in a way the model has no label for")
        observed_processed: dict[int, list[int]] = {}
        for c in lg["calls"]:
            if c["end"] in ("ok", "raised") and c["k"] is not None:
                observed_processed.setdefault(c["k"], []).append(c["seq"])
        parts.append({"watcher": name, "structural": structural, "outcome": lg["outcome"],
                      "request": None if structural else trace_request(sub, lg), "processed": observed_processed})
        if name != "main":
            pkey, pnt, pflags = abstract(lg)
            key = key + " || " + pkey
            nontrivial = nontrivial or pnt
            flags = {f: flags[f] or pflags[f] for f in flags}
            flags["second watcher in the same loop"] = True
    flags.setdefault("second watcher in the same loop", False)
    max_backlog = max([n for _n, _s, lg in watcher_logs(scn, log) for _l, sn, _t in lg["labels"] if sn is not None for _k, n in sn[2]] or [0])
    n_deliv = len(log["delivered"]) + (len(log["peer"]["delivered"]) if log.get("peer") else 0)
    flags["flood (>= 30 events queued for one object)"] = any(
        sn is not None and any(n >= 30 for _k, n in sn[2]) for _n, _s, lg in watcher_logs(scn, log) for _l, sn, _t in lg["labels"])
    return {"scn": scn, "policy": policy, "oracle": bad, "key": key, "nontrivial": nontrivial, "flags": flags,
            "parts": parts, "max_backlog": max_backlog, "outcome": log["outcome"], "n_labels": len(log["labels"]),
            "tie_groups": log["tie_groups"], "n_calls": len(log["calls"]), "n_delivered": n_deliv}


_PRIVATE_DRIVER = """-- GENERATED by harness/props/c01.py: the C01 handler alone (used only when the shared Driver.lean cannot run
-- because another property's driver module is being rebuilt / does not compile at this moment).
import Kopf.Drv.C01
open Lean Kopf.Drv
def respondC01 (line : String) : Json :=
  match Json.parse line with
  | .ok (.arr xs) =>
    match xs.toList with
    | .str op :: args => (C01.handle op args).getD (.arr #[.str "bad-op"])
    | _ => .arr #[.str "bad-op"]
  | _ => .arr #[.str "bad-op"]
partial def loopC01 (h : IO.FS.Stream) (out : IO.FS.Stream) : IO Unit := do
  let line ← h.getLine
  if line.isEmpty then return ()
  let l := line.trimAscii.toString
  if l.isEmpty then loopC01 h out else
  out.putStrLn (respondC01 l).compress
  loopC01 h out
def main : IO Unit := do
  let out ← IO.getStdout
  loopC01 (← IO.getStdin) out
  out.flush
"""


def _ask_private(reqs: list) -> list:
    leanio.write_generated("Kopf/Audit/C01Driver.lean", _PRIVATE_DRIVER)
    payload = "".join(json.dumps(r, ensure_ascii=False, separators=(",", ":")) + "\n" for r in reqs)
    p = leanio._run(["lake", "env", "lean", "--run", "Kopf/Audit/C01Driver.lean"], input=payload)
    if p.returncode != 0:
        raise leanio.LeanError("private C01 driver failed", p.stdout[-3000:] + p.stderr[-3000:])
    outs = [json.loads(l) for l in p.stdout.splitlines() if l.startswith("[")]
    if len(outs) != len(reqs):
        raise leanio.LeanError(f"private C01 driver answered {len(outs)} of {len(reqs)} requests", p.stderr[-2000:])
    return outs


def _ask(driver: leanio.Driver, reqs: list) -> list:
    """`Driver.ask`; when the shared driver cannot run (the .olean of ANOTHER property's driver module is
    being rebuilt by a concurrent check — the driver runs outside the build lock), retry after waiting
    for the lock, and finally run the C01 handler through a generated driver that imports Kopf.Drv.C01 only."""
    import time
    for attempt in range(3):
        try:
            if attempt:
                with leanio.lake_lock():
                    pass
            return driver.ask(reqs)
        except leanio.LeanError:
            time.sleep(1.0 * (attempt + 1))
    return _ask_private(reqs)


def check_traces(results: list[dict], driver: leanio.Driver) -> list[dict]:
    """Ask the Lean driver; returns tie failures as dicts {what, replay}. Every watcher of a run is its own
    instance of the LTS (own `streams`, own Scheduler): its trace is replayed separately."""
    fails: list[dict] = []
    parts = [(r, pt) for r in results for pt in r["parts"]]
    for r, pt in parts:
        for s in pt["structural"]:
            fails.append({"what": f"trace outside the model's alphabet: {s}",
                          "replay": {"scenario": r["scn"], "policy": r["policy"], "watcher": pt["watcher"], "reason": s}})
    asked = [(r, pt) for r, pt in parts if pt["request"] is not None]
    if not asked:
        return fails
    outs = _ask(driver, [pt["request"] for _r, pt in asked])
    for (r, pt), out in zip(asked, outs):
        base = {"scenario": r["scn"], "policy": r["policy"], "watcher": pt["watcher"]}
        if not (isinstance(out, list) and len(out) == 2 and out[0] == "ok"):
            fails.append({"what": f"driver answered {out!r}", "replay": base})
            continue
        ans = out[1]
        if not ans.get("accepted"):
            fails.append({"what": f"the model rejects the real trace at label #{ans.get('index')} {ans.get('label')}: "
                                  f"{ans.get('reason')}",
                          "replay": dict(base, index=ans.get("index"), label=ans.get("label"), reason=ans.get("reason"),
                                         model_state=ans.get("model"),
                                         labels_before=pt["request"][2][max(0, (ans.get("index") or 0) - 6):(ans.get("index") or 0) + 1])})
            continue
        if pt["outcome"] in ("ended", "cancelled", "escalated") and ans["final"].get("measure") != 0:
            fails.append({"what": f"the watcher has finished but the model's termination measure is {ans['final'].get('measure')} != 0",
                          "replay": dict(base, final=ans["final"])})
            continue
        if ans["final"].get("dropped"):
            fails.append({"what": f"the model had to drop an event from the watcher's hand (keys {ans['final']['dropped']}): the real "
                                  f"watcher was cancelled between taking an event and enqueueing it",
                          "replay": dict(base, final=ans["final"])})
            continue
        model_proc = {k: v for k, v in ans["final"]["processed"] if v}
        if model_proc != {k: v for k, v in pt["processed"].items() if v}:
            fails.append({"what": "model's processed histories differ from the processor call log",
                          "replay": dict(base, model=model_proc, impl=pt["processed"])})
    return fails


def _shard(args: tuple) -> dict:
    """One shard of generated scenarios (own process in the thorough tier)."""
    seed, shard, n, policies, oracle_only = args
    rng = random.Random(f"C01-{seed}-{shard}")
    results = []
    try:
        for j in range(n):
            force = "any"
            if j % 10 == 7:
                force = [1, 2, None][(j // 10) % 3]
            scn = gen_scenario(rng, force, FLOODS_T if len(policies) > 2 else FLOODS_Q)
            for pol in policies:
                results.append(evaluate(scn, pol))
        ties = [] if oracle_only else check_traces(results, leanio.Driver(["C01"]))
    except Exception:  # noqa: BLE001
        return {"crash": traceback.format_exc(), "results": [], "ties": []}
    for r in results:
        for pt in r["parts"]:
            pt["request"] = None      # do not ship the traces back
    return {"crash": None, "results": results, "ties": ties}


def absorb(ctx: Ctx, res: dict, source: str) -> None:
    scn = res["scn"]
    st = scn["settings"]
    ctx.case(key=res["key"], nontrivial=res["nontrivial"],
             sample={"scenario": scn, "policy": res["policy"], "labels": res["n_labels"], "outcome": res["outcome"]}
             if res["nontrivial"] else None)
    ctx.count("source", source)
    ctx.count("kind", scn.get("kind", "corpus"))
    ctx.count("policy", res["policy"])
    ctx.count("worker_limit", st.get("worker_limit"))
    ctx.count("idle_timeout_ticks", st["idle_timeout"])
    ctx.count("objects", len(scn["objects"]))
    ctx.count("events", res["n_delivered"])
    ctx.count("outcome", res["outcome"])
    ctx.count("same-instant timer groups", min(res["tie_groups"], 5))
    ctx.count("watchers in the loop", len(res["parts"]))
    ctx.count("largest backlog", min(200, 10 * (res.get("max_backlog", 0) // 10)))
    if any(it.get("rv") is not None for it in scn["stream"]):
        ctx.count("schedule features", "opaque non-monotone resourceVersions")
    c = scn.get("cancel") or {}
    if c.get("soon") is not None:
        ctx.count("schedule features", "cancelled at the n-th suspension after an event")
    if len({(o.get("name"), o.get("namespace")) for o in scn["objects"] if "name" in o}) < len([o for o in scn["objects"] if "name" in o]):
        ctx.count("schedule features", "re-created object (same name, new uid)")
    for f, v in res["flags"].items():
        if v:
            ctx.count("schedule features", f)
    if any(i.get("wait", [""])[0] == "deadline" for i in scn["stream"]):
        ctx.count("schedule features", "arrival placed on idle deadline ±ticks")
    for what, sig in res["oracle"]:
        ctx.oracle_fail(what, {"scenario": scn, "policy": res["policy"]}, sig)


def load_corpus() -> list[tuple[str, dict]]:
    d = CORPUS / ID
    if not d.is_dir():
        return []
    return [(p.name, json.loads(p.read_text())) for p in sorted(d.glob("*.json"))]


def check_get_uid(ctx: Ctx) -> None:
    """The event -> key map (`keyOf` in the Lean model) against the real `get_uid`: exhaustive grid, both as an
    oracle (from the property: with a uid the key is the uid; without, two events share a key iff kind/apiVersion/
    name/namespace/creationTimestamp agree, absent = None = '') and as a differential tie (Lean `C01.key`)."""
    import itertools
    from kopf._core.reactor import queueing
    vals = {"kind": [None, "A", "B"], "apiVersion": [None, "v1"], "name": ["x", "y"], "namespace": [None, "ns", "x", ""],
            "creationTimestamp": [None, "t1", "t2"]}
    tuples = list(itertools.product(*vals.values()))
    keys: dict = {}
    reqs, impl, inputs = [], [], []
    for absent_style in (0, 1):       # field missing vs. field present with None
        for t in tuples:
            d = dict(zip(vals, t))
            body: dict = {"metadata": {}}
            for f in ("kind", "apiVersion"):
                if d[f] is not None or absent_style:
                    body[f] = d[f]
            for f in ("name", "namespace", "creationTimestamp"):
                if d[f] is not None or absent_style:
                    body["metadata"][f] = d[f]
            k = queueing.get_uid({"type": "MODIFIED", "object": body})
            norm = tuple(v or None for v in t)          # '' and None are the same absent value
            ctx.case(key=f"get_uid:{t}:{absent_style}", nontrivial=False)
            if keys.setdefault(k, norm) != norm:
                ctx.oracle_fail(f"get_uid maps two different uid-less objects {keys[k]} and {norm} to one key {k!r}",
                                {"get_uid": [list(keys[k]), list(norm)]}, {"site": "queueing.get_uid", "check": "key"})
            reqs.append(["C01.key", {"bookmark": False, "uid": None, "kind": d["kind"], "apiVersion": d["apiVersion"],
                                     "name": d["name"], "namespace": d["namespace"],
                                     "creationTimestamp": d["creationTimestamp"]}])
            impl.append(k)
            inputs.append(body)
    norms = {tuple(v or None for v in t) for t in tuples}
    for n in norms:
        if sum(1 for v in keys.values() if v == n) != 1:
            ctx.oracle_fail(f"get_uid gives one uid-less object {n} several keys", {"get_uid": list(n)},
                            {"site": "queueing.get_uid", "check": "key"})
    for uid in ("u", "A//v1//x//-//-", "é", "0"):
        body = {"kind": "A", "apiVersion": "v1", "metadata": {"uid": uid, "name": "x"}}
        k = queueing.get_uid({"object": body})
        if k != uid:
            ctx.oracle_fail("get_uid ignores metadata.uid", {"uid": uid}, {"site": "queueing.get_uid", "check": "key"})
        reqs.append(["C01.key", {"bookmark": False, "uid": uid, "kind": "A", "apiVersion": "v1", "name": "x",
                                 "namespace": None, "creationTimestamp": None}])
        impl.append(k)
        inputs.append(body)
    ctx.count("source", "get_uid grid", len(reqs))
    try:
        outs = _ask(ctx.driver, reqs)
    except leanio.LeanError as e:
        ctx.tie_fail(f"Lean driver failed on C01.key: {e}", {"log": e.log})
        return
    for inp, k, out in zip(inputs, impl, outs):
        model = out[1] if isinstance(out, list) and len(out) == 2 and out[0] == "ok" else out
        ctx.compare("get_uid vs keyOf", k, model, inp)


# =================================================================================================
# The scheduler on its own: the REAL `aiotasks.Scheduler` (built by its own __init__, nothing replaced) driven with
# spawn() calls and ending jobs; tie: Lean `C01_Sched` (op `C01.sched`); oracle: from the property text.
# =================================================================================================
SETTLE = 16      # loop iterations after each operation (the longest chain: done-callback -> cleaner -> spawner -> task start)


def run_sched(limit: Any, plan: dict) -> dict:
    """`plan` = {"ops": [...]} replays recorded operations; {"seed": n, "n": m, "p_call": p} generates them ADAPTIVELY
    (a job can only be ended while it really runs: read off the real run, which is deterministic)."""
    import asyncio
    import warnings
    from kopf._cogs.aiokits import aiotasks
    out: dict[str, Any] = {"limit": limit, "cap": None, "ops": [], "snaps": [], "started": [], "calls": 0, "left": None, "error": None}
    rng = random.Random(plan.get("seed", 0))

    async def main() -> None:
        loop = asyncio.get_running_loop()
        sched = aiotasks.Scheduler(limit=limit)
        q = getattr(sched, "_pending_coros", None)
        cond = getattr(sched, "_condition", None)
        maxsize = getattr(q, "maxsize", 0)
        out["cap"] = maxsize if isinstance(maxsize, int) and maxsize > 0 else None
        futs: dict[int, asyncio.Future] = {}
        running: list[int] = []
        finished: list[int] = []
        returned = [0]
        callers = []

        async def job(j: int) -> None:
            out["started"].append(j)
            running.append(j)
            try:
                await futs[j]
            finally:
                running.remove(j)
                finished.append(j)

        async def call(j: int) -> None:
            await sched.spawn(job(j), name=f"job-{j}")
            returned[0] += 1

        async def settle() -> None:
            for _ in range(SETTLE):
                await asyncio.sleep(0)

        def snap() -> list:
            try:
                return [q.qsize(), len(sched._running_tasks), bool(cond.locked()), returned[0]]
            except Exception as e:  # noqa: BLE001
                return ["unobservable", repr(e)]

        ops = plan.get("ops")
        n = len(ops) if ops is not None else plan["n"]
        for i in range(n):
            if ops is not None:
                op = list(ops[i])
            elif not running or rng.random() < plan.get("p_call", 0.6):
                op = ["call", out["calls"]]
            else:
                op = ["done", rng.choice(sorted(running))]
            if op[0] == "call":
                futs[op[1]] = loop.create_future()
                out["calls"] += 1
                callers.append(asyncio.ensure_future(call(op[1])))
            elif op[1] in running and not futs[op[1]].done():
                futs[op[1]].set_result(None)
            else:
                out["error"] = f"operation #{i} {op}: that job is not running at this point"
                break
            await settle()
            out["ops"].append(op)
            out["snaps"].append(snap())
        # the end: every job that runs is let go, until nothing changes any more
        for _ in range(out["calls"] + 2):
            for j in list(running):
                if not futs[j].done():
                    futs[j].set_result(None)
            await settle()
        out["left"] = {"never_started": [j for j in futs if j not in out["started"]], "final": snap(),
                       "spawn_calls_not_returned": out["calls"] - returned[0]}
        for c in callers:
            c.cancel()
        for f in futs.values():
            if not f.done():
                f.set_result(None)
        await settle()
        try:
            await asyncio.wait_for(sched.close(), 0.5)
        except BaseException:  # noqa: BLE001
            pass

    with warnings.catch_warnings():
        warnings.simplefilter("ignore", RuntimeWarning)
        loop = asyncio.new_event_loop()
        try:
            loop.run_until_complete(asyncio.wait_for(main(), 20))
        except BaseException as e:  # noqa: BLE001
            out["error"] = out["error"] or f"{type(e).__name__}: {e}"
        finally:
            try:
                for t in asyncio.all_tasks(loop):
                    t._log_destroy_pending = False  # type: ignore[attr-defined]
                    t.cancel()
                loop.run_until_complete(asyncio.sleep(0))
                loop.close()
            except BaseException:  # noqa: BLE001
                pass
            import gc
            gc.collect()
    return out


def oracle_sched(res: dict) -> list[tuple[str, dict]]:
    """From the property text: objects wait for a free worker slot and for nothing else; none is dropped; the limit holds."""
    bad: list[tuple[str, dict]] = []

    def fail(check: str, what: str) -> None:
        bad.append((what, {"site": "aiotasks.Scheduler", "check": check}))

    limit = res["limit"]
    calls = 0
    for i, (op, sn) in enumerate(zip(res["ops"], res["snaps"])):
        calls += 1 if op[0] == "call" else 0
        if sn[0] == "unobservable":
            continue
        pend, run, _locked, returned = sn
        if limit is not None and run > limit:
            fail("limit", f"after operation #{i} {op}: {run} worker tasks at once, worker_limit={limit}")
        waiting = pend + (calls - returned)
        if waiting > 0 and (limit is None or run < limit):
            fail("stuck", f"after operation #{i} {op} (and {SETTLE} loop cycles): {waiting} workers wait to be started ({pend} pending, "
                          f"{calls - returned} still inside spawn()) although only {run} of worker_limit={limit} slots are taken")
            break
        if returned < calls and run >= 1:
            fail("late", f"after operation #{i} {op}: spawn() has not returned for {calls - returned} worker(s) while {run} worker(s) "
                         f"of other objects run: the multiplexer is held up, events of the running objects wait for the others")
            break
    if res["started"] != sorted(res["started"]):
        fail("fifo", f"workers were started in the order {res['started']}, not in the order they were handed to spawn()")
    left = res["left"]
    if left is not None and (left["never_started"] or left["spawn_calls_not_returned"]):
        fail("lost", f"with every running worker let go one after another, workers {left['never_started']} were never started "
                     f"({left['spawn_calls_not_returned']} spawn() calls never returned); final [pending, running, lock held, returned] = {left['final']}")
    if res["error"]:
        fail("crash", f"the scheduler run broke: {res['error']}")
    return bad


def check_scheduler(ctx: Ctx, plans: list[tuple[Any, dict]], source: str) -> None:
    runs = [run_sched(limit, plan) for limit, plan in plans]
    reqs = []
    for res in runs:
        rp = {"sched": {"limit": res["limit"], "ops": res["ops"]}}
        n_wait = max([sn[0] for sn in res["snaps"] if sn[0] != "unobservable"] or [0])
        saturated = res["limit"] is not None and n_wait > 0
        ctx.case(key="sched:" + json.dumps([res["limit"], res["ops"]]), nontrivial=saturated)
        ctx.count("source", source + " (scheduler alone)")
        ctx.count("scheduler alone: worker_limit", res["limit"])
        ctx.count("scheduler alone: most workers pending at once", min(n_wait, 20))
        if res["limit"] is not None and n_wait > res["limit"]:
            ctx.count("schedule features", "more workers pending than the limit (scheduler alone)")
        for what, sig in oracle_sched(res):
            ctx.oracle_fail(what, rp, sig)
        if res["cap"] is not None:
            ctx.tie_fail(f"hypothesis of sched_spawn_never_blocks / sched_free_slot_is_used does not hold for the real Scheduler: its "
                         f"pending queue is bounded (maxsize={res['cap']}, limit={res['limit']})", rp)
        reqs.append(["C01.sched", {"cap": res["cap"], "limit": res["limit"]}, [[op, sn] for op, sn in zip(res["ops"], res["snaps"])]])
    try:
        outs = _ask(ctx.driver, reqs)
    except leanio.LeanError as e:
        ctx.tie_fail(f"Lean driver failed on C01.sched: {e}", {"log": e.log})
        return
    for res, out in zip(runs, outs):
        ctx.tie_comparisons += 1
        okay = isinstance(out, list) and len(out) == 2 and out[0] == "ok" and out[1].get("accepted") is True
        if okay:
            ctx.traces += 1
        else:
            ctx.tie_fail(f"the scheduler model rejects the real Scheduler's behaviour: {out!r}",
                         {"sched": {"limit": res["limit"], "ops": res["ops"]}, "snaps": res["snaps"], "answer": out})


def sched_plans(rng: random.Random, n: int) -> list[tuple[Any, dict]]:
    plans: list[tuple[Any, dict]] = []
    for i in range(n):
        limit = rng.choice([None, 1, 1, 2, 2, 3, 5])
        plans.append((limit, {"seed": rng.randrange(1 << 30), "n": rng.choice([6, 12, 25, 40]),
                              "p_call": rng.choice([0.5, 0.6, 0.8, 0.95])}))
    return plans


def run_limit_zero(ctx: Ctx, name: str, data: dict) -> None:
    """Replays the Lean witness `limit_zero_starves` on the real watcher (an observation about kopf, see ASSUMPTIONS):
    with worker_limit=0 nothing is processed and the shutdown never completes. The trace up to the hang must be
    accepted by the model; any OTHER behaviour (e.g. kopf starts rejecting the setting) is reported as a note."""
    import gc
    import warnings
    with warnings.catch_warnings():
        warnings.simplefilter("ignore", RuntimeWarning)     # the never-spawned worker coroutine is never awaited
        log = run_one(data["scenario"], "fifo")
        gc.collect()
    ctx.count("source", "observation")
    ctx.case(key=f"limit0:{log['outcome']}", nontrivial=False)
    names = [l[0][0] for l in log["labels"]]
    if log["outcome"] == "deadlock" and not log["calls"]:
        req = trace_request(data["scenario"], log)
        out = _ask(ctx.driver, [req])[0]
        ok = isinstance(out, list) and out[0] == "ok" and out[1].get("accepted")
        ctx.compare("worker_limit=0 trace accepted by the model", True, bool(ok), {"corpus": name, "labels": names, "answer": out})
        if ok and out[1]["final"]["snapshot"][0] != 1:
            ctx.tie_fail("worker_limit=0: the model does not end with the worker still pending", {"answer": out})
        ctx.extra["observation_worker_limit_zero"] = "reproduced: nothing processed, watcher hangs in scheduler.close()"
    elif log["calls"]:
        ctx.oracle_fail("worker_limit=0 but a processor was called", {"scenario": data["scenario"], "policy": "fifo"},
                        {"site": "queueing", "check": "limit"})
    else:
        ctx.extra["observation_worker_limit_zero"] = f"no longer reproduces: outcome {log['outcome']} labels {names}"


def run(ctx: Ctx) -> None:
    check_get_uid(ctx)
    policies = POLICIES_T if ctx.tier == "thorough" else POLICIES_Q
    # ---- corpus first -----------------------------------------------------------------------------
    corpus_results = []
    for name, data in load_corpus():
        if data.get("expect") == "limit-zero-starves":
            run_limit_zero(ctx, name, data)
            continue
        for pol in data.get("policies", ["fifo", "lifo"]):
            res = evaluate(data["scenario"], pol)
            res["scn"] = dict(res["scn"], kind="corpus:" + name)
            corpus_results.append(res)
            absorb(ctx, res, "corpus")
    try:
        for t in check_traces(corpus_results, ctx.driver):
            ctx.tie_comparisons += 1
            ctx.tie_fail(t["what"], t["replay"])
        ctx.tie_comparisons += sum(len(r["parts"]) for r in corpus_results)
        ctx.traces += len([pt for r in corpus_results for pt in r["parts"] if pt["request"] is not None])
    except leanio.LeanError as e:
        ctx.tie_fail(f"Lean driver failed: {e}", {"log": e.log})
    # ---- the scheduler alone: bursts beyond the limit first, then generated sequences --------------------------
    bursts = [(lim, {"ops": [["call", j] for j in range(2 * lim + extra)] + [["done", 0]]})
              for lim in (1, 2, 3) for extra in (0, 1, 2)]
    check_scheduler(ctx, bursts, "corpus")
    check_scheduler(ctx, sched_plans(random.Random(f"C01-sched-{ctx.seed}"), ctx.budget(120, 1500)), "generated")
    # ---- generated ----------------------------------------------------------------------------------
    n = ctx.budget(200, 6700)          # base scenarios; × policies = runs (quick 400, thorough ≈ 20 000)
    if ctx.tier == "thorough":
        shards = 64
        per = (n + shards - 1) // shards
        jobs = [(ctx.seed, s, per, policies, False) for s in range(shards)]
        with multiprocessing.get_context("fork").Pool(min(16, os.cpu_count() or 1)) as pool:
            outs = pool.map(_shard, jobs, chunksize=1)
    else:
        outs = [_shard((ctx.seed, 0, n, policies, False))]
    for out in outs:
        if out["crash"]:
            raise RuntimeError("C01 shard crashed:\n" + out["crash"])
        for res in out["results"]:
            absorb(ctx, res, "generated")
        n_parts = sum(len(r["parts"]) for r in out["results"])
        ctx.tie_comparisons += n_parts
        ctx.traces += n_parts - len([t for t in out["ties"]])
        for t in out["ties"]:
            if sum(1 for f in ctx.failures if f.kind == "tie") < 50:
                ctx.tie_fail(t["what"], t["replay"])


def _neighbours(scn: dict, rng: random.Random) -> dict:
    """A scenario close to a disagreeing one: same shape, timing nudged by ticks."""
    s = json.loads(json.dumps(scn))
    for it in s["stream"]:
        if "obj" not in it:
            continue
        r = rng.random()
        if r < 0.3 and it["wait"][0] == "delay":
            it["wait"][1] = max(0, it["wait"][1] + rng.choice([-1, 1, 0]))
        elif r < 0.5 and it["wait"][0] == "deadline":
            it["wait"][2] = rng.choice([-1, 0, 1])
        elif r < 0.7:
            it["dur"] = max(0, it.get("dur", 0) + rng.choice([-1, 0, 1, 5]))
        elif r < 0.8:
            it["hops"] = rng.choice([0, 1, 2, 3])
    if rng.random() < 0.3:
        s["tail"] = drain_bound(s)
        s.pop("cancel", None)
    if rng.random() < 0.2:
        s["settings"]["exit_timeout"] = 100000
    if rng.random() < 0.35:
        # the watcher cancelled at one of its own suspension points right after it was given some event
        ev_idx = [i for i, it in enumerate(s["stream"]) if "obj" in it]
        s["cancel"] = {"mode": "after_event", "index": rng.choice(ev_idx), "soon": rng.choice([0, 0, 1, 2])}
        s["settings"]["exit_timeout"] = 100000
    s["tie_seed"] = rng.randrange(1 << 30)
    return s


def search(ctx: Ctx, broken: list) -> None:
    """A proof/tie is broken and the oracle saw nothing yet: oracle-only search at 10x budget, biased
    around the scenarios whose traces the model rejected."""
    rng = random.Random(f"C01-search-{ctx.seed}")
    seeds = [b.replay["scenario"] for b in broken if isinstance(b.replay, dict) and "scenario" in b.replay]
    n = ctx.budget(2000, 20000)
    tried = 0
    for scn0 in seeds[:20]:
        for _ in range(max(1, n // (4 * max(1, len(seeds[:20]))))):
            scn = _neighbours(scn0, rng)
            for pol in POLICIES_T:
                tried += 1
                bad = oracle_all(scn, run_one(scn, pol))
                if bad:
                    for what, sig in bad:
                        ctx.oracle_fail(what, {"scenario": scn, "policy": pol, "found_by": "search near a rejected trace"}, sig)
                    return
    while tried < n:
        scn = gen_scenario(rng)
        for pol in POLICIES_T:
            tried += 1
            bad = oracle_all(scn, run_one(scn, pol))
            if bad:
                for what, sig in bad:
                    ctx.oracle_fail(what, {"scenario": scn, "policy": pol, "found_by": "search"}, sig)
                return
    ctx.notes.append(f"search: {tried} oracle-only runs, no failing input")


def replay(ctx: Ctx, data: dict) -> None:
    rp = data.get("replay") or data.get("first") or {}
    if rp.get("sched") is not None:
        res = run_sched(rp["sched"]["limit"], {"ops": rp["sched"]["ops"]})
        for what, sig in oracle_sched(res):
            ctx.oracle_fail(what, rp, sig)
            print(f"replay: oracle: {what}")
        return
    scn = rp.get("scenario")
    if scn is None:
        raise RuntimeError("replay file has no scenario")
    pols = [rp["policy"]] if rp.get("policy") else list(POLICIES_T)
    results = []
    for pol in pols:
        res = evaluate(scn, pol)
        results.append(res)
        for what, sig in res["oracle"]:
            ctx.oracle_fail(what, {"scenario": scn, "policy": pol}, sig)
            print(f"replay: oracle: {what}")
    for t in check_traces(results, ctx.driver):
        ctx.tie_fail(t["what"], t["replay"])
        print(f"replay: tie: {t['what']}")
